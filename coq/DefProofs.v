(** Proofs about the definition-level model (Def.v): inverse map, inverted definition,
    inverse closure, and soundness of MatrixGenerator.inv for any oracle candidate (C10). *)
From Coq Require Import ZArith List Bool Arith Lia String.
From V Require Import Base W64 W64Proofs Perm PermProofs Matrix MatrixProofs Def.
Import ListNotations.
Local Notation length := List.length (only parsing).
Local Open Scope nat_scope.

(* ------------------------------------------------------------------ *)
(** * 1. last_index / sequence helpers *)

Definition li_step {A} (f : A -> bool) (acc : option nat) (ix : nat * A) : option nat :=
  let '(i, x) := ix in if f x then Some i else acc.

Lemma last_index_unfold {A} (f : A -> bool) l :
  last_index f l = fold_left (li_step f) (combine (seq 0 (length l)) l) None.
Proof. reflexivity. Qed.

(* generalised invariant: either nothing matched and the accumulator is returned, or the result
   is the position (shifted by s) of the LAST matching element *)
Lemma li_fold_gen {A} (f : A -> bool) l : forall s acc,
  let r := fold_left (li_step f) (combine (seq s (length l)) l) acc in
  (r = acc /\ forall x, In x l -> f x = false) \/
  (exists i x, r = Some (s + i) /\ i < length l /\ nth_error l i = Some x /\ f x = true /\
               forall j y, i < j -> nth_error l j = Some y -> f y = false).
Proof.
  induction l as [|a t IH]; intros s acc; cbv zeta.
  - left. split; [reflexivity|]. intros x [].
  - cbn [List.length seq combine fold_left].
    assert (li_step f acc (s, a) = if f a then Some s else acc) as Est by reflexivity.
    specialize (IH (S s) (li_step f acc (s, a))). cbv zeta in IH.
    destruct IH as [[Hr Hall] | (i & x & Hr & Hi & Hn & Hf & Hlast)].
    + rewrite Hr, Est. destruct (f a) eqn:Fa.
      * right. exists 0, a. split; [f_equal; lia|]. split; [cbn; lia|]. split; [reflexivity|]. split; [exact Fa|].
        intros [|j] y Hj Hy; [lia|]. cbn in Hy. apply Hall. eapply nth_error_In; eauto.
      * left. split; [reflexivity|]. intros x [<-|Hx]; auto.
    + right. exists (S i), x. rewrite Hr. split; [f_equal; lia|]. split; [cbn; lia|]. split; [exact Hn|]. split; [exact Hf|].
      intros [|j] y Hj Hy; [lia|]. cbn in Hy. apply (Hlast j y); auto. lia.
Qed.

(* full characterisation: it is the last index whose element satisfies f *)
Lemma last_index_some_last {A} (f : A -> bool) l i : last_index f l = Some i ->
  i < length l /\ (exists x, nth_error l i = Some x /\ f x = true) /\
  forall j y, i < j -> nth_error l j = Some y -> f y = false.
Proof.
  rewrite last_index_unfold. intros H.
  destruct (li_fold_gen f l 0 None) as [[Hr _] | (k & x & Hr & Hk & Hn & Hf & Hlast)]; cbv zeta in Hr.
  - congruence.
  - rewrite Hr in H. inversion H; subst. cbn [Nat.add]. split; [auto|]. split; [eauto|]. exact Hlast.
Qed.

Lemma last_index_some {A} (f : A -> bool) l i : last_index f l = Some i ->
  (i < length l)%nat /\ exists x, nth_error l i = Some x /\ f x = true.
Proof. intros H. apply last_index_some_last in H as (H1 & H2 & _). auto. Qed.

Lemma last_index_none {A} (f : A -> bool) l : last_index f l = None <-> forall x, In x l -> f x = false.
Proof.
  rewrite last_index_unfold.
  destruct (li_fold_gen f l 0 None) as [[Hr Hall] | (k & x & Hr & Hk & Hn & Hf & Hlast)]; cbv zeta in Hr.
  - rewrite Hr. split; auto.
  - rewrite Hr. split; [discriminate|]. intros Hall. apply nth_error_In in Hn. rewrite (Hall x Hn) in Hf. discriminate.
Qed.

Lemma last_index_is_some {A} (f : A -> bool) l : is_some (last_index f l) = existsb f l.
Proof.
  destruct (last_index f l) as [i|] eqn:E; cbn [is_some]; symmetry.
  - apply last_index_some in E as (_ & x & Hn & Hf). apply existsb_exists. exists x. split; auto.
    eapply nth_error_In; eauto.
  - destruct (existsb f l) eqn:E2; auto. apply existsb_exists in E2 as (x & Hx & Hf).
    rewrite (proj1 (last_index_none f l) E x Hx) in Hf. discriminate.
Qed.

Lemma sequence_some_map {A} (l : list (option A)) r : sequence l = Some r <-> l = map Some r.
Proof.
  revert r; induction l as [|[a|] t IH]; intros r; cbn [sequence].
  - split; intros H.
    + inversion H. reflexivity.
    + destruct r; [reflexivity|discriminate].
  - destruct (sequence t) as [r'|] eqn:E.
    + split; intros H.
      * inversion H; subst. cbn [map]. f_equal. apply IH. reflexivity.
      * destruct r as [|b r]; [discriminate|]. cbn [map] in H. inversion H; subst.
        assert (Some r' = Some r) as Hr by (apply IH; reflexivity). inversion Hr. reflexivity.
    + split; [discriminate|]. intros H. destruct r as [|b r]; [discriminate|]. cbn [map] in H. inversion H; subst.
      assert (None = Some r) by (apply IH; reflexivity). discriminate.
  - split; [discriminate|]. intros H. destruct r; discriminate.
Qed.

Lemma sequence_some {A} (l : list (option A)) r :
  sequence l = Some r <->
  length r = length l /\ forall i, (i < length l)%nat -> nth_error l i = Some (nth_error r i).
Proof.
  rewrite sequence_some_map. split.
  - intros ->. rewrite map_length. split; [reflexivity|]. intros i Hi.
    rewrite nth_error_map. destruct (nth_error r i) eqn:E; [reflexivity|].
    apply nth_error_None in E. lia.
  - revert r; induction l as [|o t IH]; intros r [Hl H].
    + destruct r; [reflexivity|discriminate].
    + destruct r as [|b r]; [discriminate|]. cbn [map]. f_equal.
      * specialize (H 0 ltac:(cbn; lia)). cbn in H. inversion H. reflexivity.
      * apply IH. split; [cbn in Hl; lia|]. intros i Hi. apply (H (S i)). cbn. lia.
Qed.

Lemma sequence_none {A} (l : list (option A)) : sequence l = None <-> In None l.
Proof.
  induction l as [|[a|] t IH]; cbn [sequence].
  - split; [discriminate|intros []].
  - destruct (sequence t); split; try discriminate.
    + intros [H|H]; [discriminate|]. apply IH in H. discriminate.
    + intros _. right. apply IH. reflexivity.
    + reflexivity.
  - split; auto. intros _. left. reflexivity.
Qed.

Lemma sequence_is_some {A} (l : list (option A)) : is_some (sequence l) = forallb is_some l.
Proof.
  induction l as [|[a|] t IH]; cbn [sequence forallb is_some andb]; auto.
  rewrite <- IH. destruct (sequence t); reflexivity.
Qed.

(* ------------------------------------------------------------------ *)
(** * 2. inverse map of a permutation generator list (C10.3) *)

Lemma existsb_nat_list_In a l : existsb (nat_list_eqb a) l = true <-> In a l.
Proof.
  rewrite existsb_exists. split.
  - intros (x & Hx & E). apply list_eqb_nat_true in E. subst. exact Hx.
  - intros H. exists a. split; auto. apply list_eqb_nat_true. reflexivity.
Qed.

Lemma existsb_nat_list_notIn a l : existsb (nat_list_eqb a) l = false <-> ~ In a l.
Proof.
  rewrite <- existsb_nat_list_In. destruct (existsb (nat_list_eqb a) l); split; intros H; auto; try discriminate.
  exfalso. apply H. reflexivity.
Qed.

Theorem perm_inverse_map_correct perms m :
  perm_inverse_map perms = Some m ->
  length m = length perms /\
  forall i, (i < length perms)%nat ->
    (nth i m 0 < length perms)%nat /\ nth (nth i m 0) perms [] = inverse_perm (nth i perms []).
Proof.
  unfold perm_inverse_map. intros H. apply sequence_some_map in H.
  assert (length m = length perms) as Hl.
  { apply (f_equal (@length _)) in H. rewrite !map_length in H. auto. }
  split; [exact Hl|]. intros i Hi.
  set (g := fun p => last_index (nat_list_eqb (inverse_perm p)) perms) in *.
  assert (g (nth i perms []) = Some (nth i m 0)) as Hg.
  { rewrite <- (nth_map_lt g perms i [] None Hi). rewrite H.
    apply (nth_map_lt (@Some nat) m i 0 None). lia. }
  unfold g in Hg. apply last_index_some in Hg as (Hlt & x & Hn & Hx).
  split; [exact Hlt|]. apply list_eqb_nat_true in Hx. subst x.
  apply nth_error_nth. exact Hn.
Qed.

(* the recorded index is moreover the LAST position holding the inverse (dict semantics) *)
Theorem perm_inverse_map_last perms m i j :
  perm_inverse_map perms = Some m -> i < length perms -> nth i m 0 < j -> j < length perms ->
  nth j perms [] <> inverse_perm (nth i perms []).
Proof.
  unfold perm_inverse_map. intros H Hi Hj Hjl. apply sequence_some_map in H.
  assert (length m = length perms) as Hl.
  { apply (f_equal (@length _)) in H. rewrite !map_length in H. auto. }
  set (g := fun p => last_index (nat_list_eqb (inverse_perm p)) perms) in *.
  assert (g (nth i perms []) = Some (nth i m 0)) as Hg.
  { rewrite <- (nth_map_lt g perms i [] None Hi). rewrite H.
    apply (nth_map_lt (@Some nat) m i 0 None). lia. }
  unfold g in Hg. apply last_index_some_last in Hg as (_ & _ & Hlast).
  intros E. specialize (Hlast j (nth j perms []) Hj (nth_error_nth' perms [] Hjl)).
  rewrite E in Hlast. assert (nat_list_eqb (inverse_perm (nth i perms [])) (inverse_perm (nth i perms [])) = true)
    by (apply list_eqb_nat_true; reflexivity). congruence.
Qed.

Theorem perm_inverse_map_none perms :
  perm_inverse_map perms = None <-> exists p, In p perms /\ ~ In (inverse_perm p) perms.
Proof.
  unfold perm_inverse_map. rewrite sequence_none, in_map_iff. split.
  - intros (p & Hp & Hin). exists p. split; auto. apply existsb_nat_list_notIn.
    rewrite <- last_index_is_some, Hp. reflexivity.
  - intros (p & Hin & Hn). exists p. split; auto. apply existsb_nat_list_notIn in Hn.
    rewrite <- last_index_is_some in Hn. destruct (last_index _ perms); [discriminate|reflexivity].
Qed.

Lemma forallb_map' {A B} (f : B -> bool) (g : A -> B) l : forallb f (map g l) = forallb (fun x => f (g x)) l.
Proof. induction l as [|a t IH]; cbn; auto. rewrite IH. reflexivity. Qed.
Lemma forallb_ext' {A} (f g : A -> bool) l : (forall x, f x = g x) -> forallb f l = forallb g l.
Proof. intros H. induction l as [|a t IH]; cbn; auto. rewrite H, IH. reflexivity. Qed.

(* the inverse-closed flag, as a boolean and as a proposition *)
Lemma closed_flag_bool perms :
  is_some (perm_inverse_map perms) = forallb (fun p => existsb (nat_list_eqb (inverse_perm p)) perms) perms.
Proof.
  unfold perm_inverse_map. rewrite sequence_is_some, forallb_map'. apply forallb_ext'.
  intros p. apply last_index_is_some.
Qed.

Lemma closed_flag_iff perms :
  is_some (perm_inverse_map perms) = true <-> forall p, In p perms -> In (inverse_perm p) perms.
Proof.
  rewrite closed_flag_bool, forallb_forall. split; intros H p Hp.
  - apply existsb_nat_list_In. auto.
  - apply existsb_nat_list_In. auto.
Qed.

Corollary inverse_map_undoes perms m i (x : list Z) :
  perm_inverse_map perms = Some m -> (i < length perms)%nat -> Perm (nth i perms []) ->
  length x = length (nth i perms []) ->
  apply_perm 0%Z (nth (nth i m 0) perms []) (apply_perm 0%Z (nth i perms []) x) = x.
Proof.
  intros H Hi HP Hl. destruct (perm_inverse_map_correct perms m H) as [_ Hc].
  destruct (Hc i Hi) as [_ ->]. apply inverse_undoes; auto.
Qed.

(* ... and the other way round: generator (m i) followed by generator i is the identity as well *)
Corollary inverse_map_undoes' perms m i (x : list Z) :
  perm_inverse_map perms = Some m -> (i < length perms)%nat -> Perm (nth i perms []) ->
  length x = length (nth i perms []) ->
  apply_perm 0%Z (nth i perms []) (apply_perm 0%Z (nth (nth i m 0) perms []) x) = x.
Proof.
  intros H Hi HP Hl. destruct (perm_inverse_map_correct perms m H) as [_ Hc].
  destruct (Hc i Hi) as [_ ->]. apply inverse_undoes; auto.
Qed.

(* ------------------------------------------------------------------ *)
(** * 3. inverted definition (permutations) (C10.2) *)

Lemma inverted_perms_length perms : length (inverted_perms perms) = length perms.
Proof. apply map_length. Qed.

Lemma inverted_perms_nth perms i : i < length perms ->
  nth i (inverted_perms perms) [] = inverse_perm (nth i perms []).
Proof. intros Hi. unfold inverted_perms. apply nth_map_lt. exact Hi. Qed.

Theorem inverted_perms_undo perms i (x : list Z) :
  (i < length perms)%nat -> Perm (nth i perms []) -> length x = length (nth i perms []) ->
  apply_perm 0%Z (nth i (inverted_perms perms) []) (apply_perm 0%Z (nth i perms []) x) = x /\
  apply_perm 0%Z (nth i perms []) (apply_perm 0%Z (nth i (inverted_perms perms) []) x) = x.
Proof.
  intros Hi HP Hl. rewrite inverted_perms_nth by exact Hi. apply inverse_undoes; auto.
Qed.

Theorem inverted_twice perms : Forall Perm perms -> inverted_perms (inverted_perms perms) = perms.
Proof.
  intros H. unfold inverted_perms. rewrite map_map. rewrite <- (map_id perms) at 2.
  apply map_ext_in. intros p Hp. rewrite Forall_forall in H. apply inverse_involutive. auto.
Qed.

Lemma inverted_perms_Perm perms : Forall Perm perms -> Forall Perm (inverted_perms perms).
Proof.
  intros H. unfold inverted_perms. apply Forall_forall. intros q Hq. apply in_map_iff in Hq as (p & <- & Hp).
  rewrite Forall_forall in H. apply inverse_is_perm. auto.
Qed.

(* ------------------------------------------------------------------ *)
(** * 4. make_inverse_closed (C10.4) *)

Lemma filter_combine_fst {A B C} (f : A -> bool) (g : A -> C) (l : list A) : forall (l' : list B),
  length l' = length l ->
  map (fun '(p, _) => g p) (filter (fun '(p, _) => f p) (combine l l')) = map g (filter f l).
Proof.
  induction l as [|a t IH]; intros [|b t'] Hl; try discriminate; [reflexivity|].
  cbn [combine filter]. destruct (f a); cbn [map]; rewrite IH by (cbn in Hl; lia); reflexivity.
Qed.

Lemma filter_combine_length {A B} (f : A -> bool) (l : list A) : forall (l' : list B),
  length l' = length l ->
  length (filter (fun '(p, _) => f p) (combine l l')) = length (filter f l).
Proof.
  induction l as [|a t IH]; intros [|b t'] Hl; try discriminate; [reflexivity|].
  cbn [combine filter]. destruct (f a); cbn [length]; rewrite IH by (cbn in Hl; lia); reflexivity.
Qed.

Lemma firstn_app_exact {A} (l l' : list A) : firstn (length l) (l ++ l') = l.
Proof. induction l as [|a t IH]; cbn; [destruct l'; reflexivity|]. rewrite IH. reflexivity. Qed.
Lemma skipn_app_exact {A} (l l' : list A) : skipn (length l) (l ++ l') = l'.
Proof. induction l as [|a t IH]; cbn; auto. Qed.

Definition missing_perms (perms : list (list nat)) : list (list nat) :=
  filter (fun p => negb (existsb (nat_list_eqb (inverse_perm p)) perms)) perms.

(* the names given to the appended generators: the old name followed by a prime, in order *)
Definition missing_names (perms : list (list nat)) (names : list string) : list string :=
  map (fun '(_, nm) => (nm ++ "'")%string)
      (filter (fun '(p, _) => negb (existsb (nat_list_eqb (inverse_perm p)) perms)) (combine perms names)).

Lemma closed_app_missing perms : Forall Perm perms ->
  is_some (perm_inverse_map (perms ++ map inverse_perm (missing_perms perms))) = true.
Proof.
  intros HP. rewrite Forall_forall in HP. apply closed_flag_iff. intros q Hq. apply in_or_app.
  apply in_app_or in Hq as [Hq|Hq].
  - destruct (existsb (nat_list_eqb (inverse_perm q)) perms) eqn:E.
    + left. apply existsb_nat_list_In. exact E.
    + right. apply in_map. unfold missing_perms. apply filter_In. split; auto. rewrite E. reflexivity.
  - apply in_map_iff in Hq as (p & <- & Hp). unfold missing_perms in Hp. apply filter_In in Hp as [Hp _].
    left. rewrite inverse_involutive by auto. exact Hp.
Qed.

Lemma closed_missing_nil perms : is_some (perm_inverse_map perms) = true -> missing_perms perms = [].
Proof.
  intros H. rewrite closed_flag_bool, forallb_forall in H. unfold missing_perms.
  induction perms as [|a t IH] using rev_ind; [reflexivity|].
  clear IH. set (l := t ++ [a]) in *.
  assert (forall l0, (forall x, In x l0 -> existsb (nat_list_eqb (inverse_perm x)) l = true) ->
            filter (fun p => negb (existsb (nat_list_eqb (inverse_perm p)) l)) l0 = []) as G.
  { induction l0 as [|b l0 IH0]; intros Hall; [reflexivity|]. cbn [filter].
    rewrite (Hall b (or_introl eq_refl)). cbn [negb]. apply IH0. intros x Hx. apply Hall. right. exact Hx. }
  apply G. exact H.
Qed.

Theorem mic_perms_spec perms names name :
  Forall Perm perms -> length names = length perms ->
  let '(mp, mn, mname) := mic_perms perms names name in
  (* keeps generators, names, order *)
  firstn (length perms) mp = perms /\ firstn (length perms) mn = names /\ length mn = length mp /\
  (* adds exactly the missing inverses, in order *)
  skipn (length perms) mp = map inverse_perm (filter (fun p => negb (existsb (nat_list_eqb (inverse_perm p)) perms)) perms) /\
  (* the result is inverse closed *)
  is_some (perm_inverse_map mp) = true /\
  (* already closed: returned unchanged *)
  (is_some (perm_inverse_map perms) = true -> (mp, mn, mname) = (perms, names, name)).
Proof.
  intros HP Hl. unfold mic_perms. destruct (is_some (perm_inverse_map perms)) eqn:E.
  - fold (missing_perms perms). rewrite (closed_missing_nil perms E). cbn [map].
    rewrite firstn_all. rewrite skipn_all. rewrite <- Hl. rewrite firstn_all. repeat split; auto.
  - rewrite (filter_combine_fst _ inverse_perm perms names Hl). fold (missing_perms perms).
    split; [apply firstn_app_exact|]. split; [rewrite <- Hl; apply firstn_app_exact|].
    split.
    { rewrite !app_length, !map_length, Hl. rewrite (filter_combine_length _ perms names Hl). reflexivity. }
    split; [apply skipn_app_exact|]. split; [apply closed_app_missing; exact HP|discriminate].
Qed.

(* what is appended, names included, when the definition is not yet closed *)
Theorem mic_perms_open perms names name :
  length names = length perms -> is_some (perm_inverse_map perms) = false ->
  mic_perms perms names name =
  (perms ++ map inverse_perm (missing_perms perms), names ++ missing_names perms names,
   if String.eqb name "" then name else (name ++ "-ic")%string).
Proof.
  intros Hl E. unfold mic_perms. rewrite E.
  rewrite (filter_combine_fst _ inverse_perm perms names Hl). reflexivity.
Qed.

Theorem mic_perms_idempotent perms names name :
  Forall Perm perms -> length names = length perms ->
  let '(mp, mn, mname) := mic_perms perms names name in mic_perms mp mn mname = (mp, mn, mname).
Proof.
  intros HP Hl. pose proof (mic_perms_spec perms names name HP Hl) as S.
  destruct (mic_perms perms names name) as [[mp mn] mname].
  destruct S as (_ & _ & _ & _ & C & _). unfold mic_perms. rewrite C. reflexivity.
Qed.

(* the closed definition still consists of permutations *)
Lemma mic_perms_Perm perms names name :
  Forall Perm perms -> length names = length perms ->
  Forall Perm (fst (fst (mic_perms perms names name))).
Proof.
  intros HP Hl. unfold mic_perms. destruct (is_some (perm_inverse_map perms)); cbn [fst]; auto.
  rewrite (filter_combine_fst _ inverse_perm perms names Hl). apply Forall_app. split; auto.
  apply Forall_forall. intros q Hq. apply in_map_iff in Hq as (p & <- & Hp). apply filter_In in Hp as [Hp _].
  rewrite Forall_forall in HP. apply inverse_is_perm. auto.
Qed.

(* ------------------------------------------------------------------ *)
(** * 5. matrices: inv is sound for any oracle candidate (C10.5) *)

Local Open Scope Z_scope.

Lemma list_eqb_true {A} (eqb : A -> A -> bool) :
  (forall x y, eqb x y = true -> x = y) -> forall l1 l2, list_eqb eqb l1 l2 = true -> l1 = l2.
Proof.
  intros He. induction l1 as [|a t IH]; intros [|b t2] H; cbn in H; try discriminate; auto.
  apply andb_true_iff in H as [H1 H2]. f_equal; auto.
Qed.

Lemma list_eqb_refl {A} (eqb : A -> A -> bool) :
  (forall x, eqb x x = true) -> forall l, list_eqb eqb l l = true.
Proof. intros He. induction l as [|a t IH]; cbn; auto. rewrite He, IH. reflexivity. Qed.

Lemma mat_eqb_true A B : mat_eqb A B = true <-> A = B.
Proof.
  unfold mat_eqb, z_list2_eqb, z_list_eqb. split.
  - apply list_eqb_true. apply list_eqb_true. intros x y. apply Z.eqb_eq.
  - intros ->. apply list_eqb_refl. apply list_eqb_refl. apply Z.eqb_refl.
Qed.

Theorem mat_inv_sound_mod0 n M cand M' :
  mat_inv 0 n M cand = Ok M' -> M' = cand /\ mat_mul 0 n M M' = eye n.
Proof.
  unfold mat_inv. destruct (mat_eqb (mat_mul 0 n M cand) (eye n)) eqn:E; [|discriminate].
  cbn [Z.ltb Z.compare]. intros H. inversion H; subst. split; [reflexivity|]. apply mat_eqb_true. exact E.
Qed.

Theorem mat_inv_rejects modulo n M cand :
  mat_eqb (mat_mul modulo n M cand) (eye n) = false -> mat_inv modulo n M cand = Err AssertionErr.
Proof. intros H. unfold mat_inv. rewrite H. reflexivity. Qed.

(* success means exactly that the candidate passed the product check *)
Theorem mat_inv_ok_iff modulo n M cand :
  (exists M', mat_inv modulo n M cand = Ok M') <-> mat_mul modulo n M cand = eye n.
Proof.
  unfold mat_inv. rewrite <- mat_eqb_true. destruct (mat_eqb (mat_mul modulo n M cand) (eye n)); split; intros H; eauto.
  - destruct H; discriminate.
  - discriminate.
Qed.

Lemma nth_map_mod (m : Z) row k : nth k (map (fun x => x mod m) row) 0 = nth k row 0 mod m.
Proof.
  destruct (lt_dec k (length row)) as [Hk|Hk].
  - apply (nth_map_lt' (fun x => x mod m) row k 0 0 Hk).
  - rewrite !nth_overflow by (try rewrite map_length; lia). symmetry. apply Zmod_0_l.
Qed.

Lemma nth_map_map_mod (m : Z) (cand : list (list Z)) j k :
  nth k (nth j (map (map (fun x => x mod m)) cand) []) 0 = nth k (nth j cand []) 0 mod m.
Proof.
  destruct (lt_dec j (length cand)) as [Hj|Hj].
  - rewrite (nth_map_lt' (map (fun x => x mod m)) cand j [] [] Hj). apply nth_map_mod.
  - rewrite !(nth_overflow _ []) by (try rewrite map_length; lia).
    destruct k; cbn [nth]; symmetry; apply Zmod_0_l.
Qed.

(* one reduced product: reducing the right operand first changes nothing (no int64 overflow) *)
Lemma wrap_mul_mod_r m a b :
  2 <= m <= 2 ^ 31 -> 0 <= a < m -> - 2 ^ 31 <= b <= 2 ^ 31 ->
  wrap (a * (b mod m)) mod m = wrap (a * b) mod m.
Proof.
  change (2 ^ 31) with 2147483648. intros Hm Ha Hb.
  pose proof (Z.mod_pos_bound b m ltac:(lia)) as Hbm.
  rewrite !wrap_id.
  - apply Zmult_mod_idemp_r.
  - unfold in64, two63.
    assert (a * b <= 2147483648 * 2147483648) by (destruct (Z_le_gt_dec 0 b); [apply Z.mul_le_mono_nonneg; lia|nia]).
    assert (- (2147483648 * 2147483648) <= a * b).
    { destruct (Z_le_gt_dec 0 b); [nia|].
      assert (a * (- b) <= 2147483648 * 2147483648) by (apply Z.mul_le_mono_nonneg; lia). lia. }
    lia.
  - unfold in64, two63.
    assert (0 <= a * (b mod m) <= 2147483648 * 2147483648) by (split; [nia|apply Z.mul_le_mono_nonneg; lia]).
    lia.
Qed.

(* the product with the reduced candidate equals the product with the raw candidate *)
Lemma mat_mul_reduce_r modulo n M cand :
  2 <= modulo <= 2 ^ 31 ->
  (forall r c0, (r < n)%nat -> (c0 < n)%nat -> 0 <= nth c0 (nth r M []) 0 < modulo) ->
  (forall r c0, (r < n)%nat -> (c0 < n)%nat -> - 2 ^ 31 <= nth c0 (nth r cand []) 0 <= 2 ^ 31) ->
  mat_mul modulo n M (map (map (fun x => x mod modulo)) cand) = mat_mul modulo n M cand.
Proof.
  intros Hm HM HC. unfold mat_mul.
  apply map_ext_in. intros i Hi. apply in_seq in Hi.
  apply map_ext_in. intros k Hk. apply in_seq in Hk.
  unfold dot_mod. assert (0 <? modulo = true) as -> by (apply Z.ltb_lt; lia).
  f_equal. f_equal. f_equal. rewrite !map_map.
  apply map_ext_in. intros j Hj. apply in_seq in Hj.
  rewrite nth_map_map_mod. apply wrap_mul_mod_r; auto.
  - apply HM; lia.
  - apply HC; lia.
Qed.

(* stronger form: no shape hypothesis on the candidate is needed *)
Theorem mat_inv_sound_modular' modulo n M cand M' :
  2 <= modulo <= 2 ^ 31 ->
  (forall r c0, (r < n)%nat -> (c0 < n)%nat -> 0 <= nth c0 (nth r M []) 0 < modulo) ->
  (forall r c0, (r < n)%nat -> (c0 < n)%nat -> - 2 ^ 31 <= nth c0 (nth r cand []) 0 <= 2 ^ 31) ->
  mat_inv modulo n M cand = Ok M' ->
  M' = map (map (fun x => x mod modulo)) cand /\ mat_mul modulo n M M' = eye n.
Proof.
  intros Hm HM HC. unfold mat_inv.
  destruct (mat_eqb (mat_mul modulo n M cand) (eye n)) eqn:E; [|discriminate].
  assert (0 <? modulo = true) as -> by (apply Z.ltb_lt; lia).
  intros H. inversion H; subst. split; [reflexivity|].
  rewrite mat_mul_reduce_r by auto. apply mat_eqb_true. exact E.
Qed.

Theorem mat_inv_sound_modular modulo n M cand M' :
  (2 <= modulo <= 2 ^ 31)%Z -> (Z.of_nat n < 2 ^ 32)%Z ->
  (forall r c0, (r < n)%nat -> (c0 < n)%nat -> (0 <= nth c0 (nth r M []) 0 < modulo)%Z) ->
  (forall r c0, (r < n)%nat -> (c0 < n)%nat -> (- 2 ^ 31 <= nth c0 (nth r cand []) 0 <= 2 ^ 31)%Z) ->
  length cand = n -> Forall (fun row => length row = n) cand ->
  mat_inv modulo n M cand = Ok M' ->
  mat_mul modulo n M M' = eye n.
Proof.
  intros Hm _ HM HC _ _ H. apply (mat_inv_sound_modular' modulo n M cand M' Hm HM HC H).
Qed.

(* the returned inverse is itself a reduced matrix of the right shape *)
Lemma mat_inv_modular_reduced modulo n M cand M' :
  0 < modulo -> length cand = n -> Forall (fun row => length row = n) cand ->
  mat_inv modulo n M cand = Ok M' ->
  length M' = n /\ Forall (fun row => length row = n) M' /\
  forall r c0, 0 <= nth c0 (nth r M' []) 0 < modulo.
Proof.
  intros Hm Hl HF. unfold mat_inv. destruct (mat_eqb _ _); [|discriminate].
  assert (0 <? modulo = true) as -> by (apply Z.ltb_lt; lia).
  intros H. inversion H; subst. rewrite map_length. split; [reflexivity|]. split.
  - apply Forall_forall. intros row Hr. apply in_map_iff in Hr as (row0 & <- & Hr0).
    rewrite map_length. rewrite Forall_forall in HF. auto.
  - intros r c0. rewrite nth_map_map_mod. apply Z.mod_pos_bound. exact Hm.
Qed.

(* ------------------------------------------------------------------ *)
(** * 5b. entry-wise reading of "product = identity" (used by MatrixMC.v for the left inverse) *)

Definition mentry (A : list (list Z)) (i j : nat) : Z := nth j (nth i A []) 0.
Definition dotZ (n : nat) (a b : nat -> nat -> Z) (i k : nat) : Z :=
  zsum (map (fun j => a i j * b j k) (seq 0 n)).
Definition delta (i k : nat) : Z := if (i =? k)%nat then 1 else 0.

Lemma nth2_map_seq n (F : nat -> nat -> Z) i k : (i < n)%nat -> (k < n)%nat ->
  nth k (nth i (map (fun i => map (fun k => F i k) (seq 0 n)) (seq 0 n)) []) 0 = F i k.
Proof.
  intros Hi Hk.
  rewrite (nth_map_lt' (fun i => map (fun k => F i k) (seq 0 n)) (seq 0 n) i 0%nat []) by (rewrite seq_length; exact Hi).
  rewrite seq_nth by exact Hi. cbn [Nat.add].
  rewrite (nth_map_lt' (fun k => F i k) (seq 0 n) k 0%nat 0) by (rewrite seq_length; exact Hk).
  rewrite seq_nth by exact Hk. reflexivity.
Qed.

Lemma map2_seq_eq_iff n (F G : nat -> nat -> Z) :
  map (fun i => map (fun k => F i k) (seq 0 n)) (seq 0 n) = map (fun i => map (fun k => G i k) (seq 0 n)) (seq 0 n)
  <-> forall i k, (i < n)%nat -> (k < n)%nat -> F i k = G i k.
Proof.
  split.
  - intros H i k Hi Hk. rewrite <- (nth2_map_seq n F i k Hi Hk), <- (nth2_map_seq n G i k Hi Hk), H. reflexivity.
  - intros H. apply map_ext_in. intros i Hi. apply in_seq in Hi.
    apply map_ext_in. intros k Hk. apply in_seq in Hk. apply H; lia.
Qed.

Lemma mat_mul_eye_iff modulo n A B :
  mat_mul modulo n A B = eye n <->
  forall i k, (i < n)%nat -> (k < n)%nat ->
    dot_mod modulo (map (fun j => (mentry A i j, mentry B j k)) (seq 0 n)) = delta i k.
Proof. unfold mat_mul, eye. apply map2_seq_eq_iff. Qed.

(* modulo 0: arithmetic in Z/2^64 (signed representatives) *)
Lemma mat_mul0_eye_iff n A B :
  mat_mul 0 n A B = eye n <->
  forall i k, (i < n)%nat -> (k < n)%nat -> wrap (dotZ n (mentry A) (mentry B) i k) = delta i k.
Proof.
  rewrite mat_mul_eye_iff. unfold dotZ.
  split; intros H i k Hi Hk; specialize (H i k Hi Hk); rewrite dot_mod_zero, map_map in *; exact H.
Qed.

(* with a modulus, reduced operands and no overflow: arithmetic in Z/m *)
Lemma mat_mul_mod_eye_iff modulo n A B :
  2 <= modulo <= 2 ^ 31 -> Z.of_nat n < 2 ^ 32 ->
  (forall r c0, (r < n)%nat -> (c0 < n)%nat -> 0 <= mentry A r c0 < modulo) ->
  (forall r c0, (r < n)%nat -> (c0 < n)%nat -> 0 <= mentry B r c0 < modulo) ->
  (mat_mul modulo n A B = eye n <->
   forall i k, (i < n)%nat -> (k < n)%nat -> dotZ n (mentry A) (mentry B) i k mod modulo = delta i k).
Proof.
  intros Hm Hn HA HB. rewrite mat_mul_eye_iff. unfold dotZ.
  assert (forall i k, (i < n)%nat -> (k < n)%nat ->
            dot_mod modulo (map (fun j => (mentry A i j, mentry B j k)) (seq 0 n)) =
            zsum (map (fun j => mentry A i j * mentry B j k) (seq 0 n)) mod modulo) as E.
  { intros i k Hi Hk. rewrite dot_mod_exact; auto.
    - rewrite map_map. reflexivity.
    - apply Forall_forall. intros [a b] Hin. apply in_map_iff in Hin as (j & Hj & Hin). apply in_seq in Hin.
      inversion Hj; subst. cbn [fst snd]. split; [apply HA|apply HB]; lia.
    - rewrite map_length, seq_length. exact Hn. }
  split; intros H i k Hi Hk; specialize (H i k Hi Hk); rewrite E in * by assumption; exact H.
Qed.

(* ------------------------------------------------------------------ *)
(** * 5c. entry-wise reading of "apply M' after M" on flat row-major states *)

Lemma dotZ_ext n a b b' i k :
  (forall j, (j < n)%nat -> b j k = b' j k) -> dotZ n a b i k = dotZ n a b' i k.
Proof.
  intros H. unfold dotZ. f_equal. apply map_ext_in. intros j Hj. apply in_seq in Hj.
  rewrite H by lia. reflexivity.
Qed.

Lemma flat_forall n m (P : Z -> Prop) (T : list Z) :
  (forall i k, (i < n)%nat -> (k < m)%nat -> P (nth (i * m + k) T 0)) ->
  forall idx, (idx < n * m)%nat -> P (nth idx T 0).
Proof.
  intros H idx Hidx. assert (m <> 0)%nat as Hm0 by (intros ->; lia).
  pose proof (Nat.div_mod idx m Hm0) as E. rewrite E.
  replace (m * (idx / m))%nat with (idx / m * m)%nat by lia.
  apply H.
  - apply Nat.div_lt_upper_bound; auto. lia.
  - apply Nat.mod_upper_bound; auto.
Qed.

Lemma flat_ext n m (S T : list Z) :
  length S = (n * m)%nat -> length T = (n * m)%nat ->
  (forall i k, (i < n)%nat -> (k < m)%nat -> nth (i * m + k) S 0 = nth (i * m + k) T 0) -> S = T.
Proof.
  intros HS HT H. apply nth_ext with (d := 0) (d' := 0); [lia|]. intros idx Hidx. rewrite HS in Hidx.
  assert (m <> 0)%nat as Hm0 by (intros ->; lia).
  pose proof (Nat.div_mod idx m Hm0) as E. rewrite E.
  replace (m * (idx / m))%nat with (idx / m * m)%nat by lia.
  apply H.
  - apply Nat.div_lt_upper_bound; auto. lia.
  - apply Nat.mod_upper_bound; auto.
Qed.

Lemma mat_apply0_entry n m M S i k : (i < n)%nat -> (k < m)%nat ->
  nth (i * m + k) (mat_apply 0 n m M S) 0 = wrap (dotZ n (mentry M) (mat_entry m S) i k).
Proof. intros Hi Hk. rewrite mat_apply_wrap by auto. reflexivity. Qed.

Lemma mat_apply0_twice_entry n m M M' S i k : (i < n)%nat -> (k < m)%nat ->
  nth (i * m + k) (mat_apply 0 n m M' (mat_apply 0 n m M S)) 0 =
  wrap (dotZ n (mentry M') (fun j k => wrap (dotZ n (mentry M) (mat_entry m S) j k)) i k).
Proof.
  intros Hi Hk. rewrite mat_apply0_entry by auto. f_equal. apply dotZ_ext. intros j Hj.
  unfold mat_entry at 1. apply mat_apply0_entry; auto.
Qed.

Lemma mat_apply0_undo_crit n m M M' S :
  length S = (n * m)%nat -> (forall idx, (idx < n * m)%nat -> in64 (nth idx S 0)) ->
  (forall i k, (i < n)%nat -> (k < m)%nat ->
     wrap (dotZ n (mentry M') (fun j k => wrap (dotZ n (mentry M) (mat_entry m S) j k)) i k) = wrap (mat_entry m S i k)) ->
  mat_apply 0 n m M' (mat_apply 0 n m M S) = S.
Proof.
  intros HS Hin H. apply (flat_ext n m); [apply mat_apply_length|exact HS|]. intros i k Hi Hk.
  rewrite mat_apply0_twice_entry, H by auto. unfold mat_entry. apply wrap_id. apply Hin. nia.
Qed.

Lemma mat_apply_mod_entry modulo n m M S i k :
  2 <= modulo <= 2 ^ 31 -> Z.of_nat n < 2 ^ 32 ->
  (forall r c0, (r < n)%nat -> (c0 < n)%nat -> 0 <= mentry M r c0 < modulo) ->
  (forall j, (j < n * m)%nat -> 0 <= nth j S 0 < modulo) ->
  (i < n)%nat -> (k < m)%nat ->
  nth (i * m + k) (mat_apply modulo n m M S) 0 = dotZ n (mentry M) (mat_entry m S) i k mod modulo.
Proof. intros Hm Hn HM HS Hi Hk. rewrite mat_apply_exact by auto. reflexivity. Qed.

Lemma mat_apply_mod_bounds modulo n m M S :
  2 <= modulo <= 2 ^ 31 -> Z.of_nat n < 2 ^ 32 ->
  (forall r c0, (r < n)%nat -> (c0 < n)%nat -> 0 <= mentry M r c0 < modulo) ->
  (forall j, (j < n * m)%nat -> 0 <= nth j S 0 < modulo) ->
  forall j, (j < n * m)%nat -> 0 <= nth j (mat_apply modulo n m M S) 0 < modulo.
Proof.
  intros Hm Hn HM HS. apply (flat_forall n m (fun z => 0 <= z < modulo)). intros i k Hi Hk.
  rewrite mat_apply_mod_entry by auto. apply Z.mod_pos_bound. lia.
Qed.

Lemma mat_apply_mod_twice_entry modulo n m M M' S i k :
  2 <= modulo <= 2 ^ 31 -> Z.of_nat n < 2 ^ 32 ->
  (forall r c0, (r < n)%nat -> (c0 < n)%nat -> 0 <= mentry M r c0 < modulo) ->
  (forall r c0, (r < n)%nat -> (c0 < n)%nat -> 0 <= mentry M' r c0 < modulo) ->
  (forall j, (j < n * m)%nat -> 0 <= nth j S 0 < modulo) ->
  (i < n)%nat -> (k < m)%nat ->
  nth (i * m + k) (mat_apply modulo n m M' (mat_apply modulo n m M S)) 0 =
  dotZ n (mentry M') (fun j k => dotZ n (mentry M) (mat_entry m S) j k mod modulo) i k mod modulo.
Proof.
  intros Hm Hn HM HM' HS Hi Hk.
  rewrite mat_apply_mod_entry; auto using mat_apply_mod_bounds.
  f_equal. apply dotZ_ext. intros j Hj. unfold mat_entry at 1. apply mat_apply_mod_entry; auto.
Qed.

Lemma mat_apply_mod_undo_crit modulo n m M M' S :
  2 <= modulo <= 2 ^ 31 -> Z.of_nat n < 2 ^ 32 ->
  (forall r c0, (r < n)%nat -> (c0 < n)%nat -> 0 <= mentry M r c0 < modulo) ->
  (forall r c0, (r < n)%nat -> (c0 < n)%nat -> 0 <= mentry M' r c0 < modulo) ->
  length S = (n * m)%nat -> (forall j, (j < n * m)%nat -> 0 <= nth j S 0 < modulo) ->
  (forall i k, (i < n)%nat -> (k < m)%nat ->
     dotZ n (mentry M') (fun j k => dotZ n (mentry M) (mat_entry m S) j k mod modulo) i k mod modulo
     = mat_entry m S i k mod modulo) ->
  mat_apply modulo n m M' (mat_apply modulo n m M S) = S.
Proof.
  intros Hm Hn HM HM' HL HS H. apply (flat_ext n m); [apply mat_apply_length|exact HL|]. intros i k Hi Hk.
  rewrite mat_apply_mod_twice_entry, H by auto. unfold mat_entry. apply Z.mod_small. apply HS. nia.
Qed.

Print Assumptions perm_inverse_map_correct.
Print Assumptions perm_inverse_map_none.
Print Assumptions inverted_perms_undo.
Print Assumptions mic_perms_spec.
Print Assumptions mic_perms_idempotent.
Print Assumptions mat_inv_sound_modular.
