(** Exact integer matrices: a right inverse of a square matrix over Z is a left inverse.
    (MathComp [mulmx1C] over the commutative ring Z; the eqType/choiceType structures on Z are those
    of MatrixMC.v.)  The exported statement is free of MathComp vocabulary. *)
From mathcomp Require Import all_ssreflect all_algebra.
From Coq Require Import ZArith Lia.
From V Require Import Base W64 Matrix MatrixProofs Def DefProofs MatrixMC.
Import GRing.Theory.

Set Implicit Arguments.
Unset Strict Implicit.
Unset Printing Implicit Defensive.

Local Close Scope Z_scope.
Local Open Scope ring_scope.

Lemma ZaddA : associative Z.add. Proof. move=> x y z; lia. Qed.
Lemma ZaddC : commutative Z.add. Proof. move=> x y; lia. Qed.
Lemma Zadd0 : left_id 0%Z Z.add. Proof. move=> x; lia. Qed.
Lemma ZaddN : left_inverse 0%Z Z.opp Z.add. Proof. move=> x; lia. Qed.
Definition Zx_zmodMixin := ZmodMixin ZaddA ZaddC Zadd0 ZaddN.
Canonical Zx_zmodType := ZmodType Z Zx_zmodMixin.

Lemma ZmulA : associative Z.mul. Proof. move=> x y z; lia. Qed.
Lemma ZmulC : commutative Z.mul. Proof. move=> x y; lia. Qed.
Lemma Zmul1 : left_id 1%Z Z.mul. Proof. move=> x; lia. Qed.
Lemma ZmulDl : left_distributive Z.mul Z.add. Proof. move=> x y z; lia. Qed.
Lemma Zone_neq0 : 1%Z != 0%Z. Proof. by []. Qed.
Definition Zx_ringMixin := ComRingMixin ZmulA ZmulC Zmul1 ZmulDl Zone_neq0.
Canonical Zx_ringType := RingType Z Zx_ringMixin.
Canonical Zx_comRingType := ComRingType Z ZmulC.

Lemma sum_Z n (F : nat -> Z) : \sum_(j < n) F j = zsum (List.map F (List.seq 0 n)).
Proof.
  elim: n => [|n IH]; first by rewrite big_ord0.
  by rewrite List.seq_S List.map_app zsum_rcons -IH big_ord_recr /=.
Qed.

Definition toMZ q n (a : nat -> nat -> Z) : 'M[Z]_(q, n) := \matrix_(i, j) a i j.

Lemma toMZ_mul q n p (a b : nat -> nat -> Z) (i : 'I_q) (k : 'I_p) :
  (toMZ q n a *m toMZ n p b) i k = dotZ n a b i k.
Proof.
  rewrite mxE /dotZ -sum_Z; apply: eq_bigr => j _.
  by rewrite !mxE.
Qed.

Lemma delta_Z n (i k : 'I_n) : delta i k = (1%:M : 'M[Z]_n) i k.
Proof.
  rewrite mxE /delta. have -> : Nat.eqb i k = (i == k :> nat) by apply/idP/eqP => /Nat.eqb_spec.
  by rewrite -val_eqE; case: (_ == _).
Qed.

Theorem Z_right_inverse_is_left n (a b : nat -> nat -> Z) :
  (forall i k, (i < n)%coq_nat -> (k < n)%coq_nat -> dotZ n a b i k = delta i k) ->
  (forall i k, (i < n)%coq_nat -> (k < n)%coq_nat -> dotZ n b a i k = delta i k).
Proof.
  move=> H.
  have AB : toMZ n n a *m toMZ n n b = 1%:M.
  { apply/matrixP => i k. rewrite toMZ_mul -delta_Z. by apply: H; apply/ltP. }
  have BA := mulmx1C AB.
  move=> i k /ltP Hi /ltP Hk.
  move/matrixP/(_ (Ordinal Hi) (Ordinal Hk)): BA.
  by rewrite toMZ_mul -delta_Z.
Qed.

(* a right inverse over Z is unique *)
Theorem Z_right_inverse_unique n (a b c : nat -> nat -> Z) :
  (forall i k, (i < n)%coq_nat -> (k < n)%coq_nat -> dotZ n a b i k = delta i k) ->
  (forall i k, (i < n)%coq_nat -> (k < n)%coq_nat -> dotZ n a c i k = delta i k) ->
  (forall i k, (i < n)%coq_nat -> (k < n)%coq_nat -> b i k = c i k).
Proof.
  move=> Hb Hc.
  have AB : toMZ n n a *m toMZ n n b = 1%:M.
  { apply/matrixP => i k. rewrite toMZ_mul -delta_Z. by apply: Hb; apply/ltP. }
  have AC : toMZ n n a *m toMZ n n c = 1%:M.
  { apply/matrixP => i k. rewrite toMZ_mul -delta_Z. by apply: Hc; apply/ltP. }
  have BA := mulmx1C AB.
  have E : toMZ n n b = toMZ n n c by rewrite -[LHS]mulmx1 -AC mulmxA BA mul1mx.
  move=> i k /ltP Hi /ltP Hk.
  move/matrixP/(_ (Ordinal Hi) (Ordinal Hk)): E.
  by rewrite !mxE.
Qed.

(* non-vacuity: [[1;1];[0;1]] * [[1;-1];[0;1]] = I *)
Example ex_Z_right_inverse_hyp :
  let a := mentry (cons (cons 1 (cons 1 nil)) (cons (cons 0 (cons 1 nil)) nil))%Z in
  let b := mentry (cons (cons 1 (cons (-1) nil)) (cons (cons 0 (cons 1 nil)) nil))%Z in
  forall i k, (i < 2)%coq_nat -> (k < 2)%coq_nat -> dotZ 2 a b i k = delta i k.
Proof. by move=> a b [|[|i]] [|[|k]] Hi Hk //; lia. Qed.

Print Assumptions Z_right_inverse_is_left.
Print Assumptions Z_right_inverse_unique.
