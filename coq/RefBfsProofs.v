(** The executable reference BFS of RefBfs.v computes the sizes of the textbook layers of Graph.v
    (which GraphProofs.ref_layers_dist proves to be the distance classes). *)
From Coq Require Import ZArith List Bool Arith Lia Orders MSetRBT.
Import ListNotations.
From V Require Import Graph GraphProofs RefBfs.

(* generic list facts *)
Lemma fold_left_flat_map {A B C} (f : A -> B -> A) (h : C -> list B) (l : list C) : forall a,
  fold_left f (flat_map h l) a = fold_left (fun a x => fold_left f (h x) a) l a.
Proof.
  induction l as [|x l IH]; intros a; simpl; auto.
  rewrite fold_left_app. apply IH.
Qed.

Lemma fold_left_map_r {A B C} (f : A -> B -> A) (h : C -> B) (l : list C) : forall a,
  fold_left f (map h l) a = fold_left (fun a x => f a (h x)) l a.
Proof. induction l as [|x l IH]; intros a; simpl; auto. Qed.

Lemma fold_left_ext_eq {A B} (f g : A -> B -> A) (l : list B) :
  (forall a x, f a x = g a x) -> forall a, fold_left f l a = fold_left g l a.
Proof. intros H. induction l as [|x l IH]; intros a; simpl; auto. rewrite H. apply IH. Qed.

Lemma NoDup_same_length {A} (a b : list A) :
  NoDup a -> NoDup b -> (forall x, In x a <-> In x b) -> length a = length b.
Proof.
  intros Ha Hb H. apply Nat.le_antisymm; apply NoDup_incl_length; auto;
    intros x Hx; apply H; exact Hx.
Qed.

Lemma no_elements_nil {A} (l : list A) : (forall x, ~ In x l) -> l = [].
Proof. destruct l as [|a l]; auto. intros H. exfalso. apply (H a). left. reflexivity. Qed.

Section RefBfsProofs.
  Variable gens : list (zstate -> zstate).

  Local Notation eq_dec := zstate_eq_dec.
  Local Notation N := (Graph.N zstate gens).
  Local Notation layer := (Graph.layer zstate eq_dec gens).
  Local Notation seen_upto := (Graph.seen_upto zstate eq_dec gens).
  Local Notation RIn := LZRaw.In.
  Local Notation ROk := LZRaw.Ok.

  (* ---------------------------------------------------------------------------------------- *)
  (* the visited set: membership facts from the library, with Leibniz equality *)

  Lemma rin_dec x s : ROk s -> RIn x s \/ ~ RIn x s.
  Proof.
    intros Hok. destruct (LZRaw.mem x s) eqn:E.
    - left. apply LZRaw.mem_spec; auto.
    - right. intros H. apply LZRaw.mem_spec in H; auto. congruence.
  Qed.

  Lemma rin_add x y s : ROk s -> (RIn y (LZRaw.add x s) <-> y = x \/ RIn y s).
  Proof. intros Hok. apply LZRaw.add_spec. exact Hok. Qed.

  Lemma rin_empty x : ~ RIn x LZRaw.empty.
  Proof. apply LZRaw.empty_spec. Qed.

  (* ---------------------------------------------------------------------------------------- *)
  (* visiting a list of candidates *)

  Definition acc_ok (acc : LZRaw.t * list zstate) : Prop :=
    ROk (fst acc) /\ NoDup (snd acc) /\ (forall y, In y (snd acc) -> RIn y (fst acc)).

  Lemma visit_all_spec cands : forall acc, acc_ok acc ->
    let acc' := visit_all acc cands in
    acc_ok acc' /\
    (forall y, RIn y (fst acc') <-> RIn y (fst acc) \/ In y cands) /\
    (forall y, In y (snd acc') <-> In y (snd acc) \/ (In y cands /\ ~ RIn y (fst acc))).
  Proof.
    induction cands as [|x cands IH]; intros [vis new] (Hok & Hnd & Hsub); simpl in *.
    - split; [repeat split; auto|]. split; intros y; tauto.
    - destruct (LZRaw.mem x vis) eqn:E.
      + (* x already seen *)
        assert (Hx : RIn x vis) by (apply LZRaw.mem_spec; auto).
        destruct (IH (vis, new)) as (Hacc & Hv & Hn); [repeat split; auto|].
        simpl in *. split; [exact Hacc|]. split; intros y.
        * rewrite Hv. split; [tauto|]. intros [H | [-> | H]]; auto.
        * rewrite Hn. split; [tauto|]. intros [H | [[-> | H] Hns]]; auto. contradiction.
      + (* x is new *)
        assert (Hx : ~ RIn x vis).
        { intros H. apply LZRaw.mem_spec in H; auto. congruence. }
        assert (Hok' : ROk (LZRaw.add x vis)) by (apply LZRaw.add_ok; exact Hok).
        destruct (IH (LZRaw.add x vis, x :: new)) as (Hacc & Hv & Hn).
        { split; [exact Hok'|]. split.
          - constructor; auto.
          - simpl. intros y [<- | Hy]; apply rin_add; auto. }
        simpl in *. split; [exact Hacc|]. split; intros y.
        * rewrite Hv, rin_add by exact Hok. split.
          -- intros [[-> | H] | H]; auto.
          -- intros [H | [<- | H]]; auto.
        * rewrite Hn, rin_add by exact Hok. split.
          -- intros [[<- | H] | [Hc Hns]]; auto. right. split; auto.
          -- intros [H | [[<- | Hc] Hns]]; auto.
             destruct (eq_dec y x) as [-> | Hne]; auto.
             right. split; auto. intros [-> | H]; auto.
  Qed.

  Lemma expand_visit_all vis fr : expand gens vis fr = visit_all (vis, []) (N fr).
  Proof.
    unfold expand, visit_all, Graph.N, expand_one.
    rewrite fold_left_flat_map. apply fold_left_ext_eq.
    intros a x. symmetry. apply (fold_left_map_r visit (fun g : zstate -> zstate => g x)).
  Qed.

  (* ---------------------------------------------------------------------------------------- *)
  (* the invariant: (vis, fr) is (everything seen up to layer i, layer i) *)

  Definition bfs_inv (S : list zstate) (i : nat) (vis : LZRaw.t) (fr : list zstate) : Prop :=
    acc_ok (vis, fr) /\
    (forall x, In x fr <-> In x (layer S i)) /\
    (forall x, RIn x vis <-> In x (seen_upto S i)).

  Lemma bfs_init_inv S : bfs_inv S 0 (fst (bfs_init S)) (snd (bfs_init S)).
  Proof.
    unfold bfs_init.
    destruct (visit_all_spec S (LZRaw.empty, [])) as (Hacc & Hv & Hn).
    { split; [apply LZRaw.empty_ok|]. split; [constructor|]. intros y []. }
    simpl in *. destruct (visit_all (LZRaw.empty, []) S) as [vis fr]. simpl in *.
    split; [exact Hacc|]. split; intros x.
    - rewrite Hn, layer_0, nodup_In. split.
      + intros [[] | [H _]]. exact H.
      + intros H. right. split; auto. apply rin_empty.
    - rewrite Hv, seen_0, nodup_In. split.
      + intros [H | H]; auto. exfalso. exact (rin_empty x H).
      + auto.
  Qed.

  Lemma N_ext l1 l2 : (forall x, In x l1 <-> In x l2) -> forall t, In t (N l1) <-> In t (N l2).
  Proof.
    intros H t. rewrite !(N_spec zstate gens). split; intros (x & g & Hx & Hg & Ht);
      exists x, g; repeat split; auto; apply H; exact Hx.
  Qed.

  Lemma expand_inv S i vis fr :
    bfs_inv S i vis fr ->
    bfs_inv S (Datatypes.S i) (fst (expand gens vis fr)) (snd (expand gens vis fr)).
  Proof.
    intros ((Hok & Hnd & Hsub) & Hfr & Hvis). simpl in *.
    rewrite expand_visit_all.
    destruct (visit_all_spec (N fr) (vis, [])) as (Hacc & Hv & Hn).
    { split; [exact Hok|]. split; [constructor|]. intros y []. }
    simpl in *. destruct (visit_all (vis, []) (N fr)) as [vis' nxt]. simpl in *.
    split; [exact Hacc|]. split; intros x.
    - rewrite Hn, (layer_succ_spec zstate eq_dec gens), Hvis, (N_ext fr (layer S i) Hfr). split.
      + intros [[] | H]. exact H.
      + intros H. right. exact H.
    - rewrite Hv, (seen_S zstate eq_dec gens), in_app_iff,
        (layer_succ_spec zstate eq_dec gens), Hvis, (N_ext fr (layer S i) Hfr). split.
      + intros [H | H]; auto.
        destruct (in_dec eq_dec x (seen_upto S i)) as [Hs | Hs]; auto.
      + intros [[H _] | H]; auto.
  Qed.

  Lemma inv_length S i vis fr : bfs_inv S i vis fr -> length fr = length (layer S i).
  Proof.
    intros ((_ & Hnd & _) & Hfr & _). simpl in *.
    apply NoDup_same_length; auto. apply (layer_NoDup zstate eq_dec gens).
  Qed.

  (* ---------------------------------------------------------------------------------------- *)
  (* the loops *)

  Local Notation len S := (fun i => length (layer S i)).

  Lemma bfs_loop_spec S fuel : forall i vis fr acc sizes,
    bfs_inv S i vis fr ->
    acc = rev (map (len S) (seq 0 i)) ->
    (forall j, j < i -> layer S j <> []) ->
    bfs_loop gens fuel vis fr acc = Some sizes ->
    sizes = map (len S) (seq 0 (length sizes)) /\
    layer S (length sizes) = [] /\
    (forall j, j < length sizes -> layer S j <> []).
  Proof.
    induction fuel as [|fuel IH]; intros i vis fr acc sizes Hinv Hacc Hne Hrun; simpl in Hrun.
    - discriminate.
    - destruct fr as [|s fr'].
      + inversion Hrun; subst sizes acc. rewrite rev_involutive, map_length, seq_length.
        split; [reflexivity|]. split; [|exact Hne].
        apply no_elements_nil. intros x Hx.
        destruct Hinv as (_ & Hfr & _). apply Hfr in Hx. destruct Hx.
      + pose proof (expand_inv S i vis (s :: fr') Hinv) as Hinv'.
        pose proof (inv_length S i vis (s :: fr') Hinv) as Hlen.
        destruct (expand gens vis (s :: fr')) as [vis' nxt]. simpl fst in Hinv'. simpl snd in Hinv'.
        apply (IH (Datatypes.S i) vis' nxt (length (s :: fr') :: acc) sizes Hinv'); auto.
        * rewrite seq_S, map_app, rev_app_distr. simpl. f_equal; [exact Hlen | exact Hacc].
        * intros j Hj. destruct (Nat.eq_dec j i) as [-> | Hji].
          -- intros E. rewrite E in Hlen. simpl in Hlen. discriminate.
          -- apply Hne. lia.
  Qed.

  Theorem growth_correct (starts : list zstate) (fuel : nat) (sizes : list nat) :
    growth_fuel gens starts fuel = Some sizes ->
    sizes = map (fun i => length (layer starts i)) (seq 0 (length sizes)) /\
    layer starts (length sizes) = [] /\
    (forall i, i < length sizes -> layer starts i <> []).
  Proof.
    unfold growth_fuel. intros H.
    pose proof (bfs_init_inv starts) as Hinv.
    destruct (bfs_init starts) as [vis fr]. simpl in Hinv.
    apply (bfs_loop_spec starts fuel 0 vis fr [] sizes); auto.
    intros j Hj. lia.
  Qed.

  Lemma prefix_loop_spec S k : forall i vis fr,
    bfs_inv S i vis fr ->
    prefix_loop gens k vis fr = map (len S) (seq i (Datatypes.S k)).
  Proof.
    induction k as [|k IH]; intros i vis fr Hinv.
    - simpl. rewrite (inv_length S i vis fr Hinv). reflexivity.
    - pose proof (expand_inv S i vis fr Hinv) as Hinv'.
      change (prefix_loop gens (Datatypes.S k) vis fr)
        with (length fr :: (let '(vis', nxt) := expand gens vis fr in prefix_loop gens k vis' nxt)).
      destruct (expand gens vis fr) as [vis' nxt]. simpl fst in Hinv'. simpl snd in Hinv'.
      rewrite (IH (Datatypes.S i) vis' nxt Hinv'), (inv_length S i vis fr Hinv).
      reflexivity.
  Qed.

  Theorem growth_prefix_correct (starts : list zstate) (k : nat) :
    growth_prefix gens starts k =
    map (fun i => length (layer starts i)) (seq 0 (Datatypes.S k)).
  Proof.
    unfold growth_prefix.
    pose proof (bfs_init_inv starts) as Hinv.
    destruct (bfs_init starts) as [vis fr]. simpl in Hinv.
    apply prefix_loop_spec. exact Hinv.
  Qed.

  (* what the sizes mean, through GraphProofs.ref_layers_dist: layer i is the set of states at
     distance exactly i from the start set, without repetitions *)
  Corollary growth_counts_distance_classes (starts : list zstate) (fuel : nat) (sizes : list nat) :
    growth_fuel gens starts fuel = Some sizes ->
    forall i, i < length sizes ->
      exists cls : list zstate,
        NoDup cls /\ (forall t, In t cls <-> Graph.dist_is zstate gens starts t i) /\
        nth i sizes 0 = length cls.
  Proof.
    intros H i Hi. destruct (growth_correct starts fuel sizes H) as (Hs & _ & _).
    exists (layer starts i). split; [apply (layer_NoDup zstate eq_dec gens)|]. split.
    - intros t. apply (ref_layers_dist zstate eq_dec gens).
    - rewrite Hs at 1. rewrite (nth_indep _ 0 (length (layer starts 0))).
      + rewrite (map_nth (fun i => length (layer starts i))), seq_nth; auto.
      + rewrite map_length, seq_length. exact Hi.
  Qed.

  (* after the last reported layer nothing else is reachable *)
  Corollary growth_exhausts_orbit (starts : list zstate) (fuel : nat) (sizes : list nat) :
    growth_fuel gens starts fuel = Some sizes ->
    forall k t, Graph.reach zstate gens starts k t ->
      exists d, d < length sizes /\ Graph.dist_is zstate gens starts t d.
  Proof.
    intros H k t Hr. destruct (growth_correct starts fuel sizes H) as (_ & He & _).
    destruct (reach_has_dist zstate eq_dec gens starts k t Hr) as (d & _ & Hd).
    exists d. split; auto.
    destruct (le_lt_dec (length sizes) d) as [Hle | Hlt]; auto.
    exfalso. apply (ref_layers_dist zstate eq_dec gens) in Hd.
    rewrite (empty_layer_stays zstate eq_dec gens starts (length sizes) He d Hle) in Hd.
    destruct Hd.
  Qed.
End RefBfsProofs.

Print Assumptions growth_correct.
Print Assumptions growth_prefix_correct.
Print Assumptions growth_counts_distance_classes.
Print Assumptions growth_exhausts_orbit.
