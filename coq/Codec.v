(** Model of cayleypy/string_encoder.py: bit-serial encode/decode and the generated
    mask/shift/or routines for permutations (2-D and 1-D variants). *)
From Coq Require Import ZArith List Bool Arith Lia.
From V Require Import Base W64.
Import ListNotations.
Open Scope Z_scope.

Definition CL : nat := 64.                                  (* CODEWORD_LENGTH *)

(* _one_shifted / _mask_with_high_zeros *)
Definition one_shifted (bit_id : Z) : Z := if bit_id =? 63 then - two63 else Z.shiftl 1 bit_id.
Definition mask_with_high_zeros (n : Z) : Z := Z.shiftl 1 (64 - n) - 1.

Definition encoded_length (w n : nat) : nat := ((n * w + 63) / 64)%nat.   (* ceil(n*w/64) *)

(* StringEncoder.encode on one row:
     for i in range(w*n): encoded[i//64] |= ((s[i//w] >> (i%w)) & 1) << (i%64) *)
Definition encode (w n : nat) (s : list Z) : list Z :=
  fold_left (fun enc i =>
     let c := (i / CL)%nat in
     upd enc c (w_or (nth c enc 0)
                     (w_shl (w_and (w_sar (nth (i / w) s 0) (Z.of_nat (i mod w))) 1) (Z.of_nat (i mod CL)))))
    (seq 0 (w * n)) (repeat 0 (encoded_length w n)).

(* StringEncoder.decode on one row:
     for i in range(w*n): orig[i//w] |= ((encoded[i//64] >> (i%64)) & 1) << (i%w) *)
Definition decode (w n : nat) (e : list Z) : list Z :=
  fold_left (fun orig i =>
     let k := (i / w)%nat in
     upd orig k (w_or (nth k orig 0)
                      (w_shl (w_and (w_sar (nth (i / CL) e 0) (Z.of_nat (i mod CL))) 1) (Z.of_nat (i mod w)))))
    (seq 0 (w * n)) (repeat 0 n).

(* the assertions of encode: entries non-negative and below 2^w *)
Definition encodable (w : nat) (s : list Z) : bool :=
  forallb (fun x => (0 <=? x) && (x <? 2 ^ Z.of_nat w)) s.

(* ---- prepare_shift_to_mask: dict keyed (start_cw, end_cw, shift), insertion ordered ---- *)
Definition key : Type := (nat * nat * Z)%type.
Definition key_eqb (a b : key) : bool :=
  let '(a1, a2, a3) := a in let '(b1, b2, b3) := b in (a1 =? b1)%nat && (a2 =? b2)%nat && (a3 =? b3).

Fixpoint stm_add (k : key) (bit : Z) (m : list (key * Z)) : list (key * Z) :=
  match m with
  | [] => [(k, Z.lor 0 bit)]
  | (k', v) :: t => if key_eqb k k' then (k', Z.lor v bit) :: t else (k', v) :: stm_add k bit t
  end.

Definition bit_pairs (w n : nat) : list (nat * nat) :=
  flat_map (fun i => map (fun j => (i, j)) (seq 0 w)) (seq 0 n).

Definition bit_key (w : nat) (p : list nat) (ij : nat * nat) : key * Z :=
  let '(i, j) := ij in
  let start_bit := (nth i p 0%nat * w + j)%nat in
  let end_bit := (i * w + j)%nat in
  (((start_bit / CL)%nat, (end_bit / CL)%nat,
    Z.of_nat (end_bit mod CL)%nat - Z.of_nat (start_bit mod CL)%nat),
   one_shifted (Z.of_nat (start_bit mod CL)%nat)).

Definition shift_to_mask (w n : nat) (p : list nat) : list (key * Z) :=
  fold_left (fun m ij => let '(k, b) := bit_key w p ij in stm_add k b m) (bit_pairs w n) [].

(* ---- the generated routine as a program ---- *)
Inductive shift := NoShift | Shl (k : Z) | Sar (k : Z) (hz : option Z).
Record stmt := { dst : nat; src : nat; mask : Z; sh : shift }.

Definition stmt_of (e : key * Z) : stmt :=
  let '((s, d, k), m) := e in
  {| dst := d; src := s; mask := m;
     sh := if 0 <? k then Shl k
           else if k <? 0 then Sar (- k) (if m <? 0 then Some (mask_with_high_zeros (- k)) else None)
           else NoShift |}.

Definition emit (w n : nat) (p : list nat) : list stmt := map stmt_of (shift_to_mask w n p).

(* torch / numpy meaning of one generated statement
     y[:,d] |= (x[:,s] & mask)            [<<k]  |  [>>k [& hz]]
   (Python precedence: shifts bind tighter than &, so ">>k&hz" is "((..)>>k) & hz") *)
Definition eval_shift (v : Z) (s : shift) : Z :=
  match s with
  | NoShift => v
  | Shl k => w_shl v k
  | Sar k None => w_sar v k
  | Sar k (Some hz) => w_and (w_sar v k) hz
  end.

Definition eval_stmt (x y : list Z) (st : stmt) : list Z :=
  upd y (dst st) (w_or (nth (dst st) y 0) (eval_shift (w_and (nth (src st) x 0) (mask st)) (sh st))).

Definition eval_prog (L : nat) (prog : list stmt) (x : list Z) : list Z :=
  fold_left (eval_stmt x) prog (repeat 0 L).

(* 1-D variant: f_ = lambda x: (t1) | (t2) | ...   on a single word *)
Definition eval_prog1d (prog : list stmt) (x : Z) : Z :=
  fold_left (fun acc st => w_or acc (eval_shift (w_and x (mask st)) (sh st))) prog 0.

(* equality of programs (translation validation of the captured text) *)
Definition shift_eqb (a b : shift) : bool :=
  match a, b with
  | NoShift, NoShift => true
  | Shl k, Shl k' => k =? k'
  | Sar k h, Sar k' h' => (k =? k') && option_eqb Z.eqb h h'
  | _, _ => false
  end.
Definition stmt_eqb (a b : stmt) : bool :=
  (dst a =? dst b)%nat && (src a =? src b)%nat && (mask a =? mask b) && shift_eqb (sh a) (sh b).
Definition prog_eqb := list_eqb stmt_eqb.

(* CayleyGraph.__init__: auto width = int(ceil(log2(max+1))) *)
Definition auto_width (mx : Z) : nat := Z.to_nat (Z.log2_up (mx + 1)).
