(** C15, third part: general-n theorems for further cycle-based families (continuation of
    FamiliesProofs2.v, same conventions): wrapped_k_cycles, increasing_k_cycles, rapaport_m1,
    rapaport_m2, koltsov3, sheveleva2, all_cycles. *)
From Coq Require Import String.
From Coq Require Import ZArith List Bool Arith Lia ZifyNat Sorting.Mergesort Sorting.Permutation.
From V Require Import Base Perm PermProofs PermCycles Def DefProofs Families FamiliesProofs FamiliesProofs2.
Import ListNotations.
Open Scope nat_scope.

(* ---------------------------------------------------------------------------------------------- *)
(** * wrapped_k_cycles(n, k), 2 <= k <= n: the n cycles (s, s+1, ..., s+k-1) mod n *)
Lemma mod_wrap n a : 0 < n -> a < 2 * n -> a mod n = if a <? n then a else a - n.
Proof.
  intros Hn Ha. destruct (Nat.ltb_spec a n) as [H|H]; [apply Nat.mod_small; exact H|].
  replace a with ((a - n) + 1 * n) at 1 by lia. rewrite Nat.mod_add by lia. apply Nat.mod_small. lia.
Qed.

Definition wk_cycle (n k s : nat) : list nat := map (fun j => (s + j) mod n) (seq 0 k).
(* the generator as a map: t at offset r = (t - s) mod n from s goes to t+1 (r < k-1), back to s (r = k-1) *)
Definition wk_fun (n k s t : nat) : nat :=
  let r := (t + n - s) mod n in
  if r <? k - 1 then (t + 1) mod n else if r =? k - 1 then s else t.
Definition wk_gen (n k s : nat) : list nat := map (wk_fun n k s) (seq 0 n).

(* what wk_fun is: the cycle (s, s+1, ..., s+k-1) mod n *)
Lemma wk_fun_cycle n k s : 2 <= k <= n -> s < n ->
  (forall j, j < k - 1 -> wk_fun n k s ((s + j) mod n) = (s + j + 1) mod n) /\
  wk_fun n k s ((s + (k - 1)) mod n) = s /\
  (forall t, t < n -> (forall j, j < k -> t <> (s + j) mod n) -> wk_fun n k s t = t).
Proof.
  intros Hk Hs. unfold wk_fun. cbv zeta. repeat split.
  - intros j Hj. rewrite (mod_wrap n (s + j)) by lia. rewrite (mod_wrap n (s + j + 1)) by lia.
    destruct (Nat.ltb_spec (s + j) n).
    + rewrite (mod_wrap n (s + j + n - s)) by lia. destruct (Nat.ltb_spec (s + j + n - s) n); [lia|].
      destruct (Nat.ltb_spec (s + j + n - s - n) (k - 1)); [|lia]. rewrite mod_wrap by lia. reflexivity.
    + rewrite (mod_wrap n (s + j - n + n - s)) by lia. destruct (Nat.ltb_spec (s + j - n + n - s) n); [|lia].
      destruct (Nat.ltb_spec (s + j - n + n - s) (k - 1)); [|lia]. rewrite mod_wrap by lia.
      destruct (Nat.ltb_spec (s + j - n + 1) n); destruct (Nat.ltb_spec (s + j + 1) n); lia.
  - rewrite (mod_wrap n (s + (k - 1))) by lia. destruct (Nat.ltb_spec (s + (k - 1)) n).
    + rewrite (mod_wrap n (s + (k - 1) + n - s)) by lia. destruct (Nat.ltb_spec (s + (k - 1) + n - s) n); [lia|].
      destruct (Nat.ltb_spec (s + (k - 1) + n - s - n) (k - 1)); [lia|].
      destruct (Nat.eqb_spec (s + (k - 1) + n - s - n) (k - 1)); lia.
    + rewrite (mod_wrap n (s + (k - 1) - n + n - s)) by lia.
      destruct (Nat.ltb_spec (s + (k - 1) - n + n - s) n); [|lia].
      destruct (Nat.ltb_spec (s + (k - 1) - n + n - s) (k - 1)); [lia|].
      destruct (Nat.eqb_spec (s + (k - 1) - n + n - s) (k - 1)); lia.
  - intros t Ht Hnot. rewrite (mod_wrap n (t + n - s)) by lia.
    destruct (Nat.ltb_spec (t + n - s) n) as [H1|H1].
    + (* t < s: offset t + n - s *)
      destruct (Nat.ltb_spec (t + n - s) (k - 1)) as [H2|H2].
      { exfalso. apply (Hnot (t + n - s)); [lia|]. rewrite mod_wrap by lia.
        destruct (Nat.ltb_spec (s + (t + n - s)) n); lia. }
      destruct (Nat.eqb_spec (t + n - s) (k - 1)) as [H3|H3]; [|reflexivity].
      exfalso. apply (Hnot (t + n - s)); [lia|]. rewrite mod_wrap by lia.
      destruct (Nat.ltb_spec (s + (t + n - s)) n); lia.
    + destruct (Nat.ltb_spec (t + n - s - n) (k - 1)) as [H2|H2].
      { exfalso. apply (Hnot (t - s)); [lia|]. rewrite mod_wrap by lia.
        destruct (Nat.ltb_spec (s + (t - s)) n); lia. }
      destruct (Nat.eqb_spec (t + n - s - n) (k - 1)) as [H3|H3]; [|reflexivity].
      exfalso. apply (Hnot (t - s)); [lia|]. rewrite mod_wrap by lia.
      destruct (Nat.ltb_spec (s + (t - s)) n); lia.
Qed.

Lemma wk_gen_length n k s : length (wk_gen n k s) = n.
Proof. unfold wk_gen. now rewrite map_length, seq_length. Qed.

Lemma wk_gen_nth n k s t : t < n -> nth t (wk_gen n k s) 0 = wk_fun n k s t.
Proof. intros H. unfold wk_gen. now rewrite nth_map_seq. Qed.

Lemma wk_cycle_nth n k s i : i < k -> nth i (wk_cycle n k s) 0 = (s + i) mod n.
Proof. intros H. unfold wk_cycle. now rewrite nth_map_seq. Qed.

Lemma wk_cycle_spec n k s : 2 <= k <= n -> s < n ->
  NoDup (wk_cycle n k s) /\ (forall x, In x (wk_cycle n k s) -> x < n) /\
  (forall x, In x (wk_cycle n k s) <-> exists j, j < k /\ x = (s + j) mod n).
Proof.
  intros Hk Hs. split; [|split].
  - unfold wk_cycle. apply NoDup_map_inj; [apply seq_NoDup|].
    intros a b Ha Hb E. apply in_seq in Ha, Hb. rewrite !mod_wrap in E by lia.
    destruct (Nat.ltb_spec (s + a) n); destruct (Nat.ltb_spec (s + b) n); lia.
  - intros x Hx. unfold wk_cycle in Hx. apply in_map_iff in Hx as (j & <- & Hj). apply Nat.mod_upper_bound. lia.
  - intros x. unfold wk_cycle. rewrite in_map_iff. split.
    + intros (j & <- & Hj). apply in_seq in Hj. exists j. split; [lia|reflexivity].
    + intros (j & Hj & ->). exists j. split; [reflexivity|apply in_seq; lia].
Qed.

Lemma wk_zfrom n k s : 2 <= k <= n -> s < n ->
  zfrom_cycles (Z.of_nat n) [of_nats (wk_cycle n k s)] = Ok (of_nats (wk_gen n k s)) /\ PermN n (wk_gen n k s).
Proof.
  intros Hk Hs. destruct (wk_cycle_spec n k s Hk Hs) as (ND & Hlt & Hin).
  destruct (wk_fun_cycle n k s Hk Hs) as (F1 & F2 & F3).
  apply (zfrom_cycles_nat n [wk_cycle n k s]).
  - cbn [concat]. rewrite app_nil_r. exact ND.
  - cbn [concat]. rewrite app_nil_r. exact Hlt.
  - apply wk_gen_length.
  - intros c i [<-|[]] Hi. unfold wk_cycle in Hi. rewrite map_length, seq_length in Hi.
    assert (length (wk_cycle n k s) = k) as Lc by (unfold wk_cycle; now rewrite map_length, seq_length).
    rewrite Lc. rewrite wk_cycle_nth by exact Hi.
    rewrite wk_gen_nth by (apply Nat.mod_upper_bound; lia).
    destruct (Nat.eq_dec i (k - 1)) as [->|Hne].
    + rewrite F2. replace (k - 1 + 1) with k by lia. rewrite Nat.mod_same by lia.
      rewrite wk_cycle_nth by lia. rewrite Nat.add_0_r. symmetry. apply Nat.mod_small. exact Hs.
    + rewrite F1 by lia. rewrite (Nat.mod_small (i + 1) k) by lia. rewrite wk_cycle_nth by lia.
      f_equal. lia.
  - intros x Hx Hn. cbn [concat] in Hn. rewrite app_nil_r in Hn. rewrite wk_gen_nth by exact Hx.
    apply F3; [exact Hx|]. intros j Hj E. apply Hn. apply Hin. exists j. split; assumption.
Qed.

Lemma wk_cycles_nat n k : 1 <= n ->
  map (fun start => map (fun j => ((start + j) mod Z.of_nat n)%Z) (zrange 0 (Z.of_nat k))) (zrange 0 (Z.of_nat n))
  = map (fun s => of_nats (wk_cycle n k s)) (seq 0 n).
Proof.
  intros Hn. rewrite !zrange0_nat. unfold of_nats at 2. rewrite map_map. apply map_ext. intros s.
  unfold wk_cycle, of_nats. rewrite !map_map. apply map_ext. intros j.
  rewrite Nat2Z.inj_mod. f_equal. lia.
Qed.

Definition wk_gens (n k : nat) : list (list nat) := map (wk_gen n k) (seq 0 n).
Definition wk_names (n k : nat) : list string :=
  map (fun s => cat ["("; join " " (of_nats (wk_cycle n k s)); ")"]) (seq 0 n).

Theorem wrapped_k_cycles_returns n k : 2 <= k <= n ->
  returns_full (wrapped_k_cycles (Z.of_nat n) (Z.of_nat k)) n (wk_gens n k) (wk_names n k)
               (cat ["wrapped_k_cycles-"; zs (Z.of_nat n); "-"; zs (Z.of_nat k)]).
Proof.
  intros Hk. unfold wrapped_k_cycles. zguard. rewrite wk_cycles_nat by lia.
  rewrite (mapM_map_ok _ _ (fun s => of_nats (wk_gen n k s))).
  2:{ intros s Hs. apply in_seq in Hs. apply wk_zfrom; lia. }
  cbn [bind]. rewrite map_map. rewrite <- (map_map (wk_gen n k) of_nats).
  apply create_full.
  - unfold wk_gens. destruct n; [lia|]. discriminate.
  - lia.
  - apply Forall_forall. intros p Hp. apply in_map_iff in Hp as (s & <- & Hs). apply in_seq in Hs.
    apply wk_zfrom; lia.
  - unfold wk_gens, wk_names. now rewrite !map_length.
Qed.
Lemma wk_gen_2 n s : 2 <= n -> s < n -> wk_gen n 2 s = transp n s ((s + 1) mod n).
Proof.
  intros Hn Hs. destruct (wk_fun_cycle n 2 s ltac:(lia) Hs) as (F1 & F2 & F3).
  assert ((s + 1) mod n < n) as Hj by (apply Nat.mod_upper_bound; lia).
  assert ((s + 1) mod n <> s) as Hne.
  { rewrite mod_wrap by lia. destruct (Nat.ltb_spec (s + 1) n); lia. }
  apply nth_ext' with (d := 0); [now rewrite wk_gen_length, transp_length|].
  intros t Ht. rewrite wk_gen_length in Ht. rewrite wk_gen_nth by exact Ht.
  rewrite transp_nth by assumption.
  destruct (Nat.eqb_spec t ((s + 1) mod n)) as [->|N1].
  { exact F2. }
  destruct (Nat.eqb_spec t s) as [->|N2].
  { specialize (F1 0 ltac:(lia)). rewrite Nat.add_0_r, (Nat.mod_small s n) in F1 by exact Hs. exact F1. }
  apply F3; [exact Ht|]. intros j Hj2. destruct j as [|[|j]]; [|exact N1|lia].
  rewrite Nat.add_0_r, Nat.mod_small by exact Hs. exact N2.
Qed.

Theorem wrapped_k_cycles_documented n k : 2 <= k <= n ->
  exists d, wrapped_k_cycles (Z.of_nat n) (Z.of_nat k) = Ok d /\
    p_gens d = map (wk_gen n k) (seq 0 n) /\
    p_names d = map (fun s => cat ["("; join " " (of_nats (wk_cycle n k s)); ")"]) (seq 0 n) /\
    p_name d = cat ["wrapped_k_cycles-"; zs (Z.of_nat n); "-"; zs (Z.of_nat k)] /\
    p_central d = of_nats (seq 0 n) /\
    length (p_gens d) = n /\ length (p_names d) = n /\ Forall (PermN n) (p_gens d) /\
    (forall s, s < n ->
       nth s (p_gens d) [] = wk_gen n k s /\
       (* generator s is the cycle (s, s+1, ..., s+k-1) mod n *)
       (forall j, j < k - 1 -> nth ((s + j) mod n) (wk_gen n k s) 0 = (s + j + 1) mod n) /\
       nth ((s + (k - 1)) mod n) (wk_gen n k s) 0 = s /\
       (forall t, t < n -> (forall j, j < k -> t <> (s + j) mod n) -> nth t (wk_gen n k s) 0 = t) /\
       (* action on a sequence: position t receives x[g(t)] *)
       forall (A : Type) (dflt : A) (x : list A) t, length x = n -> t < n ->
         nth t (apply_perm dflt (wk_gen n k s) x) dflt = nth (wk_fun n k s t) x dflt) /\
    closed_flag (p_gens d) = (k =? 2).
Proof.
  intros Hk. destruct (returns_full_fields _ _ _ _ _ (wrapped_k_cycles_returns n k Hk)) as (d & E & G & N & M & C).
  exists d. rewrite G, N. unfold wk_gens, wk_names. rewrite !map_length, seq_length.
  split; [exact E|]. split; [reflexivity|]. split; [reflexivity|]. split; [exact M|]. split; [exact C|].
  split; [reflexivity|]. split; [reflexivity|]. split; [|split].
  - apply Forall_forall. intros p Hp. apply in_map_iff in Hp as (s & <- & Hs). apply in_seq in Hs.
    apply wk_zfrom; lia.
  - intros s Hs. destruct (wk_fun_cycle n k s Hk Hs) as (F1 & F2 & F3).
    split; [now rewrite nth_map_seq|]. split; [|split; [|split]].
    + intros j Hj. rewrite wk_gen_nth by (apply Nat.mod_upper_bound; lia). apply F1. exact Hj.
    + rewrite wk_gen_nth by (apply Nat.mod_upper_bound; lia). exact F2.
    + intros t Ht Hnot. rewrite wk_gen_nth by exact Ht. apply F3; assumption.
    + intros A dflt x t L Ht. rewrite nth_apply_perm by (rewrite wk_gen_length; exact Ht).
      rewrite wk_gen_nth by exact Ht. reflexivity.
  - destruct (Nat.eqb_spec k 2) as [->|Hk2].
    + apply closed_of_involutions. intros p Hp. apply in_map_iff in Hp as (s & <- & Hs). apply in_seq in Hs.
      rewrite wk_gen_2 by lia. apply transp_inv; [lia|apply Nat.mod_upper_bound; lia].
    + apply (not_closed _ (wk_gen n k 0)).
      { apply in_map_iff. exists 0. split; [reflexivity|apply in_seq; lia]. }
      intros Hin. apply in_map_iff in Hin as (s & Es & Hs). apply in_seq in Hs.
      destruct (wk_zfrom n k 0 Hk ltac:(lia)) as [_ [HP L]].
      destruct (wk_fun_cycle n k 0 Hk ltac:(lia)) as (F1 & _ & _).
      specialize (F1 0 ltac:(lia)). cbn [Nat.add] in F1. rewrite !Nat.mod_small in F1 by lia.
      pose proof (inverse_spec (wk_gen n k 0) 0 HP ltac:(lia)) as S0.
      rewrite wk_gen_nth, F1 in S0 by lia. rewrite <- Es in S0. rewrite wk_gen_nth in S0 by lia.
      unfold wk_fun in S0. cbv zeta in S0. rewrite (mod_wrap n (1 + n - s)) in S0 by lia.
      rewrite (mod_wrap n (1 + 1)) in S0 by lia.
      destruct (Nat.ltb_spec (1 + n - s) n); destruct (Nat.ltb_spec (1 + 1) n); try lia.
      * destruct (Nat.ltb_spec (1 + n - s) (k - 1)); [lia|]. destruct (Nat.eqb_spec (1 + n - s) (k - 1)); lia.
      * destruct (Nat.ltb_spec (1 + n - s - n) (k - 1)); [lia|]. destruct (Nat.eqb_spec (1 + n - s - n) (k - 1)); lia.
Qed.

Theorem wrapped_k_cycles_range n k :
  ((exists d, wrapped_k_cycles n k = Ok d) <-> (2 <= n /\ 2 <= k <= n)%Z) /\
  (~ (2 <= n /\ 2 <= k <= n)%Z -> wrapped_k_cycles n k = Err AssertionErr).
Proof.
  apply range_from_cases.
  - intros [Hn Hk]. destruct (wrapped_k_cycles_documented (Z.to_nat n) (Z.to_nat k)) as (d & E & _); try lia.
    exists d. rewrite !Z2Nat.id in E by lia. exact E.
  - intros HN. unfold wrapped_k_cycles. destruct (Z.leb_spec 2 n); [|reflexivity].
    destruct (Z.leb_spec 2 k); [|reflexivity]. destruct (Z.leb_spec k n); [lia|reflexivity].
  - lia.
Qed.

Example wrapped_k_cycles_5_3 :
  wrapped_k_cycles 5 3 = Ok {| p_gens := [[1; 2; 0; 3; 4]; [0; 2; 3; 1; 4]; [0; 1; 3; 4; 2]; [3; 1; 2; 4; 0]; [1; 4; 2; 3; 0]];
       p_names := ["(0 1 2)"; "(1 2 3)"; "(2 3 4)"; "(3 4 0)"; "(4 0 1)"]%string;
       p_name := "wrapped_k_cycles-5-3"%string; p_central := [0; 1; 2; 3; 4]%Z |}
  /\ map (wk_gen 5 3) (seq 0 5) = [[1; 2; 0; 3; 4]; [0; 2; 3; 1; 4]; [0; 1; 3; 4; 2]; [3; 1; 2; 4; 0]; [1; 4; 2; 3; 0]].
Proof. vm_compute. repeat split. Qed.
(* ---------------------------------------------------------------------------------------------- *)
(** * The permutation of n points given by one cycle c = (c_0 c_1 ... c_{k-1}), in closed form *)
Fixpoint index_of (t : nat) (c : list nat) : option nat :=
  match c with
  | [] => None
  | x :: r => if x =? t then Some 0 else option_map S (index_of t r)
  end.
(* c_i -> c_{i+1 mod k}; every other point is fixed *)
Definition cycle_fun (c : list nat) (t : nat) : nat :=
  match index_of t c with Some i => nth ((i + 1) mod length c) c 0 | None => t end.
Definition cycle_gen (n : nat) (c : list nat) : list nat := map (cycle_fun c) (seq 0 n).

Lemma index_of_notin t c : ~ In t c -> index_of t c = None.
Proof.
  induction c as [|x r IH]; intros H; [reflexivity|]. cbn [index_of].
  destruct (Nat.eqb_spec x t) as [->|Hne]; [exfalso; apply H; left; reflexivity|].
  rewrite IH; [reflexivity|]. intros Hin. apply H. right. exact Hin.
Qed.

Lemma index_of_nth c : NoDup c -> forall i, i < length c -> index_of (nth i c 0) c = Some i.
Proof.
  induction c as [|x r IH]; intros ND i Hi; [cbn in Hi; lia|]. inversion ND as [|x' r' Hx NDr]; subst.
  cbn [index_of]. destruct i as [|i]; cbn [nth].
  - now rewrite Nat.eqb_refl.
  - cbn [length] in Hi. destruct (Nat.eqb_spec x (nth i r 0)) as [E|Hne].
    + exfalso. apply Hx. rewrite E. apply nth_In. lia.
    + rewrite IH by (assumption || lia). reflexivity.
Qed.

Lemma cycle_fun_spec c : NoDup c ->
  (forall i, i < length c -> cycle_fun c (nth i c 0) = nth ((i + 1) mod length c) c 0) /\
  (forall t, ~ In t c -> cycle_fun c t = t).
Proof.
  intros ND. split.
  - intros i Hi. unfold cycle_fun. now rewrite index_of_nth.
  - intros t Ht. unfold cycle_fun. now rewrite index_of_notin.
Qed.

Lemma cycle_gen_length n c : length (cycle_gen n c) = n.
Proof. unfold cycle_gen. now rewrite map_length, seq_length. Qed.

Lemma cycle_gen_nth n c t : t < n -> nth t (cycle_gen n c) 0 = cycle_fun c t.
Proof. intros H. unfold cycle_gen. now rewrite nth_map_seq. Qed.

Lemma zfrom_cycles_cycle n c : NoDup c -> (forall x, In x c -> x < n) ->
  zfrom_cycles (Z.of_nat n) [of_nats c] = Ok (of_nats (cycle_gen n c)) /\ PermN n (cycle_gen n c).
Proof.
  intros ND Hlt. destruct (cycle_fun_spec c ND) as [F1 F2].
  apply (zfrom_cycles_nat n [c]).
  - cbn [concat]. now rewrite app_nil_r.
  - cbn [concat]. now rewrite app_nil_r.
  - apply cycle_gen_length.
  - intros c0 i [<-|[]] Hi. rewrite cycle_gen_nth by (apply Hlt; apply nth_In; exact Hi). apply F1. exact Hi.
  - intros x Hx Hn. cbn [concat] in Hn. rewrite app_nil_r in Hn. rewrite cycle_gen_nth by exact Hx. apply F2. exact Hn.
Qed.

(* the action on a sequence: position t receives x[c_{i+1}] if t = c_i, and x[t] otherwise *)
Lemma apply_cycle_gen {A} (d : A) n c (x : list A) t : t < n ->
  nth t (apply_perm d (cycle_gen n c) x) d = nth (cycle_fun c t) x d.
Proof.
  intros Ht. rewrite nth_apply_perm by (rewrite cycle_gen_length; exact Ht). now rewrite cycle_gen_nth.
Qed.

(* the inverse of a cycle is the reversed cycle *)
Lemma cycle_gen_inverse n c : NoDup c -> (forall x, In x c -> x < n) ->
  inverse_perm (cycle_gen n c) = cycle_gen n (rev c).
Proof.
  intros ND Hlt. destruct (zfrom_cycles_cycle n c ND Hlt) as [_ [HP L]].
  assert (NoDup (rev c)) as NDr by (apply NoDup_rev; exact ND).
  destruct (cycle_fun_spec c ND) as [F1 F2]. destruct (cycle_fun_spec (rev c) NDr) as [R1 R2].
  rewrite rev_length in R1.
  apply inverse_by_spec; [exact HP|now rewrite !cycle_gen_length|].
  rewrite L. intros t Ht. rewrite (cycle_gen_nth n c t Ht).
  destruct (in_dec Nat.eq_dec t c) as [Hin|Hnin].
  - apply In_nth with (d := 0) in Hin as (i & Hi & <-). rewrite F1 by exact Hi.
    set (k := length c) in *.
    assert (forall j, j < k -> nth j c 0 = nth (k - 1 - j) (rev c) 0) as Hrev.
    { intros j Hj. rewrite rev_nth by (fold k; lia). fold k. f_equal. lia. }
    rewrite cycle_gen_nth by (apply Hlt; apply nth_In; apply Nat.mod_upper_bound; lia).
    destruct (Nat.eq_dec (i + 1) k) as [E|Hne].
    + rewrite E, Nat.mod_same by lia. rewrite (Hrev 0) by lia. rewrite R1 by lia.
      replace (k - 1 - 0 + 1) with k by lia. rewrite Nat.mod_same by lia.
      rewrite rev_nth by (fold k; lia). fold k. f_equal. lia.
    + rewrite (Nat.mod_small (i + 1) k) by lia. rewrite (Hrev (i + 1)) by lia. rewrite R1 by lia.
      rewrite Nat.mod_small by lia. rewrite rev_nth by (fold k; lia). fold k. f_equal. lia.
  - rewrite F2 by exact Hnin. rewrite cycle_gen_nth by exact Ht. apply R2. rewrite <- in_rev. exact Hnin.
Qed.

(* cycles of length 1 or 2 are involutions *)
Lemma cycle_gen_short_inv n c : NoDup c -> (forall x, In x c -> x < n) -> 1 <= length c <= 2 ->
  inverse_perm (cycle_gen n c) = cycle_gen n c.
Proof.
  intros ND Hlt Hk. rewrite cycle_gen_inverse by assumption.
  destruct c as [|a [|b [|e r]]]; cbn [length] in Hk; try lia; [reflexivity|].
  cbn [rev app]. apply nth_ext' with (d := 0); [now rewrite !cycle_gen_length|].
  intros t Ht. rewrite cycle_gen_length in Ht. rewrite !cycle_gen_nth by exact Ht.
  unfold cycle_fun. cbn [index_of length].
  destruct (Nat.eqb_spec a t) as [->|Na]; destruct (Nat.eqb_spec b t) as [->|Nb]; cbn; try reflexivity.
Qed.

(* ---------------------------------------------------------------------------------------------- *)
(** * itertools.combinations(range(n), k): the increasing k-subsets, C(n,k) of them *)
Fixpoint binom (n k : nat) : nat :=
  match n, k with
  | _, 0 => 1
  | 0, S _ => 0
  | S n', S k' => binom n' k' + binom n' k
  end.

Lemma binom_gt n : forall k, n < k -> binom n k = 0.
Proof.
  induction n as [|n IH]; intros k H; destruct k as [|k]; try lia; [reflexivity|].
  cbn [binom]. rewrite !IH by lia. reflexivity.
Qed.

(* C(n,k) k! (n-k)! = n! *)
Lemma binom_fact n : forall k, k <= n -> binom n k * fact k * fact (n - k) = fact n.
Proof.
  induction n as [|n IH]; intros k Hk.
  - assert (k = 0) as -> by lia. reflexivity.
  - destruct k as [|k]; [cbn [binom fact Nat.sub]; lia|].
    cbn [binom]. destruct (Nat.eq_dec k n) as [->|Hne].
    + rewrite (binom_gt n (S n)) by lia. specialize (IH n ltac:(lia)). rewrite Nat.sub_diag in *.
      cbn [fact] in *. nia.
    + pose proof (IH k ltac:(lia)) as I1. pose proof (IH (S k) ltac:(lia)) as I2.
      replace (S n - S k) with (n - k) by lia.
      replace (n - k) with (S (n - S k)) in * by lia.
      cbn [fact] in *. nia.
Qed.

Lemma combs_map {A B} (f : A -> B) (l : list A) : forall k, combs k (map f l) = map (map f) (combs k l).
Proof.
  induction l as [|x t IH]; intros k; destruct k as [|k]; try reflexivity.
  cbn [map combs]. rewrite !IH, map_app, !map_map. reflexivity.
Qed.

Lemma combs_length {A} (l : list A) : forall k, length (combs k l) = binom (length l) k.
Proof.
  induction l as [|x t IH]; intros k; destruct k as [|k]; try reflexivity.
  cbn [combs length binom]. rewrite app_length, map_length, !IH. reflexivity.
Qed.

Definition increasing (c : list nat) : Prop := forall i j, i < j < length c -> nth i c 0 < nth j c 0.

Lemma increasing_cons x c : increasing (x :: c) <-> (forall y, In y c -> x < y) /\ increasing c.
Proof.
  unfold increasing. split.
  - intros H. split.
    + intros y Hy. apply In_nth with (d := 0) in Hy as (j & Hj & <-). apply (H 0 (S j)). cbn [length]. lia.
    + intros i j Hij. apply (H (S i) (S j)). cbn [length]. lia.
  - intros [H1 H2] i j Hij. cbn [length] in Hij. destruct i as [|i]; destruct j as [|j]; try lia; cbn [nth].
    + apply H1. apply nth_In. lia.
    + apply H2. lia.
Qed.

Lemma in_combs_seq m : forall a k c,
  In c (combs k (seq a m)) <-> length c = k /\ increasing c /\ (forall x, In x c -> a <= x < a + m).
Proof.
  induction m as [|m IH]; intros a k c.
  - cbn [seq]. destruct k as [|k]; cbn [combs In].
    + split.
      * intros [<-|[]]. split; [reflexivity|]. split; [intros i j Hij; cbn in Hij; lia|intros x []].
      * intros (L & _ & _). left. destruct c; [reflexivity|discriminate].
    + split; [intros []|]. intros (L & _ & Hr). destruct c as [|x c]; [discriminate|].
      specialize (Hr x (or_introl eq_refl)). lia.
  - cbn [seq]. destruct k as [|k]; cbn [combs].
    + split.
      * intros [<-|[]]. split; [reflexivity|]. split; [intros i j Hij; cbn in Hij; lia|intros x []].
      * intros (L & _ & _). left. destruct c; [reflexivity|discriminate].
    + rewrite in_app_iff, in_map_iff. split.
      * intros [(c' & <- & Hc')|Hc].
        -- apply IH in Hc' as (L & Hinc & Hr). split; [cbn [length]; lia|]. split.
           ++ apply increasing_cons. split; [|exact Hinc]. intros y Hy. specialize (Hr y Hy). lia.
           ++ intros x [<-|Hx]; [lia|]. specialize (Hr x Hx). lia.
        -- apply IH in Hc as (L & Hinc & Hr). split; [exact L|]. split; [exact Hinc|].
           intros x Hx. specialize (Hr x Hx). lia.
      * intros (L & Hinc & Hr). destruct c as [|x c]; [discriminate|].
        apply increasing_cons in Hinc as [Hx Hinc]. cbn [length] in L.
        destruct (Nat.eq_dec x a) as [->|Hne].
        -- left. exists c. split; [reflexivity|]. apply IH. split; [lia|]. split; [exact Hinc|].
           intros y Hy. specialize (Hx y Hy). specialize (Hr y (or_intror Hy)). lia.
        -- right. apply IH. split; [cbn [length]; lia|]. split; [apply increasing_cons; split; assumption|].
           intros y [<-|Hy].
           ++ specialize (Hr x (or_introl eq_refl)). lia.
           ++ pose proof (Hr x (or_introl eq_refl)) as Hrx. specialize (Hx y Hy). specialize (Hr y (or_intror Hy)). lia.
Qed.

Lemma increasing_NoDup c : increasing c -> NoDup c.
Proof.
  intros H. apply (proj2 (NoDup_nth c 0)). intros i j Hi Hj E.
  destruct (Nat.lt_trichotomy i j) as [Hlt|[Heq|Hgt]]; [|exact Heq|].
  - specialize (H i j ltac:(lia)). lia.
  - specialize (H j i ltac:(lia)). lia.
Qed.
(* ---------------------------------------------------------------------------------------------- *)
(** * increasing_k_cycles(n, k), 1 <= k <= n: the C(n,k) cycles (c_1 ... c_k), 0 <= c_1 < ... < c_k < n *)
Definition ik_combs (n k : nat) : list (list nat) := combs k (seq 0 n).

Lemma in_ik_combs n k c : In c (ik_combs n k) <-> length c = k /\ increasing c /\ (forall x, In x c -> x < n).
Proof.
  unfold ik_combs. rewrite in_combs_seq. split; intros (H1 & H2 & H3).
  - split; [exact H1|]. split; [exact H2|]. intros y Hy. specialize (H3 y Hy). lia.
  - split; [exact H1|]. split; [exact H2|]. intros y Hy. specialize (H3 y Hy). lia.
Qed.

Lemma ik_combos n k : combs k (zrange 0 (Z.of_nat n)) = map of_nats (ik_combs n k).
Proof. rewrite zrange0_nat. unfold of_nats at 1. apply combs_map. Qed.

Lemma ik_cycle n k c : In c (ik_combs n k) ->
  zfrom_cycles (Z.of_nat n) [of_nats c] = Ok (of_nats (cycle_gen n c)) /\ PermN n (cycle_gen n c) /\
  NoDup c /\ (forall x, In x c -> x < n).
Proof.
  intros H. apply in_ik_combs in H as (L & Hinc & Hlt).
  assert (NoDup c) as ND by (apply increasing_NoDup; exact Hinc).
  destruct (zfrom_cycles_cycle n c ND Hlt) as [E P]. repeat split; try assumption; apply P.
Qed.

(* in an increasing cycle only the largest element is mapped to a smaller one *)
Lemma increasing_descent c t : increasing c -> cycle_fun c t < t -> t = nth (length c - 1) c 0.
Proof.
  intros Hinc Hlt. assert (NoDup c) as ND by (apply increasing_NoDup; exact Hinc).
  destruct (cycle_fun_spec c ND) as [F1 F2].
  destruct (in_dec Nat.eq_dec t c) as [Hin|Hnin]; [|rewrite F2 in Hlt by exact Hnin; lia].
  apply In_nth with (d := 0) in Hin as (i & Hi & <-). rewrite F1 in Hlt by exact Hi.
  destruct (Nat.eq_dec (i + 1) (length c)) as [E|Hne]; [f_equal; lia|].
  rewrite Nat.mod_small in Hlt by lia. specialize (Hinc i (i + 1) ltac:(lia)). lia.
Qed.

Definition ik_gens (n k : nat) : list (list nat) := map (cycle_gen n) (ik_combs n k).
Definition ik_names (n k : nat) : list string :=
  map (fun c => cat ["("; join "," (of_nats c); ")"]) (ik_combs n k).

Lemma seq_in_ik_combs n k : k <= n -> In (seq 0 k) (ik_combs n k).
Proof.
  intros H. apply in_ik_combs. split; [apply seq_length|]. split.
  - intros i j Hij. rewrite seq_length in Hij. rewrite !seq_nth by lia. lia.
  - intros x Hx. apply in_seq in Hx. lia.
Qed.

Theorem increasing_k_cycles_returns n k : 1 <= k <= n ->
  returns_full (increasing_k_cycles (Z.of_nat n) (Z.of_nat k)) n (ik_gens n k) (ik_names n k)
               (cat ["increasing_k_cycles-"; zs (Z.of_nat n); "-"; zs (Z.of_nat k)]).
Proof.
  intros Hk. unfold increasing_k_cycles. zguard. rewrite Nat2Z.id, ik_combos.
  rewrite (mapM_map_ok _ _ (fun c => of_nats (cycle_gen n c))).
  2:{ intros c Hc. apply (ik_cycle n k c Hc). }
  cbn [bind]. rewrite map_map. rewrite <- (map_map (cycle_gen n) of_nats).
  apply create_full.
  - pose proof (seq_in_ik_combs n k ltac:(lia)) as Hin.
    unfold ik_gens. destruct (ik_combs n k); [destruct Hin|discriminate].
  - lia.
  - apply Forall_forall. intros p Hp. apply in_map_iff in Hp as (c & <- & Hc). apply (ik_cycle n k c Hc).
  - unfold ik_gens, ik_names. now rewrite !map_length.
Qed.

Theorem increasing_k_cycles_documented n k : 1 <= k <= n ->
  exists d, increasing_k_cycles (Z.of_nat n) (Z.of_nat k) = Ok d /\
    p_gens d = map (cycle_gen n) (ik_combs n k) /\
    p_names d = map (fun c => cat ["("; join "," (of_nats c); ")"]) (ik_combs n k) /\
    p_name d = cat ["increasing_k_cycles-"; zs (Z.of_nat n); "-"; zs (Z.of_nat k)] /\
    p_central d = of_nats (seq 0 n) /\
    (* the index list: exactly the increasing k-subsets of range(n) *)
    (forall c, In c (ik_combs n k) <-> length c = k /\ increasing c /\ (forall x, In x c -> x < n)) /\
    length (p_gens d) = binom n k /\ length (p_names d) = binom n k /\
    binom n k * fact k * fact (n - k) = fact n /\
    Forall (PermN n) (p_gens d) /\
    (forall c, In c (ik_combs n k) ->
       (* cycle_gen n c is the cycle c: c_i -> c_{i+1 mod k}, other points fixed *)
       (forall i, i < k -> nth (nth i c 0) (cycle_gen n c) 0 = nth ((i + 1) mod k) c 0) /\
       (forall t, t < n -> ~ In t c -> nth t (cycle_gen n c) 0 = t) /\
       inverse_perm (cycle_gen n c) = cycle_gen n (rev c) /\
       forall (A : Type) (dflt : A) (x : list A) t, length x = n -> t < n ->
         nth t (apply_perm dflt (cycle_gen n c) x) dflt = nth (cycle_fun c t) x dflt) /\
    closed_flag (p_gens d) = (k <=? 2).
Proof.
  intros Hk. destruct (returns_full_fields _ _ _ _ _ (increasing_k_cycles_returns n k Hk)) as (d & E & G & N & M & C).
  exists d. rewrite G, N. unfold ik_gens, ik_names. rewrite !map_length.
  assert (length (ik_combs n k) = binom n k) as LB by (unfold ik_combs; now rewrite combs_length, seq_length).
  split; [exact E|]. split; [reflexivity|]. split; [reflexivity|]. split; [exact M|]. split; [exact C|].
  split; [apply in_ik_combs|]. split; [exact LB|]. split; [exact LB|]. split; [apply binom_fact; lia|].
  split; [|split].
  - apply Forall_forall. intros p Hp. apply in_map_iff in Hp as (c & <- & Hc). apply (ik_cycle n k c Hc).
  - intros c Hc. destruct (ik_cycle n k c Hc) as (_ & _ & ND & Hlt). apply in_ik_combs in Hc as (L & _ & _).
    destruct (cycle_fun_spec c ND) as [F1 F2]. rewrite L in F1. split; [|split; [|split]].
    + intros i Hi. rewrite cycle_gen_nth by (apply Hlt; apply nth_In; lia). apply F1. exact Hi.
    + intros t Ht Hn. rewrite cycle_gen_nth by exact Ht. apply F2. exact Hn.
    + apply cycle_gen_inverse; assumption.
    + intros A dflt x t Lx Ht. apply apply_cycle_gen. exact Ht.
  - destruct (Nat.leb_spec k 2) as [H2|H2].
    + apply closed_of_involutions. intros p Hp. apply in_map_iff in Hp as (c & <- & Hc).
      destruct (ik_cycle n k c Hc) as (_ & _ & ND & Hlt). apply in_ik_combs in Hc as (L & _ & _).
      apply cycle_gen_short_inv; try assumption. lia.
    + pose proof (seq_in_ik_combs n k ltac:(lia)) as Hin0.
      apply (not_closed _ (cycle_gen n (seq 0 k))); [apply in_map; exact Hin0|].
      intros Hin. apply in_map_iff in Hin as (c' & Ec & Hc').
      destruct (ik_cycle n k (seq 0 k) Hin0) as (_ & [HP L] & ND & Hlt).
      destruct (cycle_fun_spec (seq 0 k) ND) as [F1 _]. rewrite seq_length in F1.
      pose proof (F1 0 ltac:(lia)) as V0. pose proof (F1 1 ltac:(lia)) as V1.
      rewrite !Nat.mod_small, !seq_nth in V0, V1 by lia. cbn [Nat.add] in V0, V1.
      pose proof (inverse_spec (cycle_gen n (seq 0 k)) 0 HP ltac:(lia)) as S0.
      pose proof (inverse_spec (cycle_gen n (seq 0 k)) 1 HP ltac:(lia)) as S1.
      rewrite cycle_gen_nth in S0, S1 by lia. rewrite V0 in S0. rewrite V1 in S1.
      rewrite <- Ec in S0, S1. rewrite cycle_gen_nth in S0, S1 by lia.
      apply in_ik_combs in Hc' as (_ & Hinc & _).
      pose proof (increasing_descent c' 1 Hinc ltac:(lia)) as D1.
      pose proof (increasing_descent c' 2 Hinc ltac:(lia)) as D2. lia.
Qed.

Theorem increasing_k_cycles_range n k :
  ((exists d, increasing_k_cycles n k = Ok d) <-> (1 <= n /\ 1 <= k <= n)%Z) /\
  (~ (1 <= n /\ 1 <= k <= n)%Z -> increasing_k_cycles n k = Err AssertionErr).
Proof.
  apply range_from_cases.
  - intros [Hn Hk]. destruct (increasing_k_cycles_documented (Z.to_nat n) (Z.to_nat k)) as (d & E & _); try lia.
    exists d. rewrite !Z2Nat.id in E by lia. exact E.
  - intros HN. unfold increasing_k_cycles. destruct (Z.leb_spec 1 n); [|reflexivity].
    destruct (Z.leb_spec 1 k); [|reflexivity]. destruct (Z.leb_spec k n); [lia|reflexivity].
  - lia.
Qed.

Example increasing_k_cycles_4_3 :
  increasing_k_cycles 4 3 = Ok {| p_gens := [[1; 2; 0; 3]; [1; 3; 2; 0]; [2; 1; 3; 0]; [0; 2; 3; 1]];
       p_names := ["(0,1,2)"; "(0,1,3)"; "(0,2,3)"; "(1,2,3)"]%string;
       p_name := "increasing_k_cycles-4-3"%string; p_central := [0; 1; 2; 3]%Z |}
  /\ ik_combs 4 3 = [[0; 1; 2]; [0; 1; 3]; [0; 2; 3]; [1; 2; 3]]
  /\ map (cycle_gen 4) (ik_combs 4 3) = [[1; 2; 0; 3]; [1; 3; 2; 0]; [2; 1; 3; 0]; [0; 2; 3; 1]]
  /\ binom 4 3 = 4.
Proof. vm_compute. repeat split. Qed.
(* ---------------------------------------------------------------------------------------------- *)
(** * Products of m disjoint adjacent transpositions (a a+1)(a+2 a+3)...(a+2m-2 a+2m-1) *)
Definition disj_fun (a m t : nat) : nat :=
  if t <? a then t else if t <? a + 2 * m then (if (t - a) mod 2 =? 0 then t + 1 else t - 1) else t.
Definition disj_gen (n a m : nat) : list nat := map (disj_fun a m) (seq 0 n).
(* the documented action: the entries of x are exchanged pairwise inside x[a .. a+2m-1] *)
Definition swap_pairs {A} (d : A) (a m : nat) (x : list A) : list A :=
  map (fun t => nth (disj_fun a m t) x d) (seq 0 (length x)).

Lemma disj_gen_length n a m : length (disj_gen n a m) = n.
Proof. unfold disj_gen. now rewrite map_length, seq_length. Qed.

Lemma disj_gen_nth n a m t : t < n -> nth t (disj_gen n a m) 0 = disj_fun a m t.
Proof. intros H. unfold disj_gen. now rewrite nth_map_seq. Qed.

Lemma disj_fun_inv a m t : disj_fun a m (disj_fun a m t) = t /\ (forall n, a + 2 * m <= n -> t < n -> disj_fun a m t < n).
Proof.
  unfold disj_fun.
  destruct (Nat.ltb_spec t a) as [H1|H1].
  { split; [|intros; lia]. destruct (Nat.ltb_spec t a); lia. }
  destruct (Nat.ltb_spec t (a + 2 * m)) as [H2|H2].
  2:{ split; [|intros; lia]. destruct (Nat.ltb_spec t a); [lia|]. destruct (Nat.ltb_spec t (a + 2 * m)); lia. }
  destruct (Nat.eqb_spec ((t - a) mod 2) 0) as [H3|H3].
  - split; [|intros; lia]. destruct (Nat.ltb_spec (t + 1) a); [lia|].
    destruct (Nat.ltb_spec (t + 1) (a + 2 * m)); [|lia].
    destruct (Nat.eqb_spec ((t + 1 - a) mod 2) 0); lia.
  - split; [|intros; lia]. destruct (Nat.ltb_spec (t - 1) a); [lia|].
    destruct (Nat.ltb_spec (t - 1) (a + 2 * m)); [|lia].
    destruct (Nat.eqb_spec ((t - 1 - a) mod 2) 0); lia.
Qed.

Lemma disj_gen_inv n a m : a + 2 * m <= n ->
  PermN n (disj_gen n a m) /\ inverse_perm (disj_gen n a m) = disj_gen n a m.
Proof.
  intros H. apply involution_PermN; [apply disj_gen_length|].
  intros t Ht. destruct (disj_fun_inv a m t) as [I B]. rewrite disj_gen_nth by exact Ht.
  split; [apply B; assumption|]. rewrite disj_gen_nth by (apply B; assumption). exact I.
Qed.

Lemma apply_disj_gen {A} (d : A) n a m (x : list A) : length x = n ->
  apply_perm d (disj_gen n a m) x = swap_pairs d a m x.
Proof. intros L. unfold apply_perm, disj_gen, swap_pairs. rewrite map_map, L. reflexivity. Qed.

(* the cycles [a+2i, a+2i+1], i < m *)
Definition disj_cycles (a m : nat) : list (list nat) := map (fun i => [a + 2 * i; a + 2 * i + 1]) (seq 0 m).

Lemma disj_cycles_concat a m : concat (disj_cycles a m) = seq a (2 * m).
Proof.
  unfold disj_cycles. induction m as [|m IH]; [reflexivity|].
  rewrite seq_S, map_app, concat_app, IH. cbn [map concat app Nat.add].
  replace (2 * S m) with (2 * m + 2) by lia. rewrite seq_app. cbn [seq]. repeat (f_equal; try lia).
Qed.

Lemma zfrom_disj n a m : a + 2 * m <= n ->
  zfrom_cycles (Z.of_nat n) (map of_nats (disj_cycles a m)) = Ok (of_nats (disj_gen n a m)).
Proof.
  intros H. apply zfrom_cycles_nat.
  - rewrite disj_cycles_concat. apply seq_NoDup.
  - rewrite disj_cycles_concat. intros x Hx. apply in_seq in Hx. lia.
  - apply disj_gen_length.
  - intros c i Hc Hi. unfold disj_cycles in Hc. apply in_map_iff in Hc as (j & <- & Hj). apply in_seq in Hj.
    cbn [length] in Hi |- *. destruct i as [|[|i]]; [| |lia]; cbn [nth Nat.add Nat.modulo Nat.divmod fst snd Nat.sub].
    + rewrite disj_gen_nth by lia. unfold disj_fun. destruct (Nat.ltb_spec (a + 2 * j) a); [lia|].
      destruct (Nat.ltb_spec (a + 2 * j) (a + 2 * m)); [|lia].
      destruct (Nat.eqb_spec ((a + 2 * j - a) mod 2) 0); lia.
    + rewrite disj_gen_nth by lia. unfold disj_fun. destruct (Nat.ltb_spec (a + 2 * j + 1) a); [lia|].
      destruct (Nat.ltb_spec (a + 2 * j + 1) (a + 2 * m)); [|lia].
      destruct (Nat.eqb_spec ((a + 2 * j + 1 - a) mod 2) 0); lia.
  - intros x Hx Hn. rewrite disj_cycles_concat in Hn. rewrite disj_gen_nth by exact Hx. unfold disj_fun.
    destruct (Nat.ltb_spec x a); [reflexivity|]. destruct (Nat.ltb_spec x (a + 2 * m)); [|reflexivity].
    exfalso. apply Hn. apply in_seq. lia.
Qed.
(* ---------------------------------------------------------------------------------------------- *)
(** * rapaport_m2(n), n >= 2: (0 1), (0 1)(2 3)(4 5)..., (1 2)(3 4)(5 6)... *)
Lemma disj_gen_0 n a : disj_gen n a 0 = seq 0 n.
Proof.
  unfold disj_gen. rewrite <- (map_id (seq 0 n)) at 2. apply map_ext. intros t. unfold disj_fun.
  destruct (Nat.ltb_spec t a); [reflexivity|]. destruct (Nat.ltb_spec t (a + 2 * 0)); [lia|reflexivity].
Qed.

Lemma zswap_disj n a m : a + 2 * m + 2 <= n ->
  zswap (of_nats (disj_gen n a m)) (Z.of_nat a + 2 * Z.of_nat m) (Z.of_nat a + 2 * Z.of_nat m + 1)
  = of_nats (disj_gen n a (S m)).
Proof.
  intros H. unfold zswap, zset, znth.
  replace (Z.to_nat (Z.of_nat a + 2 * Z.of_nat m)) with (a + 2 * m) by lia.
  replace (Z.to_nat (Z.of_nat a + 2 * Z.of_nat m + 1)) with (a + 2 * m + 1) by lia.
  apply nth_ext' with (d := 0%Z); [now rewrite !upd_length, !of_nats_length, !disj_gen_length|].
  intros t Ht. rewrite !upd_length, of_nats_length, disj_gen_length in Ht.
  rewrite !nth_of_nats. rewrite (disj_gen_nth n a (S m)) by exact Ht.
  destruct (Nat.eq_dec t (a + 2 * m + 1)) as [->|N1].
  { rewrite nth_upd_same by (rewrite upd_length, of_nats_length, disj_gen_length; lia).
    rewrite disj_gen_nth by lia. f_equal. unfold disj_fun.
    destruct (Nat.ltb_spec (a + 2 * m) a); [lia|]. destruct (Nat.ltb_spec (a + 2 * m) (a + 2 * m)); [lia|].
    destruct (Nat.ltb_spec (a + 2 * m + 1) a); [lia|]. destruct (Nat.ltb_spec (a + 2 * m + 1) (a + 2 * S m)); [|lia].
    destruct (Nat.eqb_spec ((a + 2 * m + 1 - a) mod 2) 0); lia. }
  rewrite nth_upd_other by lia.
  destruct (Nat.eq_dec t (a + 2 * m)) as [->|N2].
  { rewrite nth_upd_same by (rewrite of_nats_length, disj_gen_length; lia).
    rewrite disj_gen_nth by lia. f_equal. unfold disj_fun.
    destruct (Nat.ltb_spec (a + 2 * m + 1) a); [lia|]. destruct (Nat.ltb_spec (a + 2 * m + 1) (a + 2 * m)); [lia|].
    destruct (Nat.ltb_spec (a + 2 * m) a); [lia|]. destruct (Nat.ltb_spec (a + 2 * m) (a + 2 * S m)); [|lia].
    destruct (Nat.eqb_spec ((a + 2 * m - a) mod 2) 0); lia. }
  rewrite nth_upd_other by lia. rewrite nth_of_nats, disj_gen_nth by exact Ht. f_equal. unfold disj_fun.
  destruct (Nat.ltb_spec t a); [reflexivity|].
  destruct (Nat.ltb_spec t (a + 2 * m)); destruct (Nat.ltb_spec t (a + 2 * S m)); try lia; reflexivity.
Qed.

Lemma zswaps_fold n a : forall m, a + 2 * m <= n ->
  fold_left (fun g i => zswap g i (i + 1)%Z) (map (fun i => (Z.of_nat a + 2 * Z.of_nat i)%Z) (seq 0 m))
            (zrange 0 (Z.of_nat n))
  = of_nats (disj_gen n a m).
Proof.
  induction m as [|m IH]; intros H.
  - cbn [seq map fold_left]. now rewrite zrange0_nat, disj_gen_0.
  - rewrite seq_S, map_app, fold_left_app, IH by lia. cbn [map fold_left Nat.add]. apply zswap_disj. lia.
Qed.

Lemma zrange2_nat (a : nat) (b : Z) m : m = Z.to_nat ((b - Z.of_nat a + 1) / 2) ->
  zrange2 (Z.of_nat a) b = map (fun i => (Z.of_nat a + 2 * Z.of_nat i)%Z) (seq 0 m).
Proof. intros ->. reflexivity. Qed.

Definition m2_gens (n : nat) : list (list nat) := [transp n 0 1; disj_gen n 0 (n / 2); disj_gen n 1 ((n - 1) / 2)].

Theorem rapaport_m2_returns n : 2 <= n ->
  returns_full (rapaport_m2 (Z.of_nat n)) n (m2_gens n) ["(0,1)"; "EvenDisjTrans"; "OddDisjTrans"]%string
               (cat ["rapaport_m2-"; zs (Z.of_nat n)]).
Proof.
  intros Hn. unfold rapaport_m2.
  pose proof (ztransposition_nat n 0 1 ltac:(lia) ltac:(lia) ltac:(lia)) as E. cbn [Z.of_nat Pos.of_succ_nat] in E.
  rewrite E. cbn [bind].
  assert (zrange2 0 (Z.of_nat n - 1) = map (fun i => (Z.of_nat 0 + 2 * Z.of_nat i)%Z) (seq 0 (n / 2))) as E2
    by (apply (zrange2_nat 0); lia).
  assert (zrange2 1 (Z.of_nat n - 1) = map (fun i => (Z.of_nat 1 + 2 * Z.of_nat i)%Z) (seq 0 ((n - 1) / 2))) as E3
    by (apply (zrange2_nat 1); lia).
  rewrite E2, E3.
  rewrite (zswaps_fold n 0 (n / 2)) by lia. rewrite (zswaps_fold n 1 ((n - 1) / 2)) by lia.
  change [of_nats (transp n 0 1); of_nats (disj_gen n 0 (n / 2)); of_nats (disj_gen n 1 ((n - 1) / 2))]
    with (map of_nats (m2_gens n)).
  apply create_full; [discriminate|lia| |reflexivity].
  repeat (apply Forall_cons || apply Forall_nil); [apply transp_PermN; lia|apply disj_gen_inv; lia|apply disj_gen_inv; lia].
Qed.

Theorem rapaport_m2_documented n : 2 <= n ->
  exists d, rapaport_m2 (Z.of_nat n) = Ok d /\
    p_gens d = [transp n 0 1; disj_gen n 0 (n / 2); disj_gen n 1 ((n - 1) / 2)] /\
    p_names d = ["(0,1)"; "EvenDisjTrans"; "OddDisjTrans"]%string /\
    p_name d = cat ["rapaport_m2-"; zs (Z.of_nat n)] /\ p_central d = of_nats (seq 0 n) /\
    Forall (PermN n) (p_gens d) /\
    (forall (A : Type) (dflt : A) (x : list A), length x = n ->
       map (fun p => apply_perm dflt p x) (p_gens d)
       = [swap_at dflt x 0 1; swap_pairs dflt 0 (n / 2) x; swap_pairs dflt 1 ((n - 1) / 2) x]) /\
    closed_flag (p_gens d) = true.
Proof.
  intros Hn. destruct (returns_full_fields _ _ _ _ _ (rapaport_m2_returns n Hn)) as (d & E & G & N & M & C).
  exists d. rewrite G. unfold m2_gens. repeat split; try assumption.
  - repeat (apply Forall_cons || apply Forall_nil); [apply transp_PermN; lia|apply disj_gen_inv; lia|apply disj_gen_inv; lia].
  - intros A dflt x L. cbn [map]. rewrite (apply_transp dflt n), !(apply_disj_gen dflt n) by lia. reflexivity.
  - apply closed_of_involutions. intros p [<-|[<-|[<-|[]]]]; [apply transp_inv; lia|apply disj_gen_inv; lia|apply disj_gen_inv; lia].
Qed.

Theorem rapaport_m2_range n :
  ((exists d, rapaport_m2 n = Ok d) <-> (2 <= n)%Z) /\ (~ (2 <= n)%Z -> rapaport_m2 n = Err AssertionErr).
Proof.
  apply range_from_cases.
  - intros Hn. destruct (rapaport_m2_documented (Z.to_nat n)) as (d & E & _); try lia.
    exists d. rewrite !Z2Nat.id in E by lia. exact E.
  - intros HN. unfold rapaport_m2, ztransposition. change (0 <? 0)%Z with false. change (1 <? 0)%Z with false. cbn [orb].
    change (Z.to_nat 0) with 0. change (Z.to_nat 1) with 1. unfold transposition. destruct (Nat.ltb_spec 1 (Z.to_nat n)); [lia|]. rewrite andb_false_r. reflexivity.
  - lia.
Qed.

Example rapaport_m2_5 :
  rapaport_m2 5 = Ok {| p_gens := [[1; 0; 2; 3; 4]; [1; 0; 3; 2; 4]; [0; 2; 1; 4; 3]];
       p_names := ["(0,1)"; "EvenDisjTrans"; "OddDisjTrans"]%string;
       p_name := "rapaport_m2-5"%string; p_central := [0; 1; 2; 3; 4]%Z |}
  /\ m2_gens 5 = [[1; 0; 2; 3; 4]; [1; 0; 3; 2; 4]; [0; 2; 1; 4; 3]]
  /\ swap_pairs "" 1 2 ["a"; "b"; "c"; "d"; "e"]%string = ["a"; "c"; "b"; "e"; "d"]%string.
Proof. vm_compute. repeat split. Qed.
(* ---------------------------------------------------------------------------------------------- *)
(** * rapaport_m1(n), n >= 2: (0 1), (0 1)(2 3), ... and (1 2), (1 2)(3 4), ...: n-1 generators *)
Lemma m1_cycles0 n np : 2 * np <= n ->
  map (fun idx => [2 * idx; 2 * idx + 1]%Z) (filter (fun idx => (2 * idx + 1 <? Z.of_nat n)%Z) (zrange 0 (Z.of_nat np)))
  = map of_nats (disj_cycles 0 np).
Proof.
  intros H. rewrite zrange0_nat. rewrite filter_all_true.
  2:{ intros z Hz. unfold of_nats in Hz. apply in_map_iff in Hz as (i & <- & Hi). apply in_seq in Hi.
      apply Z.ltb_lt. lia. }
  unfold of_nats at 1, disj_cycles. rewrite !map_map. apply map_ext. intros i. cbn [of_nats map].
  repeat (f_equal; try lia).
Qed.

Lemma m1_cycles1 n np : 1 + 2 * np <= n ->
  map (fun idx => [1 + 2 * idx; 1 + 2 * idx + 1]%Z)
      (filter (fun idx => (1 + 2 * idx + 1 <? Z.of_nat n)%Z) (zrange 0 (Z.of_nat np)))
  = map of_nats (disj_cycles 1 np).
Proof.
  intros H. rewrite zrange0_nat. rewrite filter_all_true.
  2:{ intros z Hz. unfold of_nats in Hz. apply in_map_iff in Hz as (i & <- & Hi). apply in_seq in Hi.
      apply Z.ltb_lt. lia. }
  unfold of_nats at 1, disj_cycles. rewrite !map_map. apply map_ext. intros i. cbn [of_nats map].
  repeat (f_equal; try lia).
Qed.

Definition m1_gens (n : nat) : list (list nat) :=
  map (disj_gen n 0) (seq 1 (n / 2)) ++ map (disj_gen n 1) (seq 1 ((n - 1) / 2)).
Definition m1_names (n : nat) : list string :=
  map (fun np => cat ["M1_0_"; zs (Z.of_nat np)]) (seq 1 (n / 2))
  ++ map (fun np => cat ["M1_1_"; zs (Z.of_nat np)]) (seq 1 ((n - 1) / 2)).

Lemma m1_gens_PermN n : Forall (fun p => PermN n p /\ inverse_perm p = p) (m1_gens n).
Proof.
  unfold m1_gens. apply Forall_app. split; apply Forall_forall; intros p Hp;
    apply in_map_iff in Hp as (np & <- & Hnp); apply in_seq in Hnp; apply disj_gen_inv; lia.
Qed.

Theorem rapaport_m1_returns n : 2 <= n ->
  returns_full (rapaport_m1 (Z.of_nat n)) n (m1_gens n) (m1_names n) (cat ["rapaport_m1-"; zs (Z.of_nat n)]).
Proof.
  intros Hn. unfold rapaport_m1.
  rewrite (zrange_nat' 1 (Z.of_nat n / 2 + 1) 1 (n / 2 + 1)) by lia.
  rewrite (zrange_nat' 1 ((Z.of_nat n - 1) / 2 + 1) 1 ((n - 1) / 2 + 1)) by lia.
  replace (n / 2 + 1 - 1) with (n / 2) by lia. replace ((n - 1) / 2 + 1 - 1) with ((n - 1) / 2) by lia.
  change (of_nats (seq 1 (n / 2))) with (map Z.of_nat (seq 1 (n / 2))).
  change (of_nats (seq 1 ((n - 1) / 2))) with (map Z.of_nat (seq 1 ((n - 1) / 2))).
  rewrite (mapM_map_ok Z.of_nat _ (fun np => of_nats (disj_gen n 0 np))).
  2:{ intros np Hnp. apply in_seq in Hnp. rewrite m1_cycles0 by lia. apply zfrom_disj. lia. }
  cbn [bind].
  rewrite (mapM_map_ok Z.of_nat _ (fun np => of_nats (disj_gen n 1 np))).
  2:{ intros np Hnp. apply in_seq in Hnp. rewrite m1_cycles1 by lia. apply zfrom_disj. lia. }
  cbn [bind].
  replace (map (fun np => of_nats (disj_gen n 0 np)) (seq 1 (n / 2)) ++
           map (fun np => of_nats (disj_gen n 1 np)) (seq 1 ((n - 1) / 2))) with (map of_nats (m1_gens n))
    by (unfold m1_gens; now rewrite map_app, !map_map).
  replace (map (fun np => cat ["M1_0_"; zs np]) (map Z.of_nat (seq 1 (n / 2))) ++
           map (fun np => cat ["M1_1_"; zs np]) (map Z.of_nat (seq 1 ((n - 1) / 2)))) with (m1_names n)
    by (unfold m1_names; now rewrite !map_map).
  apply create_full.
  - unfold m1_gens. replace (n / 2) with (S (n / 2 - 1)) by lia. discriminate.
  - lia.
  - eapply Forall_impl; [|apply m1_gens_PermN]. intros p [H _]. exact H.
  - unfold m1_gens, m1_names. now rewrite !app_length, !map_length.
Qed.

Theorem rapaport_m1_documented n : 2 <= n ->
  exists d, rapaport_m1 (Z.of_nat n) = Ok d /\
    p_gens d = map (disj_gen n 0) (seq 1 (n / 2)) ++ map (disj_gen n 1) (seq 1 ((n - 1) / 2)) /\
    p_names d = map (fun np => cat ["M1_0_"; zs (Z.of_nat np)]) (seq 1 (n / 2))
                ++ map (fun np => cat ["M1_1_"; zs (Z.of_nat np)]) (seq 1 ((n - 1) / 2)) /\
    p_name d = cat ["rapaport_m1-"; zs (Z.of_nat n)] /\ p_central d = of_nats (seq 0 n) /\
    length (p_gens d) = n - 1 /\ length (p_names d) = n - 1 /\ Forall (PermN n) (p_gens d) /\
    (* M1_0_np exchanges the pairs (0 1), ..., (2np-2 2np-1); M1_1_np the pairs (1 2), ..., (2np-1 2np) *)
    (forall (A : Type) (dflt : A) (x : list A) np, length x = n ->
       (1 <= np <= n / 2 -> apply_perm dflt (nth (np - 1) (p_gens d) []) x = swap_pairs dflt 0 np x) /\
       (1 <= np <= (n - 1) / 2 ->
          apply_perm dflt (nth (n / 2 + (np - 1)) (p_gens d) []) x = swap_pairs dflt 1 np x)) /\
    closed_flag (p_gens d) = true.
Proof.
  intros Hn. destruct (returns_full_fields _ _ _ _ _ (rapaport_m1_returns n Hn)) as (d & E & G & N & M & C).
  exists d. rewrite G, N. fold (m1_gens n). fold (m1_names n).
  split; [exact E|]. split; [reflexivity|]. split; [reflexivity|]. split; [exact M|]. split; [exact C|].
  split; [unfold m1_gens; rewrite app_length, !map_length, !seq_length; lia|].
  split; [unfold m1_names; rewrite app_length, !map_length, !seq_length; lia|].
  split; [eapply Forall_impl; [|apply m1_gens_PermN]; intros p [H _]; exact H|]. split.
  - intros A dflt x np L. unfold m1_gens. split; intros Hnp.
    + rewrite app_nth1 by (rewrite map_length, seq_length; lia). rewrite nth_map_seq by lia.
      replace (1 + (np - 1)) with np by lia. apply apply_disj_gen. exact L.
    + rewrite app_nth2 by (rewrite map_length, seq_length; lia). rewrite map_length, seq_length.
      replace (n / 2 + (np - 1) - n / 2) with (np - 1) by lia. rewrite nth_map_seq by lia.
      replace (1 + (np - 1)) with np by lia. apply apply_disj_gen. exact L.
  - apply closed_of_involutions. intros p Hp. pose proof (m1_gens_PermN n) as HF. rewrite Forall_forall in HF.
    apply (HF p Hp).
Qed.

Theorem rapaport_m1_range n :
  ((exists d, rapaport_m1 n = Ok d) <-> (2 <= n)%Z) /\ (~ (2 <= n)%Z -> rapaport_m1 n = Err IndexErr).
Proof.
  apply range_from_cases.
  - intros Hn. destruct (rapaport_m1_documented (Z.to_nat n)) as (d & E & _); try lia.
    exists d. rewrite !Z2Nat.id in E by lia. exact E.
  - intros HN. unfold rapaport_m1. rewrite !zrange_empty by lia. reflexivity.
  - lia.
Qed.

Example rapaport_m1_5 :
  rapaport_m1 5 = Ok {| p_gens := [[1; 0; 2; 3; 4]; [1; 0; 3; 2; 4]; [0; 2; 1; 3; 4]; [0; 2; 1; 4; 3]];
       p_names := ["M1_0_1"; "M1_0_2"; "M1_1_1"; "M1_1_2"]%string;
       p_name := "rapaport_m1-5"%string; p_central := [0; 1; 2; 3; 4]%Z |}
  /\ m1_gens 5 = [[1; 0; 2; 3; 4]; [1; 0; 3; 2; 4]; [0; 2; 1; 3; 4]; [0; 2; 1; 4; 3]].
Proof. vm_compute. repeat split. Qed.
(* ---------------------------------------------------------------------------------------------- *)
(** * koltsov3(n, perm_type, k, d): I = (0 1)(2 3)..., K = (1 2)(3 4)..., and a short involution S *)
Lemma gen_rev_segment_length n i j : i <= j -> j < n -> length (gen_rev_segment n i j) = n.
Proof. intros H1 H2. unfold gen_rev_segment. rewrite !app_length, rev_length, !seq_length. lia. Qed.

Lemma gen_rev_segment_nth n i j t : i <= j -> j < n -> t < n ->
  nth t (gen_rev_segment n i j) 0 = if t <? i then t else if t <=? j then i + j - t else t.
Proof.
  intros H1 H2 Ht. unfold gen_rev_segment. destruct (Nat.ltb_spec t i).
  { rewrite app_nth1 by (rewrite seq_length; lia). rewrite seq_nth by lia. reflexivity. }
  rewrite app_nth2 by (rewrite seq_length; lia). rewrite seq_length.
  destruct (Nat.leb_spec t j).
  { rewrite app_nth1 by (rewrite rev_length, seq_length; lia). rewrite nth_rev_seq by lia. lia. }
  rewrite app_nth2 by (rewrite rev_length, seq_length; lia). rewrite rev_length, seq_length.
  rewrite seq_nth by lia. lia.
Qed.

Lemma gen_rev_segment_inv n i j : i <= j -> j < n -> inverse_perm (gen_rev_segment n i j) = gen_rev_segment n i j.
Proof.
  intros H1 H2. apply involution_PermN with (n := n); [apply gen_rev_segment_length; assumption|].
  intros t Ht. rewrite (gen_rev_segment_nth n i j t) by assumption.
  destruct (Nat.ltb_spec t i); [|destruct (Nat.leb_spec t j)]; (split; [lia|]); rewrite gen_rev_segment_nth by lia.
  - destruct (Nat.ltb_spec t i); lia.
  - destruct (Nat.ltb_spec (i + j - t) i); [lia|]. destruct (Nat.leb_spec (i + j - t) j); lia.
  - destruct (Nat.ltb_spec t i); [lia|]. destruct (Nat.leb_spec t j); lia.
Qed.

(* I and K *)
Lemma koltsov_IK n (a : nat) : a <= 1 -> a <= n ->
  zfrom_cycles (Z.of_nat n) (map (fun i => [i; i + 1]%Z) (zrange2 (Z.of_nat a) (Z.of_nat n - 1)))
  = Ok (of_nats (disj_gen n a ((n - a) / 2))).
Proof.
  intros Ha Hn. rewrite (zrange2_nat a (Z.of_nat n - 1) ((n - a) / 2)) by lia.
  replace (map (fun i => [i; i + 1]%Z) (map (fun i => (Z.of_nat a + 2 * Z.of_nat i)%Z) (seq 0 ((n - a) / 2))))
    with (map of_nats (disj_cycles a ((n - a) / 2))).
  2:{ unfold disj_cycles. rewrite !map_map. apply map_ext. intros i. cbn [of_nats map]. repeat (f_equal; try lia). }
  apply zfrom_disj. lia.
Qed.

(* S of type 1: the transposition (k j) (the identity if j = k) *)
Lemma koltsov_S1 n k j : k < n -> j < n ->
  zfrom_cycles (Z.of_nat n) [[Z.of_nat k; Z.of_nat j]] = Ok (of_nats (transp n k j)).
Proof.
  intros Hk Hj. destruct (Nat.eq_dec k j) as [<-|Hne].
  - unfold zfrom_cycles, from_cycles. rewrite Nat2Z.id. cbn [map fold_left]. unfold cycle_step. cbn [length seq fold_left].
    replace (Z.of_nat k - 0)%Z with (Z.of_nat k) by lia.
    assert (cyc_step n [Z.of_nat k; Z.of_nat k] (Ok (seq 0 n)) 0 = Ok (upd (seq 0 n) k k)) as E1.
    { rewrite cyc_step_ok; cbn [nth length Nat.add Nat.modulo Nat.divmod fst snd Nat.sub]; rewrite ?Nat2Z.id;
        [reflexivity|lia|apply seq_nth; exact Hk]. }
    rewrite E1.
    assert (cyc_step n [Z.of_nat k; Z.of_nat k] (Ok (upd (seq 0 n) k k)) 1 = Ok (upd (upd (seq 0 n) k k) k k)) as E2.
    { rewrite cyc_step_ok; cbn [nth length Nat.add Nat.modulo Nat.divmod fst snd Nat.sub]; rewrite ?Nat2Z.id;
        [reflexivity|lia|apply nth_upd_same; rewrite seq_length; exact Hk]. }
    rewrite E2. reflexivity.
  - apply (zfrom_cycles_nat n [[k; j]]).
    + cbn. repeat constructor; cbn; intuition lia.
    + cbn. intros x Hx. intuition lia.
    + apply transp_length.
    + intros c i [<-|[]] Hi. cbn [length] in Hi |- *.
      destruct i as [|[|i]]; [| |lia]; cbn [nth Nat.add Nat.modulo Nat.divmod fst snd Nat.sub];
        rewrite transp_nth by lia.
      * destruct (Nat.eqb_spec k j); [lia|]. now rewrite Nat.eqb_refl.
      * now rewrite Nat.eqb_refl.
    + intros x Hx Hn. cbn in Hn. rewrite transp_nth by lia.
      destruct (Nat.eqb_spec x j); [lia|]. destruct (Nat.eqb_spec x k); lia.
Qed.

(* S of type 2: (k k+3)(k+1 k+2), the reversal of x[k..k+3] *)
Lemma koltsov_S2 n k : k + 3 < n ->
  zfrom_cycles (Z.of_nat n) [[Z.of_nat k; (Z.of_nat k + 3)%Z]; [(Z.of_nat k + 1)%Z; (Z.of_nat k + 2)%Z]]
  = Ok (of_nats (gen_rev_segment n k (k + 3))).
Proof.
  intros Hk.
  replace [[Z.of_nat k; (Z.of_nat k + 3)%Z]; [(Z.of_nat k + 1)%Z; (Z.of_nat k + 2)%Z]]
    with (map of_nats [[k; k + 3]; [k + 1; k + 2]]) by (cbn [map of_nats]; repeat (f_equal; try lia)).
  apply zfrom_cycles_nat.
  - cbn. repeat constructor; cbn; intuition lia.
  - cbn. intros x Hx. intuition lia.
  - apply gen_rev_segment_length; lia.
  - intros c i [<-|[<-|[]]] Hi; cbn [length] in Hi |- *;
      (destruct i as [|[|i]]; [| |lia]); cbn [nth Nat.add Nat.modulo Nat.divmod fst snd Nat.sub];
      rewrite gen_rev_segment_nth by lia.
    + destruct (Nat.ltb_spec k k); [lia|]. destruct (Nat.leb_spec k (k + 3)); lia.
    + destruct (Nat.ltb_spec (k + 3) k); [lia|]. destruct (Nat.leb_spec (k + 3) (k + 3)); lia.
    + destruct (Nat.ltb_spec (k + 1) k); [lia|]. destruct (Nat.leb_spec (k + 1) (k + 3)); lia.
    + destruct (Nat.ltb_spec (k + 2) k); [lia|]. destruct (Nat.leb_spec (k + 2) (k + 3)); lia.
  - intros x Hx Hn. cbn in Hn. rewrite gen_rev_segment_nth by lia.
    destruct (Nat.ltb_spec x k); [reflexivity|]. destruct (Nat.leb_spec x (k + 3)); lia.
Qed.
Definition koltsov_name (n k : nat) : string := cat ["koltsov3-n"; zs (Z.of_nat n); "-k"; zs (Z.of_nat k)].

Lemma koltsov_I n : zfrom_cycles (Z.of_nat n) (map (fun i => [i; i + 1]%Z) (zrange2 0 (Z.of_nat n - 1)))
  = Ok (of_nats (disj_gen n 0 (n / 2))).
Proof. pose proof (koltsov_IK n 0 ltac:(lia) ltac:(lia)) as E. rewrite Nat.sub_0_r in E. exact E. Qed.

Lemma koltsov_K n : 1 <= n -> zfrom_cycles (Z.of_nat n) (map (fun i => [i; i + 1]%Z) (zrange2 1 (Z.of_nat n - 1)))
  = Ok (of_nats (disj_gen n 1 ((n - 1) / 2))).
Proof. intros H. exact (koltsov_IK n 1 ltac:(lia) ltac:(lia)). Qed.

(* type 1: S = (k j), j = k + d *)
Theorem koltsov3_type1_returns n k j : k < n -> j < n ->
  returns_full (koltsov3 (Z.of_nat n) 1 (Z.of_nat k) (Z.of_nat j - Z.of_nat k)) n
    [disj_gen n 0 (n / 2); disj_gen n 1 ((n - 1) / 2); transp n k j] ["I"; "K"; "S"]%string (koltsov_name n k).
Proof.
  intros Hk Hj. unfold koltsov3. destruct (Z.ltb_spec (Z.of_nat k) (Z.of_nat n)) as [_|Hc]; [|lia].
  change (1 =? 1)%Z with true. cbn [negb orb]. rewrite koltsov_I, koltsov_K by lia. cbn [bind].
  replace (Z.of_nat k + (Z.of_nat j - Z.of_nat k))%Z with (Z.of_nat j) by lia.
  destruct (Z.ltb_spec (Z.of_nat j) (Z.of_nat n)) as [_|Hc]; [|lia]. cbn [negb].
  rewrite koltsov_S1 by assumption. cbn [bind].
  change [of_nats (disj_gen n 0 (n / 2)); of_nats (disj_gen n 1 ((n - 1) / 2)); of_nats (transp n k j)]
    with (map of_nats [disj_gen n 0 (n / 2); disj_gen n 1 ((n - 1) / 2); transp n k j]).
  apply create_full; [discriminate|lia| |reflexivity].
  repeat (apply Forall_cons || apply Forall_nil); [apply disj_gen_inv; lia|apply disj_gen_inv; lia|apply transp_PermN; lia].
Qed.

(* type 2: S = (k k+3)(k+1 k+2); d is ignored *)
Theorem koltsov3_type2_returns n k d : k + 3 < n ->
  returns_full (koltsov3 (Z.of_nat n) 2 (Z.of_nat k) d) n
    [disj_gen n 0 (n / 2); disj_gen n 1 ((n - 1) / 2); gen_rev_segment n k (k + 3)] ["I"; "K"; "S"]%string
    (koltsov_name n k).
Proof.
  intros Hk. unfold koltsov3. destruct (Z.ltb_spec (Z.of_nat k) (Z.of_nat n)) as [_|Hc]; [|lia].
  change (2 =? 1)%Z with false. change (2 =? 2)%Z with true. cbn [negb orb].
  rewrite koltsov_I, koltsov_K by lia. cbn [bind].
  destruct (Z.ltb_spec (Z.of_nat k + 3) (Z.of_nat n)) as [_|Hc]; [|lia]. cbn [negb].
  rewrite koltsov_S2 by assumption. cbn [bind].
  change [of_nats (disj_gen n 0 (n / 2)); of_nats (disj_gen n 1 ((n - 1) / 2)); of_nats (gen_rev_segment n k (k + 3))]
    with (map of_nats [disj_gen n 0 (n / 2); disj_gen n 1 ((n - 1) / 2); gen_rev_segment n k (k + 3)]).
  apply create_full; [discriminate|lia| |reflexivity].
  repeat (apply Forall_cons || apply Forall_nil);
    [apply disj_gen_inv; lia|apply disj_gen_inv; lia|apply gen_rev_segment_PermN; lia].
Qed.

Theorem koltsov3_documented n k :
  (forall j, k < n -> j < n ->
   exists d, koltsov3 (Z.of_nat n) 1 (Z.of_nat k) (Z.of_nat j - Z.of_nat k) = Ok d /\
     p_gens d = [disj_gen n 0 (n / 2); disj_gen n 1 ((n - 1) / 2); transp n k j] /\
     p_names d = ["I"; "K"; "S"]%string /\ p_name d = koltsov_name n k /\ p_central d = of_nats (seq 0 n) /\
     Forall (PermN n) (p_gens d) /\
     (forall (A : Type) (dflt : A) (x : list A), length x = n ->
        map (fun p => apply_perm dflt p x) (p_gens d)
        = [swap_pairs dflt 0 (n / 2) x; swap_pairs dflt 1 ((n - 1) / 2) x; swap_at dflt x k j]) /\
     (forall p, In p (p_gens d) -> inverse_perm p = p) /\ closed_flag (p_gens d) = true) /\
  (forall dd, k + 3 < n ->
   exists d, koltsov3 (Z.of_nat n) 2 (Z.of_nat k) dd = Ok d /\
     p_gens d = [disj_gen n 0 (n / 2); disj_gen n 1 ((n - 1) / 2); gen_rev_segment n k (k + 3)] /\
     p_names d = ["I"; "K"; "S"]%string /\ p_name d = koltsov_name n k /\ p_central d = of_nats (seq 0 n) /\
     Forall (PermN n) (p_gens d) /\
     (forall (A : Type) (dflt : A) (x : list A), length x = n ->
        map (fun p => apply_perm dflt p x) (p_gens d)
        = [swap_pairs dflt 0 (n / 2) x; swap_pairs dflt 1 ((n - 1) / 2) x; rev_segment k (k + 3) x]) /\
     (forall p, In p (p_gens d) -> inverse_perm p = p) /\ closed_flag (p_gens d) = true).
Proof.
  split.
  - intros j Hk Hj.
    destruct (returns_full_fields _ _ _ _ _ (koltsov3_type1_returns n k j Hk Hj)) as (d & E & G & N & M & C).
    assert (forall p, In p (p_gens d) -> inverse_perm p = p) as Hinv.
    { rewrite G. intros p [<-|[<-|[<-|[]]]]; [apply disj_gen_inv; lia|apply disj_gen_inv; lia|apply transp_inv; lia]. }
    exists d. split; [exact E|]. split; [exact G|]. split; [exact N|]. split; [exact M|]. split; [exact C|].
    split; [|split; [|split; [exact Hinv|apply closed_of_involutions; exact Hinv]]]; rewrite G.
    + repeat (apply Forall_cons || apply Forall_nil); [apply disj_gen_inv; lia|apply disj_gen_inv; lia|apply transp_PermN; lia].
    + intros A dflt x L. cbn [map]. rewrite !(apply_disj_gen dflt n), (apply_transp dflt n) by lia. reflexivity.
  - intros dd Hk.
    destruct (returns_full_fields _ _ _ _ _ (koltsov3_type2_returns n k dd Hk)) as (d & E & G & N & M & C).
    assert (forall p, In p (p_gens d) -> inverse_perm p = p) as Hinv.
    { rewrite G. intros p [<-|[<-|[<-|[]]]]; [apply disj_gen_inv; lia|apply disj_gen_inv; lia|apply gen_rev_segment_inv; lia]. }
    exists d. split; [exact E|]. split; [exact G|]. split; [exact N|]. split; [exact M|]. split; [exact C|].
    split; [|split; [|split; [exact Hinv|apply closed_of_involutions; exact Hinv]]]; rewrite G.
    + repeat (apply Forall_cons || apply Forall_nil);
        [apply disj_gen_inv; lia|apply disj_gen_inv; lia|apply gen_rev_segment_PermN; lia].
    + intros A dflt x L. cbn [map]. rewrite !(apply_disj_gen dflt n), (apply_gen_rev_segment dflt n) by lia. reflexivity.
Qed.

(* documented range: 0 <= k < n; type 1: 0 <= k+d < n; type 2: k+3 < n *)
Definition koltsov_range (n t k d : Z) : Prop :=
  (0 <= k < n /\ ((t = 1 /\ 0 <= k + d < n) \/ (t = 2 /\ k + 3 < n)))%Z.

Lemma koltsov_IK_any n (a : Z) : (a = 0 \/ a = 1)%Z ->
  exists g, zfrom_cycles n (map (fun i => [i; i + 1]%Z) (zrange2 a (n - 1))) = Ok g.
Proof.
  intros Ha. destruct (Z_le_gt_dec n a) as [Hle|Hgt].
  - unfold zrange2. replace (Z.to_nat ((n - 1 - a + 1) / 2)) with 0 by lia. cbn [seq map].
    unfold zfrom_cycles, from_cycles. cbn [map fold_left bind]. eexists. reflexivity.
  - rewrite <- (Z2Nat.id n) by lia. destruct Ha as [-> | ->].
    + rewrite koltsov_I. eexists. reflexivity.
    + rewrite koltsov_K by lia. eexists. reflexivity.
Qed.

Lemma zfrom_cycles_bad n cs z : In z (concat cs) -> (z < 0)%Z -> zfrom_cycles n cs = Err AssertionErr.
Proof.
  intros Hin Hz. unfold zfrom_cycles. rewrite from_cycles_out_of_range; [reflexivity|].
  apply Exists_exists. exists z. split; [exact Hin|lia].
Qed.

Theorem koltsov3_range n t k d :
  ((exists r, koltsov3 n t k d = Ok r) <-> koltsov_range n t k d) /\
  (~ koltsov_range n t k d -> koltsov3 n t k d = Err AssertionErr).
Proof.
  apply range_from_cases.
  - intros ([Hk0 Hkn] & [[-> Hd]|[-> Hk3]]).
    + destruct (koltsov3_documented (Z.to_nat n) (Z.to_nat k)) as [H1 _].
      destruct (H1 (Z.to_nat (k + d)) ltac:(lia) ltac:(lia)) as (r & E & _). exists r.
      rewrite !Z2Nat.id in E by lia. replace (k + d - k)%Z with d in E by lia. exact E.
    + destruct (koltsov3_documented (Z.to_nat n) (Z.to_nat k)) as [_ H2].
      destruct (H2 d ltac:(lia)) as (r & E & _). exists r. rewrite !Z2Nat.id in E by lia. exact E.
  - intros HN. unfold koltsov_range in HN. unfold koltsov3.
    destruct (Z.ltb_spec k n) as [Hkn|Hkn]; [|reflexivity]. cbn [negb].
    destruct (koltsov_IK_any n 0 ltac:(lia)) as [g1 E1]. destruct (koltsov_IK_any n 1 ltac:(lia)) as [g2 E2].
    destruct (Z.eqb_spec t 1) as [->|N1].
    + cbn [orb negb]. rewrite E1, E2. cbn [bind].
      destruct (Z.ltb_spec (k + d) n) as [Hd|Hd]; [|reflexivity]. cbn [negb].
      destruct (Z_lt_ge_dec k 0) as [Hk0|Hk0].
      * rewrite (zfrom_cycles_bad n _ k); [reflexivity|cbn; auto|exact Hk0].
      * rewrite (zfrom_cycles_bad n _ (k + d)%Z); [reflexivity|cbn; auto|lia].
    + destruct (Z.eqb_spec t 2) as [->|N2]; [|reflexivity].
      cbn [orb negb]. rewrite E1, E2. cbn [bind].
      destruct (Z.ltb_spec (k + 3) n) as [Hd|Hd]; [|reflexivity]. cbn [negb].
      rewrite (zfrom_cycles_bad n _ k); [reflexivity|cbn; auto|lia].
  - unfold koltsov_range. lia.
Qed.

Example koltsov3_6 :
  koltsov3 6 1 1 3 = Ok {| p_gens := [[1; 0; 3; 2; 5; 4]; [0; 2; 1; 4; 3; 5]; [0; 4; 2; 3; 1; 5]];
       p_names := ["I"; "K"; "S"]%string; p_name := "koltsov3-n6-k1"%string; p_central := [0; 1; 2; 3; 4; 5]%Z |}
  /\ koltsov3 6 2 1 1 = Ok {| p_gens := [[1; 0; 3; 2; 5; 4]; [0; 2; 1; 4; 3; 5]; [0; 4; 3; 2; 1; 5]];
       p_names := ["I"; "K"; "S"]%string; p_name := "koltsov3-n6-k1"%string; p_central := [0; 1; 2; 3; 4; 5]%Z |}
  /\ koltsov_range 6 1 1 3 /\ koltsov_range 6 2 1 1 /\ ~ koltsov_range 6 2 3 1
  /\ koltsov3 6 2 3 1 = Err AssertionErr.
Proof. unfold koltsov_range. repeat split; try lia. Qed.
(* ---------------------------------------------------------------------------------------------- *)
(** * sheveleva2(n, k), 1 <= k <= n-3: an involution A and S = transpositions times one 4-cycle *)
Lemma nth_upd_if {A} (l : list A) i v t d : i < length l ->
  nth t (upd l i v) d = if t =? i then v else nth t l d.
Proof.
  intros H. destruct (Nat.eqb_spec t i) as [->|Hne]; [apply nth_upd_same; exact H|].
  apply nth_upd_other. congruence.
Qed.

Lemma map_upd {A B} (f : A -> B) (l : list A) : forall i v, map f (upd l i v) = upd (map f l) i (f v).
Proof.
  induction l as [|h t IH]; intros i v; [reflexivity|]. destruct i as [|i]; cbn [upd map]; [reflexivity|].
  now rewrite IH.
Qed.

Lemma zset_nat g (i v : nat) zi zv : zi = Z.of_nat i -> zv = Z.of_nat v ->
  zset (of_nats g) zi zv = of_nats (upd g i v).
Proof. intros -> ->. unfold zset, of_nats. rewrite Nat2Z.id. symmetry. apply map_upd. Qed.

(* two lists of indices that undo each other pointwise are inverse permutations *)
Lemma inverse_pair n p q : length p = n -> length q = n ->
  (forall t, t < n -> nth t p 0 < n /\ nth (nth t p 0) q 0 = t) -> PermN n p /\ inverse_perm p = q.
Proof.
  intros Lp Lq H.
  assert (Perm p) as HP.
  { apply NoDup_lt_Perm.
    - apply (proj2 (NoDup_nth p 0)). rewrite Lp. intros i j Hi Hj E.
      destruct (H i Hi) as [_ Ei]. destruct (H j Hj) as [_ Ej]. rewrite <- Ei, <- Ej, E. reflexivity.
    - intros x Hx. apply In_nth with (d := 0) in Hx as (t & Ht & <-). rewrite Lp in Ht |- *. apply H. exact Ht. }
  split; [split; assumption|]. apply inverse_by_spec; [exact HP|congruence|].
  rewrite Lp. intros t Ht. apply H. exact Ht.
Qed.

Ltac nbool :=
  repeat match goal with
  | |- context [Nat.eqb ?a ?b] => destruct (Nat.eqb_spec a b); try lia
  | |- context [Nat.ltb ?a ?b] => destruct (Nat.ltb_spec a b); try lia
  | |- context [Nat.leb ?a ?b] => destruct (Nat.leb_spec a b); try lia
  end.

(* the underlying products of adjacent transpositions: pairs starting at a = 0 or 1 *)
Definition sh_base (n a : nat) : list nat := disj_gen n a ((n - a) / 2).
Definition sh_s (k : nat) : nat := (k + 1) mod 2.      (* S is built on the pairs containing (k-1 k) *)
Definition sh_a (k : nat) : nat := k mod 2.            (* A is built on the pairs containing (k k+1) *)

Definition sh_S (n k : nat) : list nat :=
  upd (upd (upd (upd (sh_base n (sh_s k)) (k - 1) k) k (k + 1)) (k + 1) (k + 2)) (k + 2) (k - 1).
Definition sh_A (n k : nat) : list nat :=
  if k =? n - 3 then upd (upd (upd (sh_base n (sh_a k)) k k) (k + 1) (k + 1)) (k + 2) (k + 2)
  else upd (upd (upd (upd (sh_base n (sh_a k)) k k) (k + 1) (k + 3)) (k + 2) (k + 2)) (k + 3) (k + 1).

(* pointwise: S = (k-1 k k+1 k+2) times the remaining transpositions of its base *)
Definition sh_S_fun (n k t : nat) : nat :=
  if t =? k - 1 then k else if t =? k then k + 1 else if t =? k + 1 then k + 2 else if t =? k + 2 then k - 1
  else disj_fun (sh_s k) ((n - sh_s k) / 2) t.
Definition sh_S_inv_fun (n k t : nat) : nat :=
  if t =? k then k - 1 else if t =? k + 1 then k else if t =? k + 2 then k + 1 else if t =? k - 1 then k + 2
  else disj_fun (sh_s k) ((n - sh_s k) / 2) t.
(* A = the base with (k k+1) removed and, if k+3 < n, (k+2 k+3) replaced by (k+1 k+3) *)
Definition sh_A_fun (n k t : nat) : nat :=
  if t =? k then k
  else if k =? n - 3 then (if t =? k + 1 then k + 1 else if t =? k + 2 then k + 2
                           else disj_fun (sh_a k) ((n - sh_a k) / 2) t)
  else (if t =? k + 1 then k + 3 else if t =? k + 2 then k + 2 else if t =? k + 3 then k + 1
        else disj_fun (sh_a k) ((n - sh_a k) / 2) t).

Lemma sh_base_length n a : length (sh_base n a) = n.
Proof. apply disj_gen_length. Qed.

Lemma sh_S_length n k : length (sh_S n k) = n.
Proof. unfold sh_S. rewrite !upd_length. apply sh_base_length. Qed.

Lemma sh_A_length n k : length (sh_A n k) = n.
Proof. unfold sh_A. destruct (k =? n - 3); rewrite !upd_length; apply sh_base_length. Qed.

Lemma sh_S_nth n k t : 1 <= k -> k + 3 <= n -> t < n -> nth t (sh_S n k) 0 = sh_S_fun n k t.
Proof.
  intros H1 H2 Ht. unfold sh_S, sh_S_fun.
  rewrite !nth_upd_if by (rewrite ?upd_length, sh_base_length; lia).
  unfold sh_base. rewrite disj_gen_nth by exact Ht. nbool.
Qed.

Lemma sh_A_nth n k t : 1 <= k -> k + 3 <= n -> t < n -> nth t (sh_A n k) 0 = sh_A_fun n k t.
Proof.
  intros H1 H2 Ht. unfold sh_A, sh_A_fun. destruct (Nat.eqb_spec k (n - 3)) as [E|E].
  - rewrite !nth_upd_if by (rewrite ?upd_length, sh_base_length; lia).
    unfold sh_base. rewrite disj_gen_nth by exact Ht. nbool.
  - rewrite !nth_upd_if by (rewrite ?upd_length, sh_base_length; lia).
    unfold sh_base. rewrite disj_gen_nth by exact Ht. nbool.
Qed.

(* a pair (u u+1) of the product: exchanged, and no other point is sent into it *)
Lemma disj_fun_pair a m u : a <= u -> u + 1 < a + 2 * m -> (u - a) mod 2 = 0 ->
  disj_fun a m u = u + 1 /\ disj_fun a m (u + 1) = u /\
  forall t, t <> u -> t <> u + 1 -> disj_fun a m t <> u /\ disj_fun a m t <> u + 1.
Proof.
  intros H1 H2 H3. unfold disj_fun. repeat split.
  - nbool.
  - nbool.
  - nbool.
  - nbool.
Qed.

Lemma sh_pairs n k : 1 <= k -> k + 3 <= n ->
  (sh_s k <= k - 1 /\ (k - 1 - sh_s k) mod 2 = 0 /\ k + 2 < sh_s k + 2 * ((n - sh_s k) / 2)) /\
  (sh_a k <= k /\ (k - sh_a k) mod 2 = 0 /\ k + 1 < sh_a k + 2 * ((n - sh_a k) / 2) /\
   (k <> n - 3 -> k + 3 < sh_a k + 2 * ((n - sh_a k) / 2))).
Proof. intros H1 H2. unfold sh_s, sh_a. lia. Qed.

Lemma sh_S_spec n k : 1 <= k -> k + 3 <= n ->
  PermN n (sh_S n k) /\ inverse_perm (sh_S n k) = map (sh_S_inv_fun n k) (seq 0 n).
Proof.
  intros H1 H2. apply inverse_pair; [apply sh_S_length|now rewrite map_length, seq_length|].
  destruct (sh_pairs n k H1 H2) as [(P1 & P2 & P3) _].
  set (s := sh_s k) in *. set (m := (n - s) / 2) in *.
  destruct (disj_fun_pair s m (k - 1) ltac:(lia) ltac:(lia) ltac:(lia)) as (_ & _ & Q1).
  destruct (disj_fun_pair s m (k + 1) ltac:(lia) ltac:(lia) ltac:(lia)) as (_ & _ & Q2).
  intros t Ht. rewrite sh_S_nth by assumption. unfold sh_S_fun. fold s. fold m.
  destruct (Nat.eqb_spec t (k - 1)) as [->|N1].
  { split; [lia|]. rewrite nth_map_seq by lia. unfold sh_S_inv_fun. cbn [Nat.add]. nbool. }
  destruct (Nat.eqb_spec t k) as [->|N2].
  { split; [lia|]. rewrite nth_map_seq by lia. unfold sh_S_inv_fun. cbn [Nat.add]. nbool. }
  destruct (Nat.eqb_spec t (k + 1)) as [->|N3].
  { split; [lia|]. rewrite nth_map_seq by lia. unfold sh_S_inv_fun. cbn [Nat.add]. nbool. }
  destruct (Nat.eqb_spec t (k + 2)) as [->|N4].
  { split; [lia|]. rewrite nth_map_seq by lia. unfold sh_S_inv_fun. cbn [Nat.add]. nbool. }
  destruct (disj_fun_inv s m t) as [I B]. specialize (B n ltac:(lia) Ht).
  destruct (Q1 t ltac:(lia) ltac:(lia)) as [V1 V2]. destruct (Q2 t ltac:(lia) ltac:(lia)) as [V3 V4].
  split; [exact B|]. rewrite nth_map_seq by exact B. cbn [Nat.add]. unfold sh_S_inv_fun. fold s. fold m.
  set (v := disj_fun s m t) in *. nbool; try exact I.
Qed.

Lemma sh_A_spec n k : 1 <= k -> k + 3 <= n -> PermN n (sh_A n k) /\ inverse_perm (sh_A n k) = sh_A n k.
Proof.
  intros H1 H2. apply involution_PermN; [apply sh_A_length|].
  destruct (sh_pairs n k H1 H2) as [_ (P1 & P2 & P3 & P4)].
  set (a := sh_a k) in *. set (m := (n - a) / 2) in *.
  destruct (disj_fun_pair a m k ltac:(lia) ltac:(lia) ltac:(lia)) as (_ & _ & Q1).
  intros t Ht. rewrite sh_A_nth by assumption. unfold sh_A_fun. fold a. fold m.
  destruct (Nat.eqb_spec t k) as [->|N1].
  { split; [lia|]. rewrite sh_A_nth by assumption. unfold sh_A_fun. now rewrite Nat.eqb_refl. }
  destruct (disj_fun_inv a m t) as [I B]. specialize (B n ltac:(lia) Ht).
  destruct (Nat.eqb_spec k (n - 3)) as [E|E].
  - destruct (Nat.eqb_spec t (k + 1)) as [->|N2].
    { split; [lia|]. rewrite sh_A_nth by lia. unfold sh_A_fun. nbool. }
    destruct (Nat.eqb_spec t (k + 2)) as [->|N3].
    { split; [lia|]. rewrite sh_A_nth by lia. unfold sh_A_fun. nbool. }
    destruct (Q1 t ltac:(lia) ltac:(lia)) as [V1 V2].
    split; [exact B|]. rewrite sh_A_nth by assumption. unfold sh_A_fun. fold a. fold m.
    set (v := disj_fun a m t) in *.
    assert (v <> k + 2) as V3.
    { unfold v, disj_fun. nbool. }
    nbool; try exact I.
  - specialize (P4 E).
    destruct (disj_fun_pair a m (k + 2) ltac:(lia) ltac:(lia) ltac:(lia)) as (_ & _ & Q2).
    destruct (Nat.eqb_spec t (k + 1)) as [->|N2].
    { split; [lia|]. rewrite sh_A_nth by lia. unfold sh_A_fun. nbool. }
    destruct (Nat.eqb_spec t (k + 2)) as [->|N3].
    { split; [lia|]. rewrite sh_A_nth by lia. unfold sh_A_fun. nbool. }
    destruct (Nat.eqb_spec t (k + 3)) as [->|N4].
    { split; [lia|]. rewrite sh_A_nth by lia. unfold sh_A_fun. nbool. }
    destruct (Q1 t ltac:(lia) ltac:(lia)) as [V1 V2]. destruct (Q2 t ltac:(lia) ltac:(lia)) as [V3 V4].
    split; [exact B|]. rewrite sh_A_nth by assumption. unfold sh_A_fun. fold a. fold m.
    set (v := disj_fun a m t) in *. nbool; try exact I.
Qed.
Lemma sh_forms n k :
  (k mod 2 = 1 ->
   sh_S n k = upd (upd (upd (upd (disj_gen n 0 (n / 2)) (k - 1) k) k (k + 1)) (k + 1) (k + 2)) (k + 2) (k - 1) /\
   sh_A n k = if k =? n - 3
     then upd (upd (upd (disj_gen n 1 ((n - 1) / 2)) k k) (k + 1) (k + 1)) (k + 2) (k + 2)
     else upd (upd (upd (upd (disj_gen n 1 ((n - 1) / 2)) k k) (k + 1) (k + 3)) (k + 2) (k + 2)) (k + 3) (k + 1)) /\
  (k mod 2 = 0 ->
   sh_S n k = upd (upd (upd (upd (disj_gen n 1 ((n - 1) / 2)) (k - 1) k) k (k + 1)) (k + 1) (k + 2)) (k + 2) (k - 1) /\
   sh_A n k = if k =? n - 3
     then upd (upd (upd (disj_gen n 0 (n / 2)) k k) (k + 1) (k + 1)) (k + 2) (k + 2)
     else upd (upd (upd (upd (disj_gen n 0 (n / 2)) k k) (k + 1) (k + 3)) (k + 2) (k + 2)) (k + 3) (k + 1)).
Proof.
  split; intros Hp; unfold sh_S, sh_A, sh_base.
  - replace (sh_s k) with 0 by (unfold sh_s; lia). replace (sh_a k) with 1 by (unfold sh_a; lia).
    rewrite Nat.sub_0_r. split; reflexivity.
  - replace (sh_s k) with 1 by (unfold sh_s; lia). replace (sh_a k) with 0 by (unfold sh_a; lia).
    rewrite Nat.sub_0_r. split; reflexivity.
Qed.

Definition sh_name (n k : nat) : string := cat ["sheveleva2-n"; zs (Z.of_nat n); "-k"; zs (Z.of_nat k)].

Ltac znorm k :=
  repeat match goal with
  | |- context [zset (of_nats ?g) ?zi ?zv] => rewrite (zset_nat g (Z.to_nat zi) (Z.to_nat zv) zi zv) by lia
  end;
  rewrite ?Nat2Z.id;
  replace (Z.to_nat (Z.of_nat k - 1)) with (k - 1) by lia;
  replace (Z.to_nat (Z.of_nat k + 1)) with (k + 1) by lia;
  replace (Z.to_nat (Z.of_nat k + 2)) with (k + 2) by lia;
  try replace (Z.to_nat (Z.of_nat k + 3)) with (k + 3) by lia.

Theorem sheveleva2_returns n k : 1 <= k -> k + 3 <= n ->
  returns_full (sheveleva2 (Z.of_nat n) (Z.of_nat k)) n [sh_A n k; sh_S n k] ["A"; "S"]%string (sh_name n k).
Proof.
  intros H1 H2. unfold sheveleva2.
  destruct (Z.leb_spec 1 (Z.of_nat k)) as [_|Hc]; [|lia].
  destruct (Z.leb_spec (Z.of_nat k) (Z.of_nat n - 3)) as [_|Hc]; [|lia]. cbn [andb negb].
  rewrite koltsov_I, koltsov_K by lia. cbn [bind]. cbv beta zeta.
  destruct (sh_forms n k) as [Fo Fe].
  assert (Forall (PermN n) [sh_A n k; sh_S n k]) as HF.
  { repeat (apply Forall_cons || apply Forall_nil); [apply sh_A_spec|apply sh_S_spec]; lia. }
  destruct (Z.eqb_spec (Z.of_nat k mod 2) 1) as [Ep|Ep];
    [destruct (Fo ltac:(lia)) as [ES EA]|destruct (Fe ltac:(lia)) as [ES EA]];
    (destruct (Z.eqb_spec (Z.of_nat k) (Z.of_nat n - 3)) as [E3|E3];
     [destruct (Nat.eqb_spec k (n - 3)) as [_|Hc]; [|lia]|destruct (Nat.eqb_spec k (n - 3)) as [Hc|_]; [lia|]]);
    cbv beta iota; znorm k; rewrite <- ES, <- EA;
    change [of_nats (sh_A n k); of_nats (sh_S n k)] with (map of_nats [sh_A n k; sh_S n k]);
    (apply create_full; [discriminate|lia|exact HF|reflexivity]).
Qed.

Theorem sheveleva2_documented n k : 1 <= k -> k + 3 <= n ->
  exists d, sheveleva2 (Z.of_nat n) (Z.of_nat k) = Ok d /\
    p_gens d = [sh_A n k; sh_S n k] /\ p_names d = ["A"; "S"]%string /\
    p_name d = cat ["sheveleva2-n"; zs (Z.of_nat n); "-k"; zs (Z.of_nat k)] /\ p_central d = of_nats (seq 0 n) /\
    Forall (PermN n) (p_gens d) /\
    (* A is an involution; both generators pointwise *)
    inverse_perm (sh_A n k) = sh_A n k /\
    (forall t, t < n -> nth t (sh_A n k) 0 = sh_A_fun n k t /\ nth t (sh_S n k) 0 = sh_S_fun n k t) /\
    (* S is the 4-cycle (k-1 k k+1 k+2) times disjoint transpositions *)
    (nth (k - 1) (sh_S n k) 0 = k /\ nth k (sh_S n k) 0 = k + 1 /\ nth (k + 1) (sh_S n k) 0 = k + 2 /\
     nth (k + 2) (sh_S n k) 0 = k - 1 /\
     forall t, t < n -> t < k - 1 \/ k + 2 < t ->
       (nth t (sh_S n k) 0 < k - 1 \/ k + 2 < nth t (sh_S n k) 0) /\ nth (nth t (sh_S n k) 0) (sh_S n k) 0 = t) /\
    (forall (A : Type) (dflt : A) (x : list A) t, length x = n -> t < n ->
       nth t (apply_perm dflt (sh_A n k) x) dflt = nth (sh_A_fun n k t) x dflt /\
       nth t (apply_perm dflt (sh_S n k) x) dflt = nth (sh_S_fun n k t) x dflt) /\
    closed_flag (p_gens d) = false.
Proof.
  intros H1 H2. destruct (returns_full_fields _ _ _ _ _ (sheveleva2_returns n k H1 H2)) as (d & E & G & N & M & C).
  destruct (sh_A_spec n k H1 H2) as [PA IA]. destruct (sh_S_spec n k H1 H2) as [PS IS].
  exists d. rewrite G. split; [exact E|]. split; [reflexivity|]. split; [exact N|]. split; [exact M|].
  split; [exact C|]. split; [repeat (apply Forall_cons || apply Forall_nil); assumption|].
  split; [exact IA|]. split; [intros t Ht; split; [apply sh_A_nth|apply sh_S_nth]; assumption|].
  split; [|split].
  - rewrite !sh_S_nth by lia. unfold sh_S_fun at 1 2 3 4.
    split; [nbool|]. split; [nbool|]. split; [nbool|]. split; [nbool|].
    intros t Ht Hout. rewrite sh_S_nth by assumption.
    destruct (sh_pairs n k H1 H2) as [(P1 & P2 & P3) _].
    set (s := sh_s k) in *. set (m := (n - s) / 2) in *.
    destruct (disj_fun_pair s m (k - 1) ltac:(lia) ltac:(lia) ltac:(lia)) as (_ & _ & Q1).
    destruct (disj_fun_pair s m (k + 1) ltac:(lia) ltac:(lia) ltac:(lia)) as (_ & _ & Q2).
    destruct (disj_fun_inv s m t) as [I B]. specialize (B n ltac:(lia) Ht).
    destruct (Q1 t ltac:(lia) ltac:(lia)) as [V1 V2]. destruct (Q2 t ltac:(lia) ltac:(lia)) as [V3 V4].
    assert (sh_S_fun n k t = disj_fun s m t) as Ev by (unfold sh_S_fun; fold s; fold m; nbool).
    rewrite Ev. split; [lia|]. rewrite sh_S_nth by assumption. unfold sh_S_fun. fold s. fold m.
    set (v := disj_fun s m t) in *. nbool; exact I.
  - intros A dflt x t L Ht. rewrite !nth_apply_perm by (rewrite ?sh_A_length, ?sh_S_length; exact Ht).
    rewrite sh_A_nth, sh_S_nth by assumption. split; reflexivity.
  - apply (not_closed _ (sh_S n k)); [right; left; reflexivity|]. rewrite IS.
    intros [C0|[C0|[]]]; apply (f_equal (fun p => nth k p 0)) in C0;
      rewrite nth_map_seq in C0 by lia; cbn [Nat.add] in C0; unfold sh_S_inv_fun in C0;
      rewrite Nat.eqb_refl in C0.
    + rewrite sh_A_nth in C0 by lia. unfold sh_A_fun in C0. rewrite Nat.eqb_refl in C0. lia.
    + rewrite sh_S_nth in C0 by lia. unfold sh_S_fun in C0. rewrite Nat.eqb_refl in C0.
      destruct (Nat.eqb_spec k (k - 1)); lia.
Qed.

Theorem sheveleva2_range n k :
  ((exists d, sheveleva2 n k = Ok d) <-> (1 <= k <= n - 3)%Z) /\
  (~ (1 <= k <= n - 3)%Z -> sheveleva2 n k = Err AssertionErr).
Proof.
  apply range_from_cases.
  - intros Hk. destruct (sheveleva2_documented (Z.to_nat n) (Z.to_nat k)) as (d & E & _); try lia.
    exists d. rewrite !Z2Nat.id in E by lia. exact E.
  - intros HN. unfold sheveleva2. destruct (Z.leb_spec 1 k); [|reflexivity].
    destruct (Z.leb_spec k (n - 3)); [lia|reflexivity].
  - lia.
Qed.

Example sheveleva2_8 :
  sheveleva2 8 3 = Ok {| p_gens := [[0; 2; 1; 3; 6; 5; 4; 7]; [1; 0; 3; 4; 5; 2; 7; 6]];
       p_names := ["A"; "S"]%string; p_name := "sheveleva2-n8-k3"%string; p_central := [0; 1; 2; 3; 4; 5; 6; 7]%Z |}
  /\ sheveleva2 7 4 = Ok {| p_gens := [[1; 0; 3; 2; 4; 5; 6]; [0; 2; 1; 4; 5; 6; 3]];
       p_names := ["A"; "S"]%string; p_name := "sheveleva2-n7-k4"%string; p_central := [0; 1; 2; 3; 4; 5; 6]%Z |}
  /\ [sh_A 8 3; sh_S 8 3] = [[0; 2; 1; 3; 6; 5; 4; 7]; [1; 0; 3; 4; 5; 2; 7; 6]]
  /\ map (sh_S_fun 8 3) (seq 0 8) = [1; 0; 3; 4; 5; 2; 7; 6].
Proof. vm_compute. repeat split. Qed.
