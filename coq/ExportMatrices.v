(** Model of the remaining pieces of the explicit-graph export of BfsResult (algo/bfs_result.py):
    adjacency_matrix, adjacency_matrix_sparse, named_undirected_edges, to_networkx_graph.
    All of them are functions of the renumbered edge list (Export.edges_list), the vertex names
    (map Export.vertex_name all_states) and, for networkx, of the per-row labels
    (Export.edge_name of every row of the edge list).  Executable; theorems in ExportMatricesProofs.v. *)
From Coq Require Import ZArith List Bool Arith Lia String.
From V Require Import Base Export.
Import ListNotations.
Local Open Scope nat_scope.

(* ------------------------------------------------------------------ *)
(** * adjacency_matrix (dense) *)

(* np.zeros((n, n), dtype=np.int8) *)
Definition zeros (n : nat) : list (list Z) := repeat (repeat 0%Z n) n.

(* ans[i, j] = v   (in range; out of range the pure model leaves the matrix alone, see adjacency_matrix) *)
Definition set_entry (M : list (list Z)) (i j : nat) (v : Z) : list (list Z) :=
  upd M i (upd (nth i M []) j v).

(* ans = zeros; for i1, i2 in edges_list: ans[i1, i2] = 1 *)
Definition adjacency_dense (n : nat) (el : list (nat * nat)) : list (list Z) :=
  fold_left (fun M '(i, j) => set_entry M i j 1%Z) el (zeros n).

(* entry (i, j) of a matrix given as a list of rows *)
Definition entry (M : list (list Z)) (i j : nat) : Z := nth j (nth i M []) 0%Z.

(* The same with numpy's bound check: an index >= n raises IndexError.  (The indices are values of
   hashes_to_indices_dict, hence non-negative; on an actual BfsResult they are < num_vertices, this
   is edges_in_range in the proofs file.) *)
Definition edges_in_range_b (n : nat) (el : list (nat * nat)) : bool :=
  forallb (fun '(i, j) => (i <? n) && (j <? n)) el.
Definition adjacency_matrix (n : nat) (el : list (nat * nat)) : result (list (list Z)) :=
  if edges_in_range_b n el then Ok (adjacency_dense n el) else Err IndexErr.

(* closed form of the same matrix, used as the specification *)
Definition adjacency_spec (n : nat) (el : list (nat * nat)) : list (list Z) :=
  map (fun i => map (fun j => if existsb (natpair_eqb (i, j)) el then 1%Z else 0%Z) (seq 0 n)) (seq 0 n).

(* A^T for an n x n matrix *)
Definition mtranspose (n : nat) (M : list (list Z)) : list (list Z) :=
  map (fun i => map (fun j => entry M j i) (seq 0 n)) (seq 0 n).

(* ------------------------------------------------------------------ *)
(** * adjacency_matrix_sparse (COO) *)

(* coo_array((ones, (edges_list[:,0], edges_list[:,1]))): the triples (row, col, data) in order;
   parallel edges stay duplicate entries *)
Definition adjacency_sparse (el : list (nat * nat)) : list (nat * nat * Z) :=
  map (fun '(i, j) => (i, j, 1%Z)) el.

(* the value a COO matrix denotes at (i, j): duplicates are summed (coo_array.toarray / tocsr).
   In Z, i.e. without the int8 wrap-around of more than 127 parallel edges. *)
Definition coo_entry (t : list (nat * nat * Z)) (i j : nat) : Z :=
  fold_right (fun '(a, b, v) acc => if natpair_eqb (a, b) (i, j) then (v + acc)%Z else acc) 0%Z t.

(* ------------------------------------------------------------------ *)
(** * named_undirected_edges *)

(* tuple(sorted([a, b])): Python's sort is stable, the pair is swapped only when b < a.
   Python compares str by code points; Coq strings are byte strings compared bytewise; the two agree
   on the UTF-8 encoding, and vertex names are ASCII anyway. *)
Definition sorted_pair (a b : string) : string * string :=
  if String.ltb b a then (b, a) else (a, b).

Definition skey := (string * string)%type.
Definition skey_eqb (a b : skey) : bool := String.eqb (fst a) (fst b) && String.eqb (snd a) (snd b).

(* the elements of a Python set built by successive add(), in first-insertion order *)
Definition add_new {A} (eqb : A -> A -> bool) (x : A) (acc : list A) : list A :=
  if existsb (eqb x) acc then acc else acc ++ [x].
Definition dedup {A} (eqb : A -> A -> bool) (l : list A) : list A :=
  fold_left (fun acc x => add_new eqb x acc) l [].

(* vn[i] *)
Definition name_of (names : list string) (i : nat) : string := nth i names ""%string.

(* {tuple(sorted([vn[i1], vn[i2]])) for i1, i2 in edges_list} *)
Definition named_undirected (names : list string) (el : list (nat * nat)) : list (string * string) :=
  dedup skey_eqb (map (fun '(i, j) => sorted_pair (name_of names i) (name_of names j)) el).

(* ------------------------------------------------------------------ *)
(** * to_networkx_graph *)

(* dict with (u, v) keys: d[k] = v keeps the position of the first insertion and overwrites the value *)
Section Dict.
  Context {L : Type}.
  Definition dict_set (k : skey) (v : L) (m : list (skey * L)) : list (skey * L) :=
    if existsb (fun '(k', _) => skey_eqb k k') m
    then map (fun '(k', v') => if skey_eqb k k' then (k', v) else (k', v')) m
    else m ++ [(k, v)].
  Definition dict_get (k : skey) (m : list (skey * L)) : option L :=
    match find (fun '(k', _) => skey_eqb k k') m with Some (_, v) => Some v | None => None end.

  (* the rows fed to add_edge: (vertex_names[i1], vertex_names[i2], label) *)
  Definition nx_rows (names : list string) (labels : list L) (el : list (nat * nat)) : list (skey * L) :=
    map (fun '((i, j), lb) => ((name_of names i, name_of names j), lb)) (combine el labels).

  (* DiGraph: for i1, i2 in edges_list: ans.add_edge(vn[i1], vn[i2], label=label).
     [labels] is the list of get_edge_name(i1, i2), one per row of edges_list
     (or of None's when with_labels=False, with L := option string). *)
  Definition nx_edges_directed (names : list string) (labels : list L) (el : list (nat * nat))
    : list (skey * L) :=
    fold_left (fun m '(k, lb) => dict_set k lb m) (nx_rows names labels el) [].

  (* Graph: the edge {u, v} is one object whatever the orientation; keyed by the sorted pair *)
  Definition nx_edges_undirected (names : list string) (labels : list L) (el : list (nat * nat))
    : list (skey * L) :=
    fold_left (fun m '((a, b), lb) => dict_set (sorted_pair a b) lb m) (nx_rows names labels el) [].

  (* to_networkx_graph(directed, with_labels): nodes (add_node is idempotent) and labelled edges *)
  Definition to_networkx (inverse_closed directed : bool)
             (names : list string) (labels : list L) (el : list (nat * nat))
    : result (list string * list (skey * L)) :=
    if negb inverse_closed && negb directed then Err AssertionErr
    else Ok (dedup String.eqb names,
             if directed then nx_edges_directed names labels el else nx_edges_undirected names labels el).
End Dict.

(* ------------------------------------------------------------------ *)
(** * Checkers for the correspondence harness (recorded implementation output on the right) *)

Definition check_dense (n : nat) (el : list (nat * nat)) (observed : list (list Z)) : bool :=
  result_eqb z_list2_eqb (adjacency_matrix n el) (Ok observed).

Definition triple_eqb (a b : nat * nat * Z) : bool :=
  natpair_eqb (fst a) (fst b) && Z.eqb (snd a) (snd b).
Definition check_sparse (el : list (nat * nat)) (observed : list (nat * nat * Z)) : bool :=
  list_eqb triple_eqb (adjacency_sparse el) observed.

(* sets and dicts are compared as sets *)
Definition subset_b {A} (eqb : A -> A -> bool) (l1 l2 : list A) : bool :=
  forallb (fun x => existsb (eqb x) l2) l1.
Definition set_eqb {A} (eqb : A -> A -> bool) (l1 l2 : list A) : bool :=
  subset_b eqb l1 l2 && subset_b eqb l2 l1.
Definition check_named_undirected (names : list string) (el : list (nat * nat))
           (observed : list (string * string)) : bool :=
  set_eqb skey_eqb (named_undirected names el) observed.
Definition check_nx_directed (names labels : list string) (el : list (nat * nat))
           (observed : list (skey * string)) : bool :=
  set_eqb (pair_eqb skey_eqb String.eqb) (nx_edges_directed names labels el) observed.
Definition check_nx_undirected (names labels : list string) (el : list (nat * nat))
           (observed : list (skey * string)) : bool :=
  set_eqb (pair_eqb skey_eqb String.eqb) (nx_edges_undirected names labels el)
          (map (fun '((a, b), lb) => (sorted_pair a b, lb)) observed).

Record matrices_case := {
  mc_n : nat; mc_edges_list : list (nat * nat); mc_vertex_names : list string; mc_edge_names : list string;
  (* observed *)
  mc_dense : list (list Z); mc_sparse : list (nat * nat * Z);
  mc_named_undirected : list (string * string); mc_nx_directed : list (skey * string);
}.
Definition check_matrices (c : matrices_case) : bool :=
  check_dense (mc_n c) (mc_edges_list c) (mc_dense c)
  && check_sparse (mc_edges_list c) (mc_sparse c)
  && check_named_undirected (mc_vertex_names c) (mc_edges_list c) (mc_named_undirected c)
  && check_nx_directed (mc_vertex_names c) (mc_edge_names c) (mc_edges_list c) (mc_nx_directed c).

(* ------------------------------------------------------------------ *)
(** * A 3-vertex run: the rotation graph of ExportSchreier.Ex (generators r = (0 1 2), e = id) *)
Module Ex3.
  Definition el : list (nat * nat) := [(0, 1); (0, 0); (1, 2); (1, 1); (2, 0); (2, 2)].
  Definition names : list string := ["012"; "120"; "201"]%string.
  Definition labels : list string := ["r"; "e"; "r"; "e"; "r"; "e"]%string.
  Definition case : matrices_case :=
    {| mc_n := 3; mc_edges_list := el; mc_vertex_names := names; mc_edge_names := labels;
       mc_dense := [[1; 1; 0]; [0; 1; 1]; [1; 0; 1]]%Z;
       mc_sparse := [(0, 1, 1%Z); (0, 0, 1%Z); (1, 2, 1%Z); (1, 1, 1%Z); (2, 0, 1%Z); (2, 2, 1%Z)];
       (* a Python set: any order *)
       mc_named_undirected := [("012", "012"); ("012", "201"); ("120", "120"); ("120", "201");
                               ("012", "120"); ("201", "201")]%string;
       mc_nx_directed := [(("012", "012"), "e"); (("012", "120"), "r"); (("120", "120"), "e");
                          (("120", "201"), "r"); (("201", "201"), "e"); (("201", "012"), "r")]%string |}.
  Example case_ok : check_matrices case = true.
  Proof. vm_compute. reflexivity. Qed.
End Ex3.
