(** Executable model of the MAIN LOOP of the bit-mask BFS engine (cayleypy/algo/bfs_bitmask.py):
    VertexChunk (black / last_layer / gray bit sets, flush_gray_to_black, materialisation of the
    last layer, paint_gray) and the driver CayleyGraphChunkedBfs (chunk list keyed by suffix,
    paint_gray with its grouping by chunk, bfs with the depth
    limit and both stopping rules).  The rank/unrank layer itself is Bitmask.v; here it is
    re-implemented on binary numbers through two lookup tables exactly like PREFIX_MAP_1 /
    PREFIX_MAP_2 of the Python file, and BitmaskEngineProofs.v proves the fast versions equal to
    Bitmask.rank_to_prefix / Bitmask.prefix_to_rank on permutations.

    Representation choices (each one is an abstraction of a Python detail; the reason why it is
    harmless in the documented domain 8 < n <= 12 is given next to it):

    * a state is the [list nat] one-line permutation, not its int64 packing with 4 bits per entry
      (_encode_perm).  The packing is injective and non-negative for n <= 15 and is only ever
      decoded nibble by nibble, so nothing but the IDENTITY of a state is observable.  The generated routines
      enc.implement_permutation_1d(p) are [apply_perm 0 p] (new[i] = old[p[i]], Perm.v).
    * the key of a chunk, encoded_suffix = perms & suffix_mask, is the suffix list [skipn 8 p];
      the dictionary chunk_map is a lookup by suffix in the chunk list (KeyError = not found).
    * a 40320-bit array is a [PositiveSet.t] holding rank+1 for every set bit; the word structure
      (630 uint64 words, _bit_count) is Bitmask.popcount64 and not repeated here: only
      "which bits are set" and "how many" are used by the driver.
    * a rank is the positive number rank+1 (so that it can be a key of the stdlib positive maps). *)
From Coq Require Import ZArith NArith PArith List Bool Arith Lia FMapPositive MSetPositive.
From V Require Import Base Perm Bitmask.
Import ListNotations.

Module PS := PositiveSet.
Module PM := PositiveMap.

(* ------------------------------------------------------------------------------------------- *)
(** * PREFIX_MAP_1 / PREFIX_MAP_2 *)

(* encoded_prefix = sum(prefix[i] << (3*i)): little-endian digits in base 8 *)
Definition packN (base : N) (l : list nat) : N :=
  fold_right (fun d acc => (N.of_nat d + base * acc)%N) 0%N l.
Definition key8 (l : list nat) : positive := N.succ_pos (packN 8 l).

(* _prepare_prefix_maps: for i, prefix in enumerate(model_prefixes):
     PREFIX_MAP_1[i] = encoded_prefix;  PREFIX_MAP_2[encoded_prefix] = i
   (PREFIX_MAP_1 stores the prefix itself instead of its encoding: it is only ever decoded) *)
Definition build_map1 (tbl : list (list nat)) : PM.t (list nat) :=
  fst (fold_left (fun (mi : PM.t (list nat) * positive) p =>
                    (PM.add (snd mi) p (fst mi), Pos.succ (snd mi)))
                 tbl (PM.empty (list nat), 1%positive)).
Definition build_map2 (tbl : list (list nat)) : PM.t positive :=
  fst (fold_left (fun (mi : PM.t positive * positive) p =>
                    (PM.add (key8 p) (snd mi) (fst mi), Pos.succ (snd mi)))
                 tbl (PM.empty positive, 1%positive)).

Definition PREFIX_MAP_1 : PM.t (list nat) := build_map1 prefix_table.
Definition PREFIX_MAP_2 : PM.t positive := build_map2 prefix_table.

(* rank_to_permutation (prefix part): PREFIX_MAP_1[rank], relabelled through map1.
   [ri] = rank + 1.  Ranks come from set bits of a 40320-bit array, so the lookup cannot miss. *)
Definition rank_to_prefix_fast (ri : positive) (map1 : list nat) : list nat :=
  match PM.find ri PREFIX_MAP_1 with
  | Some q => map (fun d => nth d map1 0) q
  | None => []
  end.

(* permutation_to_rank: relabel the first 8 entries through map2, encode, PREFIX_MAP_2[...];
   PREFIX_MAP_2 is zero-initialised: an encoding that is not in the table yields rank 0 *)
Definition prefix_to_rank_fast (p : list nat) (map2 : list nat) : positive :=
  match PM.find (key8 (map (fun v => nth v map2 0) (firstn RR p))) PREFIX_MAP_2 with
  | Some ri => ri
  | None => 1%positive
  end.

(* ------------------------------------------------------------------------------------------- *)
(** * VertexChunk *)

Record chunk := mkChunk {
  c_suffix : list nat;      (* encoded_suffix *)
  c_map1 : list nat;
  c_map2 : list nat;
  c_black : PS.t;
  c_last : PS.t;            (* last_layer *)
  c_gray : PS.t;
  c_changed : bool;         (* changed_on_last_step *)
  c_count : N               (* last_layer_count *)
}.

(* VertexChunk.__init__ (its two assertions on lengths hold for every suffix the driver passes) *)
Definition new_chunk (n : nat) (suffix : list nat) : chunk :=
  let m1 := chunk_map1 n suffix in
  mkChunk suffix m1 (chunk_map2 n m1) PS.empty PS.empty PS.empty false 0%N.

(* number of set bits (_bit_count over the whole array), on binary numbers *)
Fixpoint cardN (s : PS.t) : N :=
  match s with
  | PS.Leaf => 0%N
  | PS.Node l b r => ((if b then 1 else 0) + (cardN l + cardN r))%N
  end.

(* materialize_last_layer_permutations: the set bits in increasing rank order, each unranked
   through map1 and glued to the suffix.  Its assertions (changed_on_last_step,
   last_layer_count > 0, ctr == len(ans)) hold whenever the driver calls it: the driver tests
   the flag, and flush sets the flag exactly when the count, which is the number of set bits,
   is positive. *)
Definition materialize (c : chunk) : list (list nat) :=
  map (fun ri => rank_to_prefix_fast ri (c_map1 c) ++ c_suffix c) (PS.elements (c_last c)).

Definition set_gray (c : chunk) (g : PS.t) : chunk :=
  mkChunk (c_suffix c) (c_map1 c) (c_map2 c) (c_black c) (c_last c) g (c_changed c) (c_count c).

(* VertexChunk.paint_gray / _paint_gray *)
Definition chunk_paint (c : chunk) (ps : list (list nat)) : chunk :=
  set_gray c (fold_left (fun g p => PS.add (prefix_to_rank_fast p (c_map2 c)) g) ps (c_gray c)).

(* VertexChunk.flush_gray_to_black *)
Definition flush_chunk (c : chunk) : chunk :=
  let g := PS.diff (c_gray c) (c_black c) in        (* self.gray &= ~self.black *)
  let cnt := cardN g in
  if (cnt =? 0)%N
  then mkChunk (c_suffix c) (c_map1 c) (c_map2 c) (c_black c) PS.empty g false 0%N
  else mkChunk (c_suffix c) (c_map1 c) (c_map2 c) (PS.union (c_black c) g) g PS.empty true cnt.

(* ------------------------------------------------------------------------------------------- *)
(** * CayleyGraphChunkedBfs *)

(* itertools.permutations(range(n), r = n - R): perms_aux with depth r is exactly that enumeration
   (r-arrangements in lexicographic order of positions) *)
Definition suffixes (n : nat) : list (list nat) := perms_aux (n - RR) (seq 0 n).
Definition init_chunks (n : nat) : list chunk := map (new_chunk n) (suffixes n).

(* self.chunk_map[key].paint_gray(group): find the chunk with this suffix and paint there;
   None = KeyError.  One pass: the chunk list is rebuilt with the painted chunk in place. *)
Fixpoint paint_in (key : list nat) (group : list (list nat)) (cs : list chunk) : option (list chunk) :=
  match cs with
  | [] => None
  | c :: t => if nat_list_eqb key (c_suffix c) then Some (chunk_paint c group :: t)
              else option_map (cons c) (paint_in key group t)
  end.

Definition route (cs : list chunk) (q : list nat) : result (list chunk) :=
  match paint_in (skipn RR q) [q] cs with
  | Some cs' => Ok cs'
  | None => Err KeyErr
  end.

(* CayleyGraphChunkedBfs.paint_gray (after fix 40d8e7d of the np.roll grouping).
     if len(perms) == 1: the single state goes to its chunk.
     else: perms = np.unique(perms); keys = perms & suffix_mask;
           group_starts = [0] ++ (positions where keys[i] <> keys[i-1]); each run [i1, i2) of equal
           keys is painted into chunk_map[keys[i1]]; finally group_starts[-1] starts the last run.
   np.unique sorts; the key is the high part of the packed state, so keys is non-decreasing and the
   runs are exactly the maximal blocks of equal keys - also when all keys are equal (one run).
   What is kept EXACTLY: the only failure left, the empty array (keys[group_starts[-1]] = keys[0]
   on an empty array is an IndexError); the engine never makes that call (proved:
   BitmaskEngineProofs.no_bad_call).
   What is abstracted: the sort, the de-duplication and the run-length grouping themselves.
   Painting is "set these bits", which is idempotent and order-independent, and each state is
   painted into the chunk of ITS OWN key either way; so every state is routed separately, in
   the order of the unsorted array.  (A KeyError can only come from a key that is not an
   arrangement of n - 8 symbols; it is kept as [Err KeyErr].) *)
Definition paint_gray (cs : list chunk) (nbrs : list (list nat)) : result (list chunk) :=
  match nbrs with
  | [] => Err IndexErr
  | [q] => route cs q
  | _ => fold_left (fun acc q => do cs' <- acc; route cs' q) nbrs (Ok cs)
  end.

(* flush_gray_to_black / count_last_layer of the driver *)
Definition flush (cs : list chunk) : list chunk := map flush_chunk cs.
Definition count_last (cs : list chunk) : N := fold_right N.add 0%N (map c_count cs).

(* neighbors = np.hstack([p(perms) for p in self.perm_funcs]) *)
Definition neighbors (gens : list (list nat)) (c1 : chunk) : list (list nat) :=
  let ps := materialize c1 in concat (map (fun g => map (apply_perm 0 g) ps) gens).

(* the inner loop  "for c1 in self.chunks: if not c1.changed_on_last_step: continue; ...".
   paint_gray writes only gray fields, never last_layer / changed_on_last_step / last_layer_count,
   so reading those of c1 from the chunk list as it was before the loop (the list being folded
   over) is the same as reading them from the live object.  The accumulator carries the live
   chunk list and the flag chunks_used > 0. *)
Definition paint_phase (gens : list (list nat)) (cs : list chunk) : result (list chunk * bool) :=
  fold_left (fun acc c1 =>
               bind acc (fun st =>
                 if c_changed c1
                 then bind (paint_gray (fst st) (neighbors gens c1)) (fun cs'' => Ok (cs'', true))
                 else Ok st))
            cs (Ok (cs, false)).

(* one iteration of  "for i in range(1, max_diameter + 1)";  inr = leave the loop *)
Definition bfs_iter (gens : list (list nat)) (st : list chunk * list N)
  : (list chunk * list N) + result (list N) :=
  let '(cs, sizes_rev) := st in
  match paint_phase gens cs with
  | Err e => inr (Err e)
  | Ok (cs1, used) =>
      if negb used then inr (Ok (rev sizes_rev))                (* chunks_used == 0: break *)
      else
        let cs2 := flush cs1 in
        let layer_size := count_last cs2 in
        if (layer_size =? 0)%N then inr (Ok (rev sizes_rev))     (* layer_size == 0: break *)
        else inl (cs2, layer_size :: sizes_rev)
  end.

(* CayleyGraphChunkedBfs(graph).bfs(max_diameter): paint the start state, flush, and loop.
   At the depth limit the sizes collected so far are returned (layers 0..max_diameter). *)
Definition bfs_run (n : nat) (gens : list (list nat)) (start : list nat) (max_diameter : N)
  : result (list nat) :=
  do cs1 <- paint_gray (init_chunks n) [start];
  let cs2 := flush cs1 in
  match loop_N (bfs_iter gens) max_diameter (cs2, [count_last cs2]) with
  | inl (_, sizes_rev) => Ok (map N.to_nat (rev sizes_rev))
  | inr (Ok sizes) => Ok (map N.to_nat sizes)
  | inr (Err e) => Err e
  end.

Definition perm_of_size (n : nat) (p : list nat) : bool := is_perm p && (length p =? n).

(* the assertions guarding the engine *)
Definition valid_inputb (n : nat) (gens : list (list nat)) (start : list nat) : bool :=
  negb (match gens with [] => true | _ => false end)
  && forallb (perm_of_size n) gens
  && negb (n <=? RR)
  && perm_of_size n start.

(* bfs_bitmask(graph, max_diameter) for the graph with generators [gens] on n symbols and central
   state [start].  Assertions:
     CayleyGraphDef: at least one generator, every generator a permutation of range(n);
     bfs_bitmask: n > R;   CayleyGraphChunkedBfs.__init__: is_permutation(central_state).
   (A definition object cannot exist without the first group, so for raw (n, gens) that violate
   it AssertionErr is the only sensible answer; all four are the same error class, so their
   order is not observable.) *)
Definition bitmask_bfs_from (n : nat) (gens : list (list nat)) (start : list nat) (max_diameter : N)
  : result (list nat) :=
  if valid_inputb n gens start then bfs_run n gens start max_diameter else Err AssertionErr.

(* the engine as the task states it: Cayley graph, central state = identity *)
Definition bitmask_bfs (n : nat) (gens : list (list nat)) (max_diameter : N) : result (list nat) :=
  bitmask_bfs_from n gens (identity_perm n) max_diameter.

(* harness entry points: compare with an expected growth function without ever printing a
   large unary number *)
Definition growth_eqb (r : result (list nat)) (expected : list Z) : bool :=
  match r with
  | Ok sizes => z_list_eqb (map Z.of_nat sizes) expected
  | Err _ => false
  end.
Definition bitmask_growth_check (n : nat) (gens : list (list nat)) (maxd : N) (expected : list Z) : bool :=
  growth_eqb (bitmask_bfs n gens maxd) expected.
Definition bitmask_growth_check_from (n : nat) (gens : list (list nat)) (start : list nat) (maxd : N)
  (expected : list Z) : bool :=
  growth_eqb (bitmask_bfs_from n gens start maxd) expected.
(* the result with binary numbers (for printing) and the expected error class *)
Definition bitmask_bfs_Z (n : nat) (gens : list (list nat)) (maxd : N) : result (list Z) :=
  match bitmask_bfs n gens maxd with Ok l => Ok (map Z.of_nat l) | Err e => Err e end.
Definition bitmask_err_check (n : nat) (gens : list (list nat)) (maxd : N) (e : err) : bool :=
  match bitmask_bfs n gens maxd with Ok _ => false | Err e' => err_eqb e e' end.
