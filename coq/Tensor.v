(** List models of the torch / numpy primitives the library relies on. *)
From Coq Require Import ZArith List Bool Arith Lia.
From V Require Import Base.
Import ListNotations.
Open Scope Z_scope.

(* torch.searchsorted(a, v) (side='left'): plain bisection on positions [lo, hi).  The model is
   the bisection itself, so it also says what happens on an UNSORTED haystack. *)
Fixpoint bisect (fuel : nat) (a : list Z) (v : Z) (lo hi : nat) : nat :=
  match fuel with
  | O => lo
  | S f =>
      if (lo <? hi)%nat then
        let mid := ((lo + hi) / 2)%nat in
        if nth mid a 0 <? v then bisect f a v (S mid) hi else bisect f a v lo mid
      else lo
  end.
Definition lower_bound (a : list Z) (v : Z) : nat := bisect (S (length a)) a v 0 (length a).

(* torch_utils.isin_via_searchsorted(elements, test_elements_sorted) *)
Definition isin_ss1 (hay : list Z) (e : Z) : bool :=
  match hay with
  | [] => false
  | _ => let t := lower_bound hay e in
         let t' := if (length hay <=? t)%nat then (length hay - 1)%nat else t in
         nth t' hay 0 =? e
  end.
Definition isin_ss (es hay : list Z) : list bool := map (isin_ss1 hay) es.

(* torch.isin(elements, test_elements): plain membership *)
Definition isin1 (hay : list Z) (e : Z) : bool := existsb (Z.eqb e) hay.
Definition isin (es hay : list Z) : list bool := map (isin1 hay) es.

(* boolean-mask indexing x[mask] *)
Fixpoint mask_select {A} (l : list A) (m : list bool) : list A :=
  match l, m with
  | a :: t, b :: mt => if b then a :: mask_select t mt else mask_select t mt
  | _, _ => []
  end.

(* mask.nonzero()[0] *)
Fixpoint first_true (m : list bool) : option nat :=
  match m with
  | [] => None
  | b :: t => if b then Some O else option_map S (first_true t)
  end.

(* stable merge sort by an integer key: torch.sort(stable=True) *)
Section Sort.
  Context {A : Type} (key : A -> Z).
  Fixpoint merge (l1 : list A) : list A -> list A :=
    fix merge_aux (l2 : list A) : list A :=
      match l1, l2 with
      | [], _ => l2
      | _, [] => l1
      | a :: t1, b :: t2 => if key a <=? key b then a :: merge t1 l2 else b :: merge_aux t2
      end.
  Fixpoint msort_fuel (fuel : nat) (l : list A) : list A :=
    match fuel with
    | O => l
    | S f =>
        match l with
        | [] | [_] => l
        | _ => let h := (length l / 2)%nat in
               merge (msort_fuel f (firstn h l)) (msort_fuel f (skipn h l))
        end
    end.
  Definition stable_sort (l : list A) : list A := msort_fuel (length l) l.

  (* keep the first element of every run of equal keys (first-occurrence mask on a sorted list) *)
  Fixpoint dedup_adjacent (l : list A) : list A :=
    match l with
    | [] => []
    | a :: t =>
        a :: (fix skip (prev : A) (r : list A) : list A :=
                match r with
                | [] => []
                | b :: r' => if key b =? key prev then skip prev r' else b :: skip b r'
                end) a t
    end.
End Sort.

(* torch.sort on int64 / torch.unique(sorted=True) *)
Definition sort_z (l : list Z) : list Z := stable_sort (fun x => x) l.
Definition unique_sorted (l : list Z) : list Z := dedup_adjacent (fun x => x) (sort_z l).

(* torch.tensor_split(x, k): the first (len mod k) chunks have one more element *)
Fixpoint split_sizes {A} (sizes : list nat) (l : list A) : list (list A) :=
  match sizes with
  | [] => []
  | s :: rest => firstn s l :: split_sizes rest (skipn s l)
  end.
Definition tensor_split {A} (k : nat) (l : list A) : list (list A) :=
  let n := length l in
  let q := (n / k)%nat in let r := (n mod k)%nat in
  split_sizes (repeat (S q) r ++ repeat q (k - r)) l.

(* int(math.ceil(a / b)) for positive b (exact for the sizes that occur) *)
Definition ceil_div (a b : nat) : nat := ((a + b - 1) / b)%nat.

(* t.repeat(k) for a 1-D tensor *)
Definition repeat_list {A} (l : list A) (k : nat) : list A := concat (repeat l k).

(* np.setdiff1d(a, b, assume_unique=True): elements of a not in b, sorted *)
Definition setdiff1d (a b : list Z) : list Z := sort_z (filter (fun x => negb (isin1 b x)) a).

Definition is_sorted (l : list Z) : bool :=
  match l with [] => true | a :: t => (fix go (p : Z) (r : list Z) := match r with [] => true | b :: r' => (p <=? b) && go b r' end) a t end.
