(** End-to-end theorem for the NumPy BFS engine (NumpyBfs.v) on ENCODED states.

    The harness evaluates
        bfs_numpy (map (fun p => eval_prog1d (emit w n p)) perms) idx (code s0) max_diameter
    with [np_inverse_index perms = Ok idx] and [code s0] the single code word of the central state.
    This file proves that this term is the growth function of the Schreier graph on STATES
    (lists of n entries acted on by [apply_perm 0 p]), truncated at max_diameter / first empty layer.

    Structure:
     1. [np_inverse_index_spec] (+ the exact Ok/Err characterisation) for the inverse index.
     2. [layer_transport]: BFS layers commute with an encoding that is injective on a closed set
        and intertwines the two generator lists; as LISTS: layer fs [enc s0] i = map enc (layer gs [s0] i).
     3. [bfs_numpy_ext]: the engine only evaluates its generator functions on a closed set U
        containing the start word, so two generator lists that agree on U give the same run.
        [numpy_bfs_growth_on]: the growth theorem of NumpyBfsProofs.v with the inverse-index
        hypothesis restricted to a (decidable) closed set U of words - the generated routines are
        NOT invertible on arbitrary words (bits above n*w are dropped), only on codes.
     4. [numpy_bfs_encoded_growth]: the main theorem, and the worked example. *)
From Coq Require Import ZArith List Bool Arith Lia Permutation Sorted.
From V Require Import Base BaseProofs W64 W64Proofs Tensor TensorProofs Perm PermProofs
     Codec CodecBits CodecProofs Graph GraphProofs NumpyBfs NumpyBfsProofs.
Import ListNotations.
Local Open Scope nat_scope.

(* ================================================================== *)
(** * 1. The inverse index *)

(** What the model does (mirroring the Python): for every generator p, in order, it collects the
    indices j < len(perms) with perms[j] == inverse(p) and asserts that there is EXACTLY one;
    that index is the entry for p.  Any failure is an AssertionErr (whatever the position). *)

Definition inv_matches (perms : list (list nat)) (p : list nat) : list nat :=
  filter (fun j => nat_list_eqb (inverse_perm p) (nth j perms [])) (seq 0 (length perms)).

Definition inv_step (perms : list (list nat)) (p : list nat) (acc : result (list nat)) : result (list nat) :=
  do r <- acc;
  match inv_matches perms p with
  | [j] => Ok (j :: r)
  | _ => Err AssertionErr
  end.

Lemma np_inverse_index_fold perms :
  np_inverse_index perms = fold_right (inv_step perms) (Ok []) perms.
Proof. reflexivity. Qed.

Lemma inv_fold_ok perms ps idx :
  fold_right (inv_step perms) (Ok []) ps = Ok idx <->
  Forall2 (fun p j => inv_matches perms p = [j]) ps idx.
Proof.
  revert idx. induction ps as [|p ps IH]; intros idx; cbn [fold_right].
  - split.
    + intros H. injection H as <-. constructor.
    + intros H. inversion H. reflexivity.
  - unfold inv_step at 1.
    destruct (fold_right (inv_step perms) (Ok []) ps) as [r|e] eqn:Hr; cbn [bind].
    + destruct (inv_matches perms p) as [|j [|j' t]] eqn:Hm.
      * split; [discriminate|]. intros H. inversion H as [|p' j ps' idx' Hj Hrest]; subst. congruence.
      * split.
        -- intros H. injection H as <-. constructor; [exact Hm|]. apply IH. reflexivity.
        -- intros H. inversion H as [|p' j0 ps' idx' Hj Hrest]; subst.
           rewrite Hm in Hj. injection Hj as <-. apply IH in Hrest. injection Hrest as <-. reflexivity.
      * split; [discriminate|]. intros H. inversion H as [|p' j0 ps' idx' Hj Hrest]; subst. congruence.
    + split; [discriminate|]. intros H. inversion H as [|p' j0 ps' idx' Hj Hrest]; subst.
      apply IH in Hrest. discriminate.
Qed.

Lemma inv_fold_err perms ps e :
  fold_right (inv_step perms) (Ok []) ps = Err e -> e = AssertionErr.
Proof.
  revert e. induction ps as [|p ps IH]; intros e; cbn [fold_right]; [discriminate|].
  unfold inv_step at 1.
  destruct (fold_right (inv_step perms) (Ok []) ps) as [r|e'] eqn:Hr; cbn [bind].
  - destruct (inv_matches perms p) as [|j [|j' t]]; intros H; try discriminate; injection H as <-; reflexivity.
  - intros H. injection H as <-. apply IH. reflexivity.
Qed.

(* a filter over a duplicate-free list is a singleton iff exactly one element passes *)
Lemma filter_singleton_iff {A} (f : A -> bool) (l : list A) (j : A) :
  NoDup l ->
  (filter f l = [j] <-> In j l /\ f j = true /\ forall k, In k l -> f k = true -> k = j).
Proof.
  intros Hnd. split.
  - intros H.
    assert (Hj : In j (filter f l)) by (rewrite H; left; reflexivity).
    apply filter_In in Hj. destruct Hj as [Hj1 Hj2]. split; [exact Hj1|]. split; [exact Hj2|].
    intros k Hk Hfk. assert (Hin : In k (filter f l)) by (apply filter_In; auto).
    rewrite H in Hin. destruct Hin as [<- | []]. reflexivity.
  - intros (Hj & Hfj & Huniq).
    apply Permutation_length_1_inv. apply NoDup_Permutation.
    + constructor; [intros [] | constructor].
    + apply NoDup_filter. exact Hnd.
    + intros x. rewrite filter_In. split.
      * intros [<- | []]. auto.
      * intros [Hx Hfx]. left. symmetry. apply Huniq; assumption.
Qed.

(** [unique_inverse_at perms p j]: j is THE index of the inverse of p in perms *)
Definition unique_inverse_at (perms : list (list nat)) (p : list nat) (j : nat) : Prop :=
  j < length perms /\ nth j perms [] = inverse_perm p /\
  forall k, k < length perms -> nth k perms [] = inverse_perm p -> k = j.

Lemma inv_matches_singleton perms p j :
  inv_matches perms p = [j] <-> unique_inverse_at perms p j.
Proof.
  unfold inv_matches, unique_inverse_at.
  rewrite (filter_singleton_iff _ _ _ (seq_NoDup (length perms) 0)).
  rewrite in_seq, list_eqb_nat_true. split.
  - intros (Hj & He & Hu). split; [lia|]. split; [symmetry; exact He|].
    intros k Hk Hek. apply Hu; [apply in_seq; lia|]. apply list_eqb_nat_true. symmetry. exact Hek.
  - intros (Hj & He & Hu). split; [lia|]. split; [symmetry; exact He|].
    intros k Hk Hek. apply in_seq in Hk. apply Hu; [lia|]. apply list_eqb_nat_true in Hek. symmetry. exact Hek.
Qed.

Lemma Forall2_nth_iff {A B} (R : A -> B -> Prop) (l1 : list A) (l2 : list B) dA dB :
  Forall2 R l1 l2 <-> length l2 = length l1 /\ forall i, i < length l1 -> R (nth i l1 dA) (nth i l2 dB).
Proof.
  split.
  - induction 1 as [|a b l1 l2 Hab Hrest [IHl IHn]]; cbn [length].
    + split; [reflexivity|]. intros i Hi. lia.
    + split; [lia|]. intros [|i] Hi; cbn [nth]; [exact Hab|]. apply IHn. lia.
  - revert l2. induction l1 as [|a l1 IH]; intros [|b l2] [Hl Hn]; cbn [length] in *; try lia.
    + constructor.
    + constructor.
      * apply (Hn 0). lia.
      * apply IH. split; [lia|]. intros i Hi. apply (Hn (S i)). lia.
Qed.

(** Exact characterisation of success. *)
Theorem np_inverse_index_ok_iff perms idx :
  np_inverse_index perms = Ok idx <->
  length idx = length perms /\
  forall i, i < length perms -> unique_inverse_at perms (nth i perms []) (nth i idx 0).
Proof.
  rewrite np_inverse_index_fold, inv_fold_ok, (Forall2_nth_iff _ perms idx [] 0).
  split; intros [Hl Hn]; (split; [exact Hl|]); intros i Hi; apply inv_matches_singleton; apply Hn; exact Hi.
Qed.

(** (1) the specification used downstream.  No hypothesis on the generators is needed (they
    need not even be permutations): the index is correct for whatever [inverse_perm] computes. *)
Theorem np_inverse_index_spec perms idx :
  np_inverse_index perms = Ok idx ->
  length idx = length perms /\
  forall i, i < length perms ->
    nth i idx 0 < length perms /\
    nth (nth i idx 0) perms [] = inverse_perm (nth i perms []).
Proof.
  intros H. apply np_inverse_index_ok_iff in H. destruct H as [Hl Hn]. split; [exact Hl|].
  intros i Hi. destruct (Hn i Hi) as (H1 & H2 & _). auto.
Qed.

(** The model answers Ok exactly when every generator's inverse occurs exactly once in the
    list, and the only error is AssertionErr (the Python [assert len(inv) == 1]). *)
Theorem np_inverse_index_ok_exists_iff perms :
  (exists idx, np_inverse_index perms = Ok idx) <->
  forall p, In p perms -> exists j, unique_inverse_at perms p j.
Proof.
  split.
  - intros (idx & H) p Hp. apply np_inverse_index_ok_iff in H. destruct H as [Hl Hn].
    destruct (In_nth perms p [] Hp) as (i & Hi & <-). exists (nth i idx 0). apply Hn. exact Hi.
  - intros H. rewrite np_inverse_index_fold.
    assert (Hgen : forall ps, (forall p, In p ps -> exists j, unique_inverse_at perms p j) ->
                     exists idx, fold_right (inv_step perms) (Ok []) ps = Ok idx).
    { induction ps as [|p ps IH]; intros Hps.
      - exists []. reflexivity.
      - destruct IH as (r & Hr); [intros q Hq; apply Hps; right; exact Hq|].
        destruct (Hps p (or_introl eq_refl)) as (j & Hj).
        exists (j :: r). apply inv_fold_ok. constructor.
        + apply inv_matches_singleton. exact Hj.
        + apply inv_fold_ok. exact Hr. }
    apply Hgen. exact H.
Qed.

Theorem np_inverse_index_err_iff perms e :
  np_inverse_index perms = Err e <->
  e = AssertionErr /\
  exists p, In p perms /\ ~ exists j, unique_inverse_at perms p j.
Proof.
  split.
  - intros H. split; [rewrite np_inverse_index_fold in H; eapply inv_fold_err; exact H|].
    (* some generator has no unique inverse: decide by looking at the match lists *)
    assert (Hdec : forall ps, (forall p, In p ps -> exists j, unique_inverse_at perms p j) \/
                              (exists p, In p ps /\ ~ exists j, unique_inverse_at perms p j)).
    { induction ps as [|p ps [IH | (q & Hq & Hn)]].
      - left. intros p [].
      - destruct (inv_matches perms p) as [|j [|j' t]] eqn:Hm.
        + right. exists p. split; [left; reflexivity|]. intros (j & Hj).
          apply inv_matches_singleton in Hj. congruence.
        + left. intros q [<- | Hq]; [|apply IH; exact Hq]. exists j. apply inv_matches_singleton. exact Hm.
        + right. exists p. split; [left; reflexivity|]. intros (j0 & Hj).
          apply inv_matches_singleton in Hj. congruence.
      - right. exists q. split; [right; exact Hq | exact Hn]. }
    destruct (Hdec perms) as [Hall | Hex]; [|exact Hex].
    apply np_inverse_index_ok_exists_iff in Hall. destruct Hall as (idx & Hidx). congruence.
  - intros [-> (p & Hp & Hn)].
    destruct (np_inverse_index perms) as [idx|e] eqn:Hr.
    + exfalso. apply Hn.
      apply (proj1 (np_inverse_index_ok_exists_iff perms) (ex_intro _ idx Hr) p Hp).
    + f_equal. rewrite np_inverse_index_fold in Hr. eapply inv_fold_err. exact Hr.
Qed.

(* ================================================================== *)
(** * 2. Transport of BFS layers along an encoding *)

Lemma nodup_map_inj {A B} (eqA : forall a b : A, {a = b} + {a <> b})
      (eqB : forall a b : B, {a = b} + {a <> b}) (enc : A -> B) (l : list A) :
  (forall a b, In a l -> In b l -> enc a = enc b -> a = b) ->
  nodup eqB (map enc l) = map enc (nodup eqA l).
Proof.
  induction l as [|x xs IH]; intros Hinj; cbn [map nodup]; [reflexivity|].
  assert (IH' : nodup eqB (map enc xs) = map enc (nodup eqA xs)).
  { apply IH. intros a b Ha Hb. apply Hinj; right; assumption. }
  destruct (in_dec eqB (enc x) (map enc xs)) as [Hi | Hi]; destruct (in_dec eqA x xs) as [Hj | Hj].
  - exact IH'.
  - exfalso. apply in_map_iff in Hi. destruct Hi as (y & Hy & Hyin).
    apply Hj. rewrite <- (Hinj y x); [exact Hyin | right; exact Hyin | left; reflexivity | exact Hy].
  - exfalso. apply Hi. apply in_map. exact Hj.
  - cbn [map]. f_equal. exact IH'.
Qed.

Lemma filter_map_comm {A B} (P : B -> bool) (enc : A -> B) (l : list A) :
  filter P (map enc l) = map enc (filter (fun a => P (enc a)) l).
Proof.
  induction l as [|x xs IH]; cbn [map filter]; [reflexivity|].
  destruct (P (enc x)); cbn [map]; rewrite IH; reflexivity.
Qed.

Section Transport.
  Variables A B : Type.
  Variable eqA : forall a b : A, {a = b} + {a <> b}.
  Variable eqB : forall a b : B, {a = b} + {a <> b}.
  Variable gs : list (A -> A).
  Variable fs : list (B -> B).
  Variable enc : A -> B.
  Variable U : A -> Prop.

  Local Notation g i := (nth i gs (fun a : A => a)).
  Local Notation f i := (nth i fs (fun b : B => b)).

  Hypothesis Hlen : length fs = length gs.
  Hypothesis Hclosed : Graph.closed A gs U.
  Hypothesis Hinj : forall a b, U a -> U b -> enc a = enc b -> a = b.
  Hypothesis Hcomm : forall i s, i < length gs -> U s -> f i (enc s) = enc (g i s).

  Lemma N_transport l :
    (forall s, In s l -> U s) ->
    Graph.N B fs (map enc l) = map enc (Graph.N A gs l).
  Proof.
    intros Hl. unfold Graph.N. induction l as [|x xs IH]; cbn [map flat_map]; [reflexivity|].
    rewrite map_app, IH by (intros s Hs; apply Hl; right; exact Hs). f_equal.
    rewrite map_map.
    apply (nth_ext _ _ (enc x) (enc x)).
    - rewrite !map_length. exact Hlen.
    - intros i Hi. rewrite map_length in Hi.
      rewrite (nth_map_default (fun h : B -> B => h (enc x)) fs i (fun b : B => b)) by exact Hi.
      rewrite (nth_map_default (fun h : A -> A => enc (h x)) gs i (fun a : A => a)) by lia.
      apply Hcomm; [lia|]. apply Hl. left. reflexivity.
  Qed.

  Lemma N_in_U l : (forall s, In s l -> U s) -> forall t, In t (Graph.N A gs l) -> U t.
  Proof.
    intros Hl t Ht. apply N_spec in Ht. destruct Ht as (x & h & Hx & Hh & ->).
    apply Hclosed; [exact Hh | apply Hl; exact Hx].
  Qed.

  Lemma mem_transport x seen :
    U x -> (forall s, In s seen -> U s) ->
    Graph.mem B eqB (enc x) (map enc seen) = Graph.mem A eqA x seen.
  Proof.
    intros Hx Hs. destruct (Graph.mem A eqA x seen) eqn:Hm.
    - apply mem_true_iff. apply mem_true_iff in Hm. apply in_map. exact Hm.
    - apply mem_false_iff. apply mem_false_iff in Hm. intros Hc. apply Hm.
      apply in_map_iff in Hc. destruct Hc as (y & Hy & Hyin).
      rewrite <- (Hinj y x); [exact Hyin | apply Hs; exact Hyin | exact Hx | exact Hy].
  Qed.

  Variable S0 : list A.
  Hypothesis HS0 : forall s, In s S0 -> U s.

  Lemma layer_U i t : In t (Graph.layer A eqA gs S0 i) -> U t.
  Proof. apply layer_in_closed; assumption. Qed.

  Lemma seen_U i t : In t (Graph.seen_upto A eqA gs S0 i) -> U t.
  Proof.
    intros Ht. apply seen_upto_spec in Ht. destruct Ht as (k & _ & Hk). eapply layer_U. exact Hk.
  Qed.

  (** (2) the layers of the encoded graph are, as LISTS, the images of the abstract layers *)
  Theorem layer_seen_transport i :
    Graph.layer B eqB fs (map enc S0) i = map enc (Graph.layer A eqA gs S0 i) /\
    Graph.seen_upto B eqB fs (map enc S0) i = map enc (Graph.seen_upto A eqA gs S0 i).
  Proof.
    induction i as [|i [IHl IHs]].
    - rewrite !layer_0, !seen_0.
      assert (H : nodup eqB (map enc S0) = map enc (nodup eqA S0)).
      { apply nodup_map_inj. intros a b Ha Hb. apply Hinj; apply HS0; assumption. }
      split; exact H.
    - assert (HL : Graph.layer B eqB fs (map enc S0) (S i) = map enc (Graph.layer A eqA gs S0 (S i))).
      { rewrite !layer_S, IHl, IHs.
        rewrite N_transport by (intros s Hs; eapply layer_U; exact Hs).
        rewrite filter_map_comm.
        rewrite (filter_ext_in _ (fun x => negb (Graph.mem A eqA x (Graph.seen_upto A eqA gs S0 i)))).
        - apply nodup_map_inj. intros a b Ha Hb.
          apply filter_In in Ha. apply filter_In in Hb. destruct Ha as [Ha _]. destruct Hb as [Hb _].
          apply Hinj; (eapply N_in_U; [|eassumption]); intros s Hs; eapply layer_U; exact Hs.
        - intros x Hx. f_equal. apply mem_transport.
          + eapply N_in_U; [|exact Hx]. intros s Hs. eapply layer_U. exact Hs.
          + intros s Hs. eapply seen_U. exact Hs. }
      split; [exact HL|]. rewrite !seen_S, HL, IHs, map_app. reflexivity.
  Qed.

  Corollary layer_transport i :
    Graph.layer B eqB fs (map enc S0) i = map enc (Graph.layer A eqA gs S0 i).
  Proof. apply layer_seen_transport. Qed.

  Corollary layer_transport_length i :
    length (Graph.layer B eqB fs (map enc S0) i) = length (Graph.layer A eqA gs S0 i).
  Proof. rewrite layer_transport. apply map_length. Qed.

  (** the set/duplicate-free reading of the same fact *)
  Corollary layer_transport_set i :
    NoDup (Graph.layer B eqB fs (map enc S0) i) /\
    (forall y, In y (Graph.layer B eqB fs (map enc S0) i) <->
               exists s, In s (Graph.layer A eqA gs S0 i) /\ y = enc s).
  Proof.
    split; [apply layer_NoDup|]. intros y. rewrite layer_transport, in_map_iff.
    split; intros (s & H1 & H2); exists s; auto.
  Qed.
End Transport.

(* ================================================================== *)
(** * 3. The engine only looks at a closed set of words *)

Definition AllIn (U : Z -> Prop) (l : list (list Z)) : Prop := Forall (Forall U) l.

Lemma AllIn_grp U l i y : AllIn U l -> In y (nth i l []) -> U y.
Proof.
  intros Hl Hy. destruct (Nat.lt_ge_cases i (length l)) as [Hi | Hi].
  - unfold AllIn in Hl. rewrite Forall_forall in Hl.
    specialize (Hl (nth i l []) (nth_In l [] Hi)). rewrite Forall_forall in Hl. apply Hl. exact Hy.
  - rewrite nth_overflow in Hy by exact Hi. destruct Hy.
Qed.

Lemma fold_subset {I} (step : list Z -> I -> list Z) :
  (forall acc i x, In x (step acc i) -> In x acc) ->
  forall idxs a x, In x (fold_left step idxs a) -> In x a.
Proof.
  intros Hstep idxs. induction idxs as [|i rest IH]; intros a x Hx; cbn [fold_left] in Hx; [exact Hx|].
  apply (Hstep a i). apply IH. exact Hx.
Qed.

Lemma setdiff_subset a b x : In x (setdiff a b) -> In x a.
Proof. intros H. apply setdiff_In in H. tauto. Qed.

Section Ext.
  Variables fs fs' : list (Z -> Z).
  Variable inv_idx : list nat.
  Variable U : Z -> Prop.

  Local Notation pn := (length fs).
  Local Notation f i := (nth i fs (fun x : Z => x)).
  Local Notation f' i := (nth i fs' (fun x : Z => x)).

  Hypothesis Hlen : length fs' = length fs.
  Hypothesis Hagree : forall i x, i < pn -> U x -> f' i x = f i x.
  Hypothesis Hclosed : forall i x, i < pn -> U x -> U (f i x).

  Lemma make_unique_ext l : make_unique fs' l = make_unique fs l.
  Proof. unfold make_unique. rewrite Hlen. reflexivity. Qed.

  Lemma make_unique_AllIn l : AllIn U l -> AllIn U (make_unique fs l).
  Proof.
    intros Hl. unfold AllIn, make_unique. apply Forall_forall. intros grp Hg.
    apply in_map_iff in Hg. destruct Hg as ([i1 l1] & <- & Hin). apply in_combine_r in Hin.
    unfold AllIn in Hl. rewrite Forall_forall in Hl. specialize (Hl l1 Hin).
    rewrite Forall_forall in Hl. apply Forall_forall. intros x Hx. apply Hl.
    revert Hx. apply fold_subset. intros acc i y. apply setdiff_subset.
  Qed.

  Lemma raw_group_ext l0 l1 i1 :
    i1 < pn -> AllIn U l1 -> raw_group fs' inv_idx l0 l1 i1 = raw_group fs inv_idx l0 l1 i1.
  Proof.
    intros Hi Hl. unfold raw_group. rewrite Hlen. f_equal. f_equal. f_equal.
    apply map_ext. intros i2. apply map_ext_in. intros y Hy.
    apply Hagree; [exact Hi|]. eapply AllIn_grp; eassumption.
  Qed.

  Lemma raw_group_in_U l0 l1 i1 x :
    i1 < pn -> AllIn U l1 -> In x (raw_group fs inv_idx l0 l1 i1) -> U x.
  Proof.
    intros Hi Hl Hx. unfold raw_group in Hx.
    apply (fold_subset (fun st i2 => setdiff (setdiff st (nth i2 l0 [])) (nth i2 l1 []))) in Hx.
    2:{ intros acc i y Hy. apply setdiff_subset in Hy. apply setdiff_subset in Hy. exact Hy. }
    apply (Permutation_in _ (sort_z_perm _)) in Hx.
    apply in_concat in Hx. destruct Hx as (grp & Hg & Hxg).
    apply in_map_iff in Hg. destruct Hg as (i2 & <- & _).
    apply in_map_iff in Hxg. destruct Hxg as (y & <- & Hy).
    apply Hclosed; [exact Hi|]. eapply AllIn_grp; eassumption.
  Qed.

  Lemma next_layer_ext l0 l1 :
    AllIn U l1 -> next_layer fs' inv_idx l0 l1 = next_layer fs inv_idx l0 l1.
  Proof.
    intros Hl. rewrite !next_layer_eq, make_unique_ext, Hlen. f_equal.
    apply map_ext_in. intros i Hi. apply in_seq in Hi. apply raw_group_ext; [lia | exact Hl].
  Qed.

  Lemma next_layer_AllIn l0 l1 : AllIn U l1 -> AllIn U (next_layer fs inv_idx l0 l1).
  Proof.
    intros Hl. rewrite next_layer_eq. apply make_unique_AllIn.
    unfold AllIn. apply Forall_forall. intros grp Hg.
    apply in_map_iff in Hg. destruct Hg as (i & <- & Hi). apply in_seq in Hi.
    apply Forall_forall. intros x Hx. eapply raw_group_in_U; [|exact Hl|exact Hx]. lia.
  Qed.

  Lemma loop_ext n : forall l0 l1 sr,
    AllIn U l1 ->
    loop_nat (np_iter fs' inv_idx) n (l0, l1, sr) = loop_nat (np_iter fs inv_idx) n (l0, l1, sr).
  Proof.
    induction n as [|n IH]; intros l0 l1 sr Hl; cbn [loop_nat]; [reflexivity|].
    unfold np_iter. rewrite (next_layer_ext l0 l1 Hl).
    destruct (total (next_layer fs inv_idx l0 l1) =? 0); [reflexivity|].
    apply IH. apply next_layer_AllIn. exact Hl.
  Qed.

  (** two generator lists that agree on a closed set containing the start word give the same run *)
  Theorem bfs_numpy_ext start md :
    U start -> bfs_numpy fs' inv_idx start md = bfs_numpy fs inv_idx start md.
  Proof.
    intros Hs. unfold bfs_numpy. cbv zeta.
    assert (Hmap : map (fun g : Z -> Z => setdiff [g start] [start]) fs' =
                   map (fun g : Z -> Z => setdiff [g start] [start]) fs).
    { apply (nth_ext _ _ [] []).
      - rewrite !map_length. exact Hlen.
      - intros i Hi. rewrite map_length, Hlen in Hi.
        rewrite (nth_map_default (fun g : Z -> Z => setdiff [g start] [start]) fs' i (fun x : Z => x)) by lia.
        rewrite (nth_map_default (fun g : Z -> Z => setdiff [g start] [start]) fs i (fun x : Z => x)) by lia.
        rewrite Hagree by assumption. reflexivity. }
    rewrite make_unique_ext, Hmap, Hlen.
    destruct (length (unique_sorted (concat (make_unique fs (map (fun g : Z -> Z => setdiff [g start] [start]) fs)))) =? 0);
      [reflexivity|].
    rewrite !loop_N_nat, loop_ext; [reflexivity|].
    apply make_unique_AllIn. unfold AllIn. apply Forall_forall. intros grp Hg.
    apply in_map_iff in Hg. destruct Hg as (g & <- & Hgin).
    apply Forall_forall. intros x Hx. apply setdiff_subset in Hx. destruct Hx as [<- | []].
    destruct (In_nth fs g (fun x : Z => x) Hgin) as (i & Hi & <-). apply Hclosed; assumption.
  Qed.
End Ext.

(* ================================================================== *)
(** * 3b. The growth theorem relative to a closed, decidable set of words *)

Section GrowthOn.
  Variable fs : list (Z -> Z).
  Variable inv_idx : list nat.
  Variable start : Z.
  Variable inU : Z -> bool.

  Local Notation pn := (length fs).
  Local Notation f i := (nth i fs (fun x : Z => x)).
  Local Notation U := (fun x : Z => inU x = true).

  (** the inverse index is correct ON U (nothing is assumed about words outside U) *)
  Definition inverse_index_ok_on : Prop :=
    length inv_idx = pn /\
    forall i, i < pn ->
      nth i inv_idx 0 < pn /\
      (forall x, inU x = true -> f (nth i inv_idx 0) (f i x) = x) /\
      (forall x, inU x = true -> f i (f (nth i inv_idx 0) x) = x).

  Hypothesis Hstart : inU start = true.
  Hypothesis Hclosed : forall i x, i < pn -> inU x = true -> inU (f i x) = true.
  Hypothesis Hinv : inverse_index_ok_on.

  (* the generators made total bijections of Z: identity outside U *)
  Definition totalize (g : Z -> Z) : Z -> Z := fun x => if inU x then g x else x.
  Definition fs_tot : list (Z -> Z) := map totalize fs.

  Lemma fs_tot_length : length fs_tot = pn.
  Proof. apply map_length. Qed.

  Lemma fs_tot_nth i : i < pn -> nth i fs_tot (fun x : Z => x) = totalize (f i).
  Proof. intros Hi. apply (nth_map_default totalize fs i (fun x : Z => x)). exact Hi. Qed.

  Lemma fs_tot_inverse_ok : inverse_index_ok fs_tot inv_idx.
  Proof.
    destruct Hinv as [Hl Hall]. split; [rewrite fs_tot_length; exact Hl|].
    intros i Hi. rewrite fs_tot_length in Hi. destruct (Hall i Hi) as (Hj & Hleft & Hright).
    rewrite fs_tot_length. split; [exact Hj|].
    rewrite (fs_tot_nth i Hi), (fs_tot_nth _ Hj). unfold totalize.
    split; intros x; destruct (inU x) eqn:Hx.
    - rewrite (Hclosed i x Hi Hx). apply Hleft. exact Hx.
    - rewrite Hx. reflexivity.
    - rewrite (Hclosed _ x Hj Hx). apply Hright. exact Hx.
    - rewrite Hx. reflexivity.
  Qed.

  Lemma fs_tot_agree i x : i < pn -> inU x = true -> nth i fs_tot (fun x : Z => x) x = f i x.
  Proof. intros Hi Hx. rewrite (fs_tot_nth i Hi). unfold totalize. rewrite Hx. reflexivity. Qed.

  Lemma closed_U : Graph.closed Z fs U.
  Proof.
    intros g x Hg Hx. destruct (In_nth fs g (fun x : Z => x) Hg) as (i & Hi & <-).
    apply Hclosed; assumption.
  Qed.

  Lemma fs_tot_layer i :
    Graph.layer Z Z.eq_dec fs_tot [start] i = Graph.layer Z Z.eq_dec fs [start] i.
  Proof.
    pose proof (layer_transport Z Z Z.eq_dec Z.eq_dec fs fs_tot (fun x => x) U) as H.
    specialize (H fs_tot_length closed_U).
    specialize (H (fun a b _ _ Hab => Hab)).
    specialize (H (fun i s Hi Hs => fs_tot_agree i s Hi Hs)).
    specialize (H [start]).
    rewrite !map_id in H. rewrite H; [apply map_id|].
    intros s [<- | []]. exact Hstart.
  Qed.

  (** Restricted-domain growth theorem: same conclusion as [numpy_bfs_growth_takewhile], but the
      generators only have to be mutually inverse on the closed set U containing the start word. *)
  Theorem numpy_bfs_growth_on (max_diameter : BinNums.N) :
    (1 <= max_diameter)%N ->
    bfs_numpy fs inv_idx start max_diameter =
    take_nonzero (map (fun i => length (Graph.layer Z Z.eq_dec fs [start] i))
                      (seq 0 (S (N.to_nat max_diameter)))).
  Proof.
    intros Hmd.
    rewrite <- (bfs_numpy_ext fs fs_tot inv_idx U fs_tot_length fs_tot_agree Hclosed start max_diameter Hstart).
    rewrite (numpy_bfs_growth_takewhile fs_tot inv_idx start fs_tot_inverse_ok max_diameter Hmd).
    f_equal. apply map_ext. intros i. rewrite fs_tot_layer. reflexivity.
  Qed.

  (** and the [growth_cut] form *)
  Theorem numpy_bfs_growth_on_cut (max_diameter : BinNums.N) (k : nat) :
    (1 <= max_diameter)%N ->
    growth_cut fs start (N.to_nat max_diameter) k ->
    bfs_numpy fs inv_idx start max_diameter =
    map (fun i => length (Graph.layer Z Z.eq_dec fs [start] i)) (seq 0 (S k)).
  Proof.
    intros Hmd Hcut.
    rewrite <- (bfs_numpy_ext fs fs_tot inv_idx U fs_tot_length fs_tot_agree Hclosed start max_diameter Hstart).
    rewrite (numpy_bfs_growth fs_tot inv_idx start fs_tot_inverse_ok max_diameter k Hmd).
    - apply map_ext. intros i. rewrite fs_tot_layer. reflexivity.
    - destruct Hcut as (Hk & Hne & Hend). split; [exact Hk|]. split.
      + intros i Hi. rewrite fs_tot_layer. apply Hne. exact Hi.
      + rewrite fs_tot_layer. exact Hend.
  Qed.
End GrowthOn.

(* ================================================================== *)
(** * 4. Encoded states *)

Definition state_eq_dec : forall a b : list Z, {a = b} + {a <> b} := list_eq_dec Z.eq_dec.

(** the single code word of a state (the harness passes [nth 0 (encode w n s0) 0]) *)
Definition code (w n : nat) (s : list Z) : Z := nth 0 (encode w n s) 0%Z.

(** admissible states: n entries in [0, 2^w), below 2^63 (the codec's domain) *)
Definition valid_state (w n : nat) (s : list Z) : Prop :=
  length s = n /\ Forall (fun x => (0 <= x < 2 ^ Z.of_nat w)%Z /\ (x < two63)%Z) s.

Definition valid_stateb (w : nat) (s : list Z) : bool :=
  forallb (fun x => (0 <=? x)%Z && (x <? 2 ^ Z.of_nat w)%Z && (x <? two63)%Z) s.

Lemma valid_stateb_iff w s :
  valid_stateb w s = true <-> Forall (fun x => (0 <= x < 2 ^ Z.of_nat w)%Z /\ (x < two63)%Z) s.
Proof.
  unfold valid_stateb. rewrite forallb_forall, Forall_forall.
  split; intros H x Hx; specialize (H x Hx).
  - rewrite !andb_true_iff, Z.leb_le, !Z.ltb_lt in H. lia.
  - rewrite !andb_true_iff, Z.leb_le, !Z.ltb_lt. lia.
Qed.

(** the generator list acting on states, and the list of generated one-word routines *)
Definition state_gens (perms : list (list nat)) : list (list Z -> list Z) := map (apply_perm 0%Z) perms.
Definition word_gens (w n : nat) (perms : list (list nat)) : list (Z -> Z) :=
  map (fun p => eval_prog1d (emit w n p)) perms.

Definition perms_ok (n : nat) (perms : list (list nat)) : Prop :=
  Forall (fun p => Perm p /\ length p = n) perms.

Section Encoded.
  Variables w n : nat.
  Hypothesis Hw : 1 <= w <= 64.
  Hypothesis Hnw : n * w <= 64.

  Lemma enc_len_cases : (n = 0 /\ encoded_length w n = 0) \/ (1 <= n /\ encoded_length w n = 1).
  Proof.
    unfold encoded_length. destruct n as [|m].
    - left. split; reflexivity.
    - right. split; [lia|].
      assert (1 <= S m * w) by nia.
      symmetry. apply Nat.div_unique with (r := S m * w + 63 - 64); lia.
  Qed.

  Lemma encode_single s : 1 <= n -> encode w n s = [code w n s].
  Proof.
    intros Hn. destruct enc_len_cases as [[H0 _] | [_ H1]]; [lia|].
    unfold code. pose proof (encode_length w n s) as Hl. rewrite H1 in Hl.
    destruct (encode w n s) as [|a [|b t]]; cbn [length] in Hl; try lia. reflexivity.
  Qed.

  Lemma code_n0 s : n = 0 -> code w n s = 0%Z.
  Proof.
    intros Hn. unfold code. pose proof (encode_length w n s) as Hl.
    destruct enc_len_cases as [[_ H0] | [H1 _]]; [|lia]. rewrite H0 in Hl.
    destruct (encode w n s); [reflexivity | discriminate].
  Qed.

  Lemma decode_n0 e : n = 0 -> decode w n e = [].
  Proof. intros Hn. apply length_zero_iff_nil. rewrite decode_length. exact Hn. Qed.

  Lemma decode_code s : valid_state w n s -> decode w n [code w n s] = s.
  Proof.
    intros [Hl Hs]. destruct (Nat.eq_dec n 0) as [Hn | Hn].
    - rewrite decode_n0 by exact Hn. symmetry. apply length_zero_iff_nil. lia.
    - rewrite <- encode_single by lia. apply decode_encode; assumption.
  Qed.

  Lemma code_inj a b : valid_state w n a -> valid_state w n b -> code w n a = code w n b -> a = b.
  Proof.
    intros Ha Hb Hab. rewrite <- (decode_code a Ha), <- (decode_code b Hb), Hab. reflexivity.
  Qed.

  Lemma code_in64 s : in64 (code w n s).
  Proof. unfold code. apply Forall_in64_nth. apply encode_in64. Qed.

  Lemma Perm_Forall_lt p : Perm p -> length p = n -> Forall (fun v => v < n) p.
  Proof. intros Hp Hl. apply Forall_forall. intros v Hv. apply (Perm_In p v Hp) in Hv. lia. Qed.

  Lemma apply_perm_valid p s :
    Perm p -> length p = n -> valid_state w n s -> valid_state w n (apply_perm 0%Z p s).
  Proof.
    intros Hp Hl [Hsl Hs]. split; [rewrite apply_perm_length; exact Hl|].
    apply Forall_forall. intros v Hv. unfold apply_perm in Hv.
    apply in_map_iff in Hv. destruct Hv as (i & <- & Hi).
    rewrite Forall_forall in Hs. apply Hs. apply nth_In.
    apply (Perm_In p i Hp) in Hi. lia.
  Qed.

  (** the generated one-word routine acts on codes as the permutation acts on states
      (C02_emit_action + C02_emit_1d) *)
  Theorem emit1d_action p s :
    Perm p -> length p = n -> valid_state w n s ->
    eval_prog1d (emit w n p) (code w n s) = code w n (apply_perm 0%Z p s).
  Proof.
    intros Hp Hl Hs. destruct enc_len_cases as [[Hn0 _] | [Hn1 HL]].
    - (* n = 0: the routine is empty and every code is 0 *)
      rewrite (code_n0 (apply_perm 0%Z p s) Hn0).
      assert (p = []) as -> by (apply length_zero_iff_nil; lia).
      subst n. unfold emit, shift_to_mask, bit_pairs. reflexivity.
    - rewrite (eval_prog1d_eq w n p (code w n s) HL (Perm_Forall_lt p Hp Hl) (code_in64 s)).
      rewrite <- HL, <- (encode_single s Hn1).
      destruct Hs as [Hsl Hs].
      rewrite (emit_action w n p s Hw Hl (Perm_Forall_lt p Hp Hl) Hsl Hs).
      reflexivity.
  Qed.

  (** decidable "x is the code of an admissible state" *)
  Definition is_code (x : Z) : bool :=
    (code w n (decode w n [x]) =? x)%Z && valid_stateb w (decode w n [x]).

  Lemma is_code_iff x : is_code x = true <-> exists s, valid_state w n s /\ x = code w n s.
  Proof.
    unfold is_code. rewrite andb_true_iff, Z.eqb_eq, valid_stateb_iff. split.
    - intros [He Hv]. exists (decode w n [x]). split; [|symmetry; exact He].
      split; [apply decode_length | exact Hv].
    - intros (s & Hs & ->). rewrite (decode_code s Hs). split; [reflexivity|]. apply Hs.
  Qed.

  Variable perms : list (list nat).
  Hypothesis Hperms : perms_ok n perms.

  Local Notation fs := (word_gens w n perms).
  Local Notation gs := (state_gens perms).

  Lemma perms_nth i : i < length perms -> Perm (nth i perms []) /\ length (nth i perms []) = n.
  Proof.
    intros Hi. unfold perms_ok in Hperms. rewrite Forall_forall in Hperms.
    apply Hperms. apply nth_In. exact Hi.
  Qed.

  Lemma word_gens_length : length fs = length perms.
  Proof. apply map_length. Qed.

  Lemma state_gens_length : length gs = length perms.
  Proof. apply map_length. Qed.

  Lemma word_gens_nth i : i < length perms ->
    nth i fs (fun x : Z => x) = eval_prog1d (emit w n (nth i perms [])).
  Proof. intros Hi. apply (nth_map_default (fun p => eval_prog1d (emit w n p)) perms i []). exact Hi. Qed.

  Lemma state_gens_nth i : i < length perms ->
    nth i gs (fun s : list Z => s) = apply_perm 0%Z (nth i perms []).
  Proof. intros Hi. apply (nth_map_default (apply_perm 0%Z) perms i []). exact Hi. Qed.

  Lemma state_gens_closed : Graph.closed (list Z) gs (valid_state w n).
  Proof.
    intros g s Hg Hs. unfold state_gens in Hg. apply in_map_iff in Hg. destruct Hg as (p & <- & Hp).
    unfold perms_ok in Hperms. rewrite Forall_forall in Hperms. destruct (Hperms p Hp) as [HP HL].
    apply apply_perm_valid; assumption.
  Qed.

  Lemma word_state_comm i s : i < length gs -> valid_state w n s ->
    nth i fs (fun x : Z => x) (code w n s) = code w n (nth i gs (fun s : list Z => s) s).
  Proof.
    intros Hi Hs. rewrite state_gens_length in Hi.
    rewrite (word_gens_nth i Hi), (state_gens_nth i Hi).
    destruct (perms_nth i Hi) as [HP HL]. apply emit1d_action; assumption.
  Qed.

  (** (2) instantiated: the word-level layers from [code s0] are the images of the state-level
      layers from [s0], as lists *)
  Theorem encoded_layer_transport s0 i :
    valid_state w n s0 ->
    Graph.layer Z Z.eq_dec fs [code w n s0] i =
    map (code w n) (Graph.layer (list Z) state_eq_dec gs [s0] i).
  Proof.
    intros Hs0.
    apply (layer_transport (list Z) Z state_eq_dec Z.eq_dec gs fs (code w n) (valid_state w n)
             (eq_trans word_gens_length (eq_sym state_gens_length))
             state_gens_closed code_inj word_state_comm [s0]).
    intros s [<- | []]. exact Hs0.
  Qed.

  Variable idx : list nat.
  Hypothesis Hidx : np_inverse_index perms = Ok idx.

  (** the inverse index is correct for the generated routines ON CODES *)
  Lemma encoded_inverse_ok_on : inverse_index_ok_on fs idx is_code.
  Proof.
    destruct (np_inverse_index_spec perms idx Hidx) as [Hl Hall].
    split; [rewrite word_gens_length; exact Hl|].
    intros i Hi. rewrite word_gens_length in Hi. destruct (Hall i Hi) as [Hj Hinvp].
    rewrite word_gens_length. split; [exact Hj|].
    rewrite (word_gens_nth i Hi), (word_gens_nth _ Hj), Hinvp.
    destruct (perms_nth i Hi) as [HP HL].
    pose proof (inverse_is_perm _ HP) as HPi.
    assert (HLi : length (inverse_perm (nth i perms [])) = n) by (rewrite inverse_perm_length; exact HL).
    split; intros x Hx; apply is_code_iff in Hx; destruct Hx as (s & Hs & ->).
    - rewrite (emit1d_action _ s HP HL Hs).
      rewrite (emit1d_action _ _ HPi HLi (apply_perm_valid _ s HP HL Hs)).
      f_equal. apply inverse_undoes; [exact HP|]. destruct Hs as [Hsl _]. lia.
    - rewrite (emit1d_action _ s HPi HLi Hs).
      rewrite (emit1d_action _ _ HP HL (apply_perm_valid _ s HPi HLi Hs)).
      f_equal. apply inverse_undoes; [exact HP|]. destruct Hs as [Hsl _]. lia.
  Qed.

  Lemma encoded_closed i x : i < length fs -> is_code x = true -> is_code (nth i fs (fun x : Z => x) x) = true.
  Proof.
    intros Hi Hx. rewrite word_gens_length in Hi. apply is_code_iff in Hx. destruct Hx as (s & Hs & ->).
    destruct (perms_nth i Hi) as [HP HL].
    rewrite (word_gens_nth i Hi), (emit1d_action _ s HP HL Hs).
    apply is_code_iff. exists (apply_perm 0%Z (nth i perms []) s). split; [|reflexivity].
    apply apply_perm_valid; assumption.
  Qed.

  (** (3) MAIN THEOREM.  The term the harness evaluates equals the growth function of the
      Schreier graph on states: the sizes of the true BFS layers 0..max_diameter from s0 under
      the actions [apply_perm 0 p], cut at the first empty layer. *)
  Theorem numpy_bfs_encoded_growth (s0 : list Z) (max_diameter : BinNums.N) :
    valid_state w n s0 ->
    (1 <= max_diameter)%N ->
    bfs_numpy (map (fun p => eval_prog1d (emit w n p)) perms) idx (code w n s0) max_diameter =
    take_nonzero
      (map (fun i => length (Graph.layer (list Z) state_eq_dec (map (apply_perm 0%Z) perms) [s0] i))
           (seq 0 (S (N.to_nat max_diameter)))).
  Proof.
    intros Hs0 Hmd. change (map (fun p => eval_prog1d (emit w n p)) perms) with fs.
    change (map (apply_perm 0%Z) perms) with gs.
    rewrite (numpy_bfs_growth_on fs idx (code w n s0) is_code).
    - f_equal. apply map_ext. intros i. rewrite (encoded_layer_transport s0 i Hs0). apply map_length.
    - apply is_code_iff. exists s0. split; [exact Hs0 | reflexivity].
    - exact encoded_closed.
    - exact encoded_inverse_ok_on.
    - exact Hmd.
  Qed.
  (** the same with an explicit cut index k on the STATE graph: k = max_diameter, or the index of
      the last non-empty state layer, whichever is smaller (exists and is unique, cf.
      growth_cut_exists / growth_cut_unique) *)
  Definition state_growth_cut (s0 : list Z) (md k : nat) : Prop :=
    k <= md /\
    (forall i, i <= k -> Graph.layer (list Z) state_eq_dec gs [s0] i <> []) /\
    (k = md \/ Graph.layer (list Z) state_eq_dec gs [s0] (S k) = []).

  Theorem numpy_bfs_encoded_growth_cut (s0 : list Z) (max_diameter : BinNums.N) (k : nat) :
    valid_state w n s0 ->
    (1 <= max_diameter)%N ->
    state_growth_cut s0 (N.to_nat max_diameter) k ->
    bfs_numpy (map (fun p => eval_prog1d (emit w n p)) perms) idx (code w n s0) max_diameter =
    map (fun i => length (Graph.layer (list Z) state_eq_dec (map (apply_perm 0%Z) perms) [s0] i))
        (seq 0 (S k)).
  Proof.
    intros Hs0 Hmd (Hk & Hne & Hend). change (map (fun p => eval_prog1d (emit w n p)) perms) with fs.
    change (map (apply_perm 0%Z) perms) with gs.
    rewrite (numpy_bfs_growth_on_cut fs idx (code w n s0) is_code) with (k := k).
    - apply map_ext. intros i. rewrite (encoded_layer_transport s0 i Hs0). apply map_length.
    - apply is_code_iff. exists s0. split; [exact Hs0 | reflexivity].
    - exact encoded_closed.
    - exact encoded_inverse_ok_on.
    - exact Hmd.
    - split; [exact Hk|]. split.
      + intros i Hi Hc. apply (Hne i Hi). rewrite (encoded_layer_transport s0 i Hs0) in Hc.
        apply map_eq_nil in Hc. exact Hc.
      + destruct Hend as [He | He]; [left; exact He | right].
        rewrite (encoded_layer_transport s0 (S k) Hs0), He. reflexivity.
  Qed.
End Encoded.

(* ================================================================== *)
(** * 5. Examples (non-vacuity) *)

Lemma perms_ok_of_bool n perms :
  forallb (fun p => is_perm p && (length p =? n)) perms = true -> perms_ok n perms.
Proof.
  intros H. unfold perms_ok. apply Forall_forall. intros p Hp.
  rewrite forallb_forall in H. specialize (H p Hp).
  apply andb_true_iff in H. destruct H as [H1 H2].
  split; [apply is_perm_iff; exact H1 | apply Nat.eqb_eq; exact H2].
Qed.

Lemma valid_state_of_bool w n s :
  (length s =? n) && valid_stateb w s = true -> valid_state w n s.
Proof.
  intros H. apply andb_true_iff in H. destruct H as [H1 H2].
  split; [apply Nat.eqb_eq; exact H1 | apply valid_stateb_iff; exact H2].
Qed.

(** (4) a 3-cycle and its inverse, width 2, central state [0;1;2] *)
Definition ex_perms : list (list nat) := [[1; 2; 0]; [2; 0; 1]].
Definition ex_s0 : list Z := [0; 1; 2]%Z.

Example ex_perms_ok : perms_ok 3 ex_perms.
Proof. apply perms_ok_of_bool. vm_compute. reflexivity. Qed.

Example ex_idx : np_inverse_index ex_perms = Ok [1; 0].
Proof. vm_compute. reflexivity. Qed.

Example ex_idx_spec :
  length [1; 0] = length ex_perms /\
  forall i, i < length ex_perms ->
    nth i [1; 0] 0 < length ex_perms /\
    nth (nth i [1; 0] 0) ex_perms [] = inverse_perm (nth i ex_perms []).
Proof. exact (np_inverse_index_spec ex_perms [1; 0] ex_idx). Qed.

Example ex_s0_valid : valid_state 2 3 ex_s0.
Proof. apply valid_state_of_bool. vm_compute. reflexivity. Qed.

Example ex_code : code 2 3 ex_s0 = 36%Z.     (* 0 | 1<<2 | 2<<4 *)
Proof. vm_compute. reflexivity. Qed.

Example ex_w : 1 <= 2 <= 64. Proof. lia. Qed.
Example ex_nw : 3 * 2 <= 64. Proof. lia. Qed.

(* the theorem's prediction ... *)
Example ex_growth_by_theorem :
  bfs_numpy (map (fun p => eval_prog1d (emit 2 3 p)) ex_perms) [1; 0] (code 2 3 ex_s0) 10%N = [1; 2].
Proof.
  rewrite (numpy_bfs_encoded_growth 2 3 ex_w ex_nw ex_perms ex_perms_ok [1; 0] ex_idx ex_s0 10%N ex_s0_valid);
    [|lia].
  vm_compute. reflexivity.
Qed.

(* ... agrees with running the model *)
Example ex_growth_by_run :
  bfs_numpy (map (fun p => eval_prog1d (emit 2 3 p)) ex_perms) [1; 0] (code 2 3 ex_s0) 10%N = [1; 2].
Proof. vm_compute. reflexivity. Qed.

(* hypotheses of the restricted-domain theorem are inhabited by the same instance *)
Example ex_inverse_ok_on : inverse_index_ok_on (word_gens 2 3 ex_perms) [1; 0] (is_code 2 3).
Proof. exact (encoded_inverse_ok_on 2 3 ex_w ex_nw ex_perms ex_perms_ok [1; 0] ex_idx). Qed.

(* ... while the unrestricted hypothesis of numpy_bfs_growth is FALSE for it: the routines drop
   the bits above n*w, so they are not injective on arbitrary words (64 = bit 6, n*w = 6) *)
Example ex_not_invertible_on_all_words : ~ inverse_index_ok (word_gens 2 3 ex_perms) [1; 0].
Proof.
  intros [_ H]. destruct (H 0) as (_ & Hl & _); [simpl; lia|].
  specialize (Hl 64%Z). vm_compute in Hl. discriminate.
Qed.

(* layer transport on the instance: word layers are the codes of the state layers *)
Example ex_transport i :
  Graph.layer Z Z.eq_dec (word_gens 2 3 ex_perms) [code 2 3 ex_s0] i =
  map (code 2 3) (Graph.layer (list Z) state_eq_dec (state_gens ex_perms) [ex_s0] i).
Proof. exact (encoded_layer_transport 2 3 ex_w ex_nw ex_perms ex_perms_ok ex_s0 i ex_s0_valid). Qed.

Example ex_transport_layer1 :
  Graph.layer Z Z.eq_dec (word_gens 2 3 ex_perms) [code 2 3 ex_s0] 1 = [9; 18]%Z /\
  Graph.layer (list Z) state_eq_dec (state_gens ex_perms) [ex_s0] 1 = [[1; 2; 0]; [2; 0; 1]]%Z.
Proof. split; vm_compute; reflexivity. Qed.

(** S_3 generated by two transpositions (involutions: each is its own inverse), all of S_3 reached *)
Definition ex2_perms : list (list nat) := [[1; 0; 2]; [0; 2; 1]].

Example ex2_perms_ok : perms_ok 3 ex2_perms.
Proof. apply perms_ok_of_bool. vm_compute. reflexivity. Qed.
Example ex2_idx : np_inverse_index ex2_perms = Ok [0; 1].
Proof. vm_compute. reflexivity. Qed.

Example ex2_growth :
  bfs_numpy (map (fun p => eval_prog1d (emit 2 3 p)) ex2_perms) [0; 1] (code 2 3 ex_s0) 10%N = [1; 2; 2; 1].
Proof.
  rewrite (numpy_bfs_encoded_growth 2 3 ex_w ex_nw ex2_perms ex2_perms_ok [0; 1] ex2_idx ex_s0 10%N ex_s0_valid);
    [|lia].
  vm_compute. reflexivity.
Qed.

Example ex2_cut : state_growth_cut ex2_perms ex_s0 10 3.
Proof.
  split; [lia|]. split; [|right; vm_compute; reflexivity].
  intros i Hi. destruct i as [|[|[|[|i]]]]; [| | | |lia]; vm_compute; discriminate.
Qed.

Example ex2_growth_cut :
  bfs_numpy (map (fun p => eval_prog1d (emit 2 3 p)) ex2_perms) [0; 1] (code 2 3 ex_s0) 10%N = [1; 2; 2; 1].
Proof.
  rewrite (numpy_bfs_encoded_growth_cut 2 3 ex_w ex_nw ex2_perms ex2_perms_ok [0; 1] ex2_idx ex_s0 10%N 3 ex_s0_valid);
    [vm_compute; reflexivity | lia | exact ex2_cut].
Qed.

(* the depth limit cuts the growth function *)
Example ex2_growth_md2 :
  bfs_numpy (map (fun p => eval_prog1d (emit 2 3 p)) ex2_perms) [0; 1] (code 2 3 ex_s0) 2%N = [1; 2; 2].
Proof.
  rewrite (numpy_bfs_encoded_growth 2 3 ex_w ex_nw ex2_perms ex2_perms_ok [0; 1] ex2_idx ex_s0 2%N ex_s0_valid);
    [|lia].
  vm_compute. reflexivity.
Qed.
Example ex2_growth_md2_run :
  bfs_numpy (map (fun p => eval_prog1d (emit 2 3 p)) ex2_perms) [0; 1] (code 2 3 ex_s0) 2%N = [1; 2; 2].
Proof. vm_compute. reflexivity. Qed.

(** a full 64-bit word (n*w = 64): codes use the sign bit *)
Definition ex3_perms : list (list nat) := [[1; 0]].
Definition ex3_s0 : list Z := [0; 4294967295]%Z.

Example ex3_perms_ok : perms_ok 2 ex3_perms.
Proof. apply perms_ok_of_bool. vm_compute. reflexivity. Qed.
Example ex3_idx : np_inverse_index ex3_perms = Ok [0].
Proof. vm_compute. reflexivity. Qed.
Example ex3_s0_valid : valid_state 32 2 ex3_s0.
Proof. apply valid_state_of_bool. vm_compute. reflexivity. Qed.
Example ex3_code_negative : code 32 2 ex3_s0 = (-4294967296)%Z.
Proof. vm_compute. reflexivity. Qed.
Example ex3_w : 1 <= 32 <= 64. Proof. lia. Qed.
Example ex3_nw : 2 * 32 <= 64. Proof. lia. Qed.

Example ex3_growth :
  bfs_numpy (map (fun p => eval_prog1d (emit 32 2 p)) ex3_perms) [0] (code 32 2 ex3_s0) 5%N = [1; 1].
Proof.
  rewrite (numpy_bfs_encoded_growth 32 2 ex3_w ex3_nw ex3_perms ex3_perms_ok [0] ex3_idx ex3_s0 5%N ex3_s0_valid);
    [|lia].
  vm_compute. reflexivity.
Qed.
Example ex3_growth_run :
  bfs_numpy (map (fun p => eval_prog1d (emit 32 2 p)) ex3_perms) [0] (code 32 2 ex3_s0) 5%N = [1; 1].
Proof. vm_compute. reflexivity. Qed.

(** the degenerate length n = 0 is covered (empty state, code 0) *)
Example ex0_growth :
  bfs_numpy (map (fun p => eval_prog1d (emit 1 0 p)) [[]]) [0] (code 1 0 []) 5%N = [1].
Proof.
  assert (Hp : perms_ok 0 [[]]) by (apply perms_ok_of_bool; vm_compute; reflexivity).
  assert (Hi : np_inverse_index [[]] = Ok [0]) by (vm_compute; reflexivity).
  assert (Hv : valid_state 1 0 []) by (apply valid_state_of_bool; vm_compute; reflexivity).
  rewrite (numpy_bfs_encoded_growth 1 0 ltac:(lia) ltac:(lia) [[]] Hp [0] Hi [] 5%N Hv); [|lia].
  vm_compute. reflexivity.
Qed.

(** inverse index: the two ways of failing *)
Example ex_inverse_missing : np_inverse_index [[1; 2; 0]] = Err AssertionErr.
Proof. vm_compute. reflexivity. Qed.

Example ex_inverse_missing_reason :
  exists p, In p [[1; 2; 0]] /\ ~ exists j, unique_inverse_at [[1; 2; 0]] p j.
Proof. exact (proj2 (proj1 (np_inverse_index_err_iff [[1; 2; 0]] AssertionErr) ex_inverse_missing)). Qed.

Example ex_inverse_twice : np_inverse_index [[1; 0]; [1; 0]] = Err AssertionErr.
Proof. vm_compute. reflexivity. Qed.

Print Assumptions np_inverse_index_spec.
Print Assumptions np_inverse_index_ok_iff.
Print Assumptions np_inverse_index_ok_exists_iff.
Print Assumptions np_inverse_index_err_iff.
Print Assumptions layer_transport.
Print Assumptions layer_transport_length.
Print Assumptions layer_transport_set.
Print Assumptions bfs_numpy_ext.
Print Assumptions numpy_bfs_growth_on.
Print Assumptions numpy_bfs_growth_on_cut.
Print Assumptions emit1d_action.
Print Assumptions encoded_layer_transport.
Print Assumptions encoded_inverse_ok_on.
Print Assumptions numpy_bfs_encoded_growth.
Print Assumptions numpy_bfs_encoded_growth_cut.
Print Assumptions ex_growth_by_theorem.
Print Assumptions ex_not_invertible_on_all_words.
