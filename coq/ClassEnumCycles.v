(** Cycle decompositions of permutations in one-line notation, and the reference function
    [Perm.cycle_type]:
    - [orbit_from] started on an element of a cycle returns that cycle, rotated;
    - [cycle_type p] is the sorted list of the lengths of ANY cycle decomposition of p;
    - the canonical decomposition (each cycle starts with its minimum, minima increasing) is unique
      and is computed by [orbits];
    - every permutation has one.
    Used by ClassEnumGeneral.v. *)
From Coq Require Import ZArith List Bool Arith Lia Sorting.Mergesort Sorting.Permutation Sorting.Sorted.
From V Require Import Base Perm PermProofs PermCycles BitmaskProofs.
Import ListNotations.

(* ------------------------------------------------------------------------------------------- *)
(** * small list facts *)

Lemma existsb_eqb_In x l : existsb (Nat.eqb x) l = true <-> In x l.
Proof.
  rewrite existsb_exists. split.
  - intros (y & Hy & E). apply Nat.eqb_eq in E. subst. exact Hy.
  - intros H. exists x. split; [exact H|apply Nat.eqb_refl].
Qed.

Lemma existsb_eqb_false x l : existsb (Nat.eqb x) l = false <-> ~ In x l.
Proof.
  rewrite <- existsb_eqb_In. destruct (existsb (Nat.eqb x) l); split; intros H; try discriminate; auto.
  exfalso. apply H. reflexivity.
Qed.

Lemma skipn_nth_cons {A} (d : A) : forall i (l : list A), i < length l ->
  skipn i l = nth i l d :: skipn (S i) l.
Proof.
  induction i as [|i IH]; intros [|a l] H; cbn [length] in H; try lia.
  - reflexivity.
  - cbn [skipn nth]. rewrite IH by lia. reflexivity.
Qed.

Lemma sort_perm_eq l1 l2 : Permutation l1 l2 -> NatSort.sort l1 = NatSort.sort l2.
Proof.
  intros H. apply sorted_perm_unique; try apply natsort_strongly_sorted.
  eapply Permutation_trans; [apply Permutation_sym, NatSort.Permuted_sort|].
  eapply Permutation_trans; [exact H|apply NatSort.Permuted_sort].
Qed.

Lemma sort_eq_perm l1 l2 : NatSort.sort l1 = NatSort.sort l2 -> Permutation l1 l2.
Proof.
  intros H. eapply Permutation_trans; [apply NatSort.Permuted_sort|]. rewrite H.
  apply Permutation_sym, NatSort.Permuted_sort.
Qed.

Lemma sorted_lt_NoDup l : StronglySorted lt l -> NoDup l.
Proof.
  induction 1 as [|a l S IH F]; constructor; auto.
  intros Hin. rewrite Forall_forall in F. specialize (F a Hin). lia.
Qed.

Lemma sorted_lt_le l : StronglySorted lt l -> StronglySorted le l.
Proof.
  induction 1 as [|a l S IH F]; constructor; auto.
  eapply Forall_impl; [|exact F]. intros b Hb. lia.
Qed.

Lemma sorted_lt_perm_unique l1 l2 :
  StronglySorted lt l1 -> StronglySorted lt l2 -> Permutation l1 l2 -> l1 = l2.
Proof. intros H1 H2. apply sorted_perm_unique; apply sorted_lt_le; assumption. Qed.

(* ------------------------------------------------------------------------------------------- *)
(** * cycles of a one-line permutation *)

(* p maps every element of c to the next one, the last to the first *)
Definition follows (p c : list nat) : Prop :=
  forall i, i < length c -> nth (nth i c 0) p 0 = nth ((i + 1) mod length c) c 0.

Lemma follows_step p c i : follows p c -> S i < length c -> nth (nth i c 0) p 0 = nth (S i) c 0.
Proof.
  intros F H. rewrite (F i) by lia. rewrite Nat.mod_small by lia. f_equal. lia.
Qed.

Lemma follows_wrap p c : follows p c -> 1 <= length c ->
  nth (nth (length c - 1) c 0) p 0 = nth 0 c 0.
Proof.
  intros F H. rewrite (F (length c - 1)) by lia.
  replace (length c - 1 + 1) with (length c) by lia. rewrite Nat.mod_same by lia. reflexivity.
Qed.

(* a cycle decomposition of p: disjoint non-empty cycles covering 0..n-1, each followed by p *)
Record CycleDecomp (p : list nat) (cs : list (list nat)) : Prop := {
  cd_nodup : NoDup (concat cs);
  cd_cover : forall y, In y (concat cs) <-> y < length p;
  cd_nonempty : Forall (fun c => c <> []) cs;
  cd_follows : Forall (follows p) cs }.

(* the canonical shape produced by the enumeration: the head is the minimum of its cycle ... *)
Definition head_min (c : list nat) : Prop :=
  match c with [] => False | m :: r => Forall (fun y => m < y) r end.
(* ... and heads increase strictly, all above [last] *)
Fixpoint heads_incr (last : Z) (cs : list (list nat)) : Prop :=
  match cs with
  | [] => True
  | c :: t => match c with
              | [] => False
              | m :: _ => (last < Z.of_nat m)%Z /\ heads_incr (Z.of_nat m) t
              end
  end.

Lemma heads_incr_weaken cs : forall l l', (l' <= l)%Z -> heads_incr l cs -> heads_incr l' cs.
Proof.
  destruct cs as [|c t]; intros l l' Hl H; [exact I|].
  cbn [heads_incr] in *. destruct c as [|m r]; [exact H|]. destruct H as [H1 H2]. split; [lia|exact H2].
Qed.

Lemma heads_incr_In cs : forall l c, heads_incr l cs -> In c cs ->
  exists m r, c = m :: r /\ (l < Z.of_nat m)%Z.
Proof.
  induction cs as [|c0 t IH]; intros l c H Hin; [destruct Hin|].
  cbn [heads_incr] in H. destruct c0 as [|m0 r0]; [destruct H|]. destruct H as [H1 H2].
  destruct Hin as [<-|Hin].
  - exists m0, r0. split; [reflexivity|exact H1].
  - destruct (IH _ _ H2 Hin) as (m & r & E & Hm). exists m, r. split; [exact E|lia].
Qed.

Lemma head_min_nonempty c : head_min c -> c <> [].
Proof. destruct c; [intros []|discriminate]. Qed.

Lemma head_min_le c y : head_min c -> In y c -> nth 0 c 0 <= y.
Proof.
  destruct c as [|m r]; [intros []|]. cbn [head_min nth]. intros F [<-|Hy]; [lia|].
  rewrite Forall_forall in F. specialize (F y Hy). lia.
Qed.

(* ------------------------------------------------------------------------------------------- *)
(** * [orbit_from] walks along a cycle *)

Lemma orbit_from_S f p start cur :
  orbit_from (S f) p start cur =
  if nth cur p 0 =? start then [cur] else cur :: orbit_from f p start (nth cur p 0).
Proof. reflexivity. Qed.

(* from position i up to (not including) the start position j > i *)
Lemma orbit_phase1 p c : follows p c -> NoDup c -> forall j, j < length c ->
  forall d i fuel, i + d = j -> 1 <= d -> d <= fuel ->
  orbit_from fuel p (nth j c 0) (nth i c 0) = firstn d (skipn i c).
Proof.
  intros F ND j Hj. induction d as [|d IH]; intros i fuel Hi Hd Hf; [lia|].
  destruct fuel as [|f]; [lia|]. rewrite orbit_from_S.
  rewrite (follows_step p c i F) by lia.
  rewrite (skipn_nth_cons 0 i c) by lia. cbn [firstn].
  destruct (Nat.eqb_spec (nth (S i) c 0) (nth j c 0)) as [E|NE].
  - apply (proj1 (NoDup_nth c 0) ND) in E; try lia.
    replace d with 0 by lia. reflexivity.
  - assert (S i <> j) as Hne by (intros E; apply NE; rewrite E; reflexivity).
    f_equal. apply IH; lia.
Qed.

(* from position i >= j to the end of the list, then wrapping round to the start position j *)
Lemma orbit_phase2 p c : follows p c -> NoDup c -> forall j, j < length c ->
  forall d i fuel, i + d = length c -> 1 <= d -> j <= i -> d + j <= fuel ->
  orbit_from fuel p (nth j c 0) (nth i c 0) = skipn i c ++ firstn j c.
Proof.
  intros F ND j Hj. induction d as [|d IH]; intros i fuel Hi Hd Hji Hf; [lia|].
  destruct fuel as [|f]; [lia|]. rewrite orbit_from_S.
  rewrite (skipn_nth_cons 0 i c) by lia. cbn [app].
  destruct (Nat.eq_dec d 0) as [->|Hd0].
  - (* last position: wrap *)
    replace i with (length c - 1) by lia.
    rewrite (follows_wrap p c F) by lia.
    replace (S (length c - 1)) with (length c) by lia. rewrite skipn_all. cbn [app].
    destruct (Nat.eqb_spec (nth 0 c 0) (nth j c 0)) as [E|NE].
    + apply (proj1 (NoDup_nth c 0) ND) in E; try lia. subst j. reflexivity.
    + assert (j <> 0) as Hj0 by (intros E; apply NE; rewrite E; reflexivity).
      f_equal. rewrite (orbit_phase1 p c F ND j Hj j 0 f) by lia. reflexivity.
  - rewrite (follows_step p c i F) by lia.
    destruct (Nat.eqb_spec (nth (S i) c 0) (nth j c 0)) as [E|NE].
    + apply (proj1 (NoDup_nth c 0) ND) in E; lia.
    + f_equal. apply IH; lia.
Qed.

Definition rot {A} (j : nat) (c : list A) : list A := skipn j c ++ firstn j c.

Lemma rot_length {A} j (c : list A) : length (rot j c) = length c.
Proof. unfold rot. rewrite app_length, Nat.add_comm, <- app_length, firstn_skipn. reflexivity. Qed.

Lemma rot_In {A} j (c : list A) y : In y (rot j c) <-> In y c.
Proof.
  unfold rot. rewrite <- (firstn_skipn j c) at 3. rewrite !in_app_iff. tauto.
Qed.

Theorem orbit_of_cycle p c j fuel : follows p c -> NoDup c -> j < length c -> length c <= fuel ->
  orbit_from fuel p (nth j c 0) (nth j c 0) = rot j c.
Proof.
  intros F ND Hj Hf. apply (orbit_phase2 p c F ND j Hj (length c - j)); lia.
Qed.

Corollary orbit_of_cycle_head p m r fuel : follows p (m :: r) -> NoDup (m :: r) ->
  length (m :: r) <= fuel -> orbit_from fuel p m m = m :: r.
Proof.
  intros F ND Hf. pose proof (orbit_of_cycle p (m :: r) 0 fuel F ND ltac:(cbn [length]; lia) Hf) as H.
  cbn [nth] in H. rewrite H. unfold rot. cbn [skipn firstn]. apply app_nil_r.
Qed.

(* ------------------------------------------------------------------------------------------- *)
(** * the orbit list behind [cycle_type] *)

Fixpoint orbits_loop (p todo seen : list nat) : list (list nat) :=
  match todo with
  | [] => []
  | x :: t => if existsb (Nat.eqb x) seen then orbits_loop p t seen
              else let o := orbit_from (length p) p x x in
                   o :: orbits_loop p t (o ++ seen)
  end.
Definition orbits (p : list nat) : list (list nat) := orbits_loop p (seq 0 (length p)) [].

Lemma cycle_type_loop_orbits p : forall todo seen,
  cycle_type_loop p todo seen = map (@length nat) (orbits_loop p todo seen).
Proof.
  induction todo as [|x t IH]; intros seen; [reflexivity|].
  cbn [cycle_type_loop orbits_loop]. destruct (existsb (Nat.eqb x) seen); [apply IH|].
  cbv zeta. cbn [map]. rewrite IH. reflexivity.
Qed.

Lemma cycle_type_orbits p : cycle_type p = NatSort.sort (map (@length nat) (orbits p)).
Proof. unfold cycle_type, orbits. rewrite cycle_type_loop_orbits. reflexivity. Qed.

(* a cycle inside a bounded, duplicate-free list is short enough for the fuel *)
Lemma cycle_length_le c n : NoDup c -> (forall y, In y c -> y < n) -> length c <= n.
Proof.
  intros ND H. rewrite <- (seq_length n 0). apply NoDup_incl_length; [exact ND|].
  intros y Hy. apply in_seq. specialize (H y Hy). lia.
Qed.

(** ** any decomposition: the lengths found are the lengths of the cycles, as a multiset *)
Lemma NoDup_concat_middle {A} (r1 : list (list A)) c r2 :
  NoDup (concat (r1 ++ c :: r2)) -> NoDup (c ++ concat (r1 ++ r2)).
Proof.
  intros H. eapply Permutation_NoDup; [|exact H].
  rewrite !concat_app. cbn [concat]. apply Permutation_app_swap_app.
Qed.

Lemma in_concat_middle {A} (r1 : list (list A)) c r2 y :
  In y (concat (r1 ++ c :: r2)) <-> In y c \/ In y (concat (r1 ++ r2)).
Proof. rewrite !concat_app. cbn [concat]. rewrite !in_app_iff. tauto. Qed.

Lemma cycle_type_loop_general p n : n = length p ->
  forall k a seen rest, a + k = n ->
  (forall y, y < a -> In y seen) ->
  NoDup (concat rest) ->
  (forall y, In y (concat rest) -> y < n /\ ~ In y seen) ->
  (forall y, y < n -> In y seen \/ In y (concat rest)) ->
  Forall (fun c => c <> []) rest ->
  Forall (follows p) rest ->
  Permutation (cycle_type_loop p (seq a k) seen) (map (@length nat) rest).
Proof.
  intros Hn. induction k as [|k IH]; intros a seen rest Hak Hlow ND Hin Hcov HNE HF.
  - cbn [seq cycle_type_loop].
    destruct rest as [|c r]; [constructor|]. exfalso.
    pose proof (Forall_inv HNE) as Hc. destruct c as [|y c']; [apply Hc; reflexivity|].
    destruct (Hin y) as [Hy Hns]; [cbn [concat app]; left; reflexivity|].
    apply Hns. apply Hlow. lia.
  - cbn [seq cycle_type_loop].
    destruct (existsb (Nat.eqb a) seen) eqn:Ea.
    + apply existsb_eqb_In in Ea. apply IH; auto; try lia.
      intros y Hy. destruct (Nat.eq_dec y a) as [->|Hne]; [exact Ea|apply Hlow; lia].
    + apply existsb_eqb_false in Ea. cbv zeta.
      destruct (Hcov a ltac:(lia)) as [Hs|Hr]; [contradiction|].
      apply in_concat in Hr as (c & Hc & Hac).
      apply in_split in Hc as (r1 & r2 & ->).
      apply In_nth with (d := 0) in Hac as (j & Hj & Ej).
      pose proof (NoDup_concat_middle r1 c r2 ND) as ND'.
      assert (NoDup c) as NDc by (eapply NoDup_app_l; exact ND').
      assert (follows p c) as Fc.
      { rewrite Forall_forall in HF. apply HF. apply in_or_app. right. left. reflexivity. }
      assert (length c <= length p) as Hlen.
      { rewrite <- Hn. apply cycle_length_le; [exact NDc|]. intros y Hy.
        apply (Hin y). apply in_concat_middle. left. exact Hy. }
      rewrite <- Ej. rewrite (orbit_of_cycle p c j (length p) Fc NDc Hj Hlen).
      rewrite rot_length. rewrite map_app. cbn [map].
      apply Permutation_cons_app. rewrite <- map_app.
      apply IH; try lia.
      * intros y Hy. apply in_or_app. destruct (Nat.eq_dec y a) as [->|Hne].
        -- left. apply rot_In. rewrite <- Ej. apply nth_In. exact Hj.
        -- right. apply Hlow. lia.
      * eapply NoDup_app_r; exact ND'.
      * intros y Hy. destruct (Hin y) as [H1 H2]; [apply in_concat_middle; right; exact Hy|].
        split; [exact H1|]. intros H3. apply in_app_or in H3 as [H3|H3]; [|contradiction].
        apply rot_In in H3. eapply NoDup_app_disj; [exact ND'|exact H3|exact Hy].
      * intros y Hy. destruct (Hcov y Hy) as [H1|H1].
        -- left. apply in_or_app. right. exact H1.
        -- apply in_concat_middle in H1 as [H1|H1].
           ++ left. apply in_or_app. left. apply rot_In. exact H1.
           ++ right. exact H1.
      * apply Forall_app in HNE as [N1 N2]. inversion N2; subst. apply Forall_app. split; assumption.
      * apply Forall_app in HF as [F1 F2]. inversion F2; subst. apply Forall_app. split; assumption.
Qed.

Theorem cycle_type_of_decomp p cs : CycleDecomp p cs -> cycle_type p = NatSort.sort (map (@length nat) cs).
Proof.
  intros [ND Hcov HNE HF]. unfold cycle_type. apply sort_perm_eq.
  apply (cycle_type_loop_general p (length p) eq_refl (length p) 0 [] cs); auto.
  - intros y Hy. lia.
  - intros y Hy. split; [apply Hcov; exact Hy|intros []].
  - intros y Hy. right. apply Hcov. exact Hy.
Qed.

(* ------------------------------------------------------------------------------------------- *)
(** * the canonical decomposition is unique: it is [orbits p] *)

Lemma orbits_loop_canon_unique p n : n = length p ->
  forall k a seen rest, a + k = n ->
  (forall y, y < a -> In y seen) ->
  NoDup (concat rest) ->
  (forall y, In y (concat rest) -> y < n /\ ~ In y seen) ->
  (forall y, y < n -> In y seen \/ In y (concat rest)) ->
  Forall (follows p) rest ->
  Forall head_min rest ->
  heads_incr (Z.of_nat a - 1) rest ->
  orbits_loop p (seq a k) seen = rest.
Proof.
  intros Hn. induction k as [|k IH]; intros a seen rest Hak Hlow ND Hin Hcov HF HM HI.
  - cbn [seq orbits_loop].
    destruct rest as [|c r]; [reflexivity|]. exfalso.
    pose proof (Forall_inv HM) as Hc. destruct c as [|y c']; [exact Hc|].
    destruct (Hin y) as [Hy Hns]; [cbn [concat app]; left; reflexivity|].
    apply Hns. apply Hlow. lia.
  - cbn [seq orbits_loop].
    destruct (existsb (Nat.eqb a) seen) eqn:Ea.
    + apply existsb_eqb_In in Ea. apply IH; auto; try lia.
      * intros y Hy. destruct (Nat.eq_dec y a) as [->|Hne]; [exact Ea|apply Hlow; lia].
      * destruct rest as [|c r]; [exact I|]. cbn [heads_incr] in *.
        destruct c as [|m c']; [exact HI|]. destruct HI as [H1 H2]. split; [|exact H2].
        assert (m <> a).
        { intros ->. destruct (Hin a) as [_ Hns]; [cbn [concat app]; left; reflexivity|]. contradiction. }
        lia.
    + apply existsb_eqb_false in Ea. cbv zeta.
      destruct (Hcov a ltac:(lia)) as [Hs|Hr]; [contradiction|].
      destruct rest as [|c0 r]; [destruct Hr|].
      cbn [heads_incr] in HI. destruct c0 as [|m o]; [destruct HI|]. destruct HI as [HI1 HI2].
      pose proof (Forall_inv HM) as HM0. pose proof (Forall_inv_tail HM) as HMr.
      pose proof (Forall_inv HF) as HF0. pose proof (Forall_inv_tail HF) as HFr.
      cbn [concat] in ND, Hr.
      assert (m = a) as ->.
      { apply in_app_or in Hr as [Hr|Hr].
        - pose proof (head_min_le (m :: o) a HM0 Hr) as Hle. cbn [nth] in Hle. lia.
        - apply in_concat in Hr as (c' & Hc' & Hac').
          destruct (heads_incr_In r _ c' HI2 Hc') as (m' & r' & -> & Hm').
          rewrite Forall_forall in HMr. pose proof (head_min_le (m' :: r') a (HMr _ Hc') Hac') as Hle.
          cbn [nth] in Hle. lia. }
      assert (NoDup (a :: o)) as NDc by (eapply NoDup_app_l; exact ND).
      assert (length (a :: o) <= length p) as Hlen.
      { rewrite <- Hn. apply cycle_length_le; [exact NDc|]. intros y Hy.
        apply (Hin y). cbn [concat]. apply in_or_app. left. exact Hy. }
      rewrite (orbit_of_cycle_head p a o (length p) HF0 NDc Hlen). f_equal.
      apply IH; try lia; auto.
      * intros y Hy. apply in_or_app. destruct (Nat.eq_dec y a) as [->|Hne].
        -- left. left. reflexivity.
        -- right. apply Hlow. lia.
      * eapply NoDup_app_r; exact ND.
      * intros y Hy. destruct (Hin y) as [H1 H2]; [cbn [concat]; apply in_or_app; right; exact Hy|].
        split; [exact H1|]. intros H3. apply in_app_or in H3 as [H3|H3]; [|contradiction].
        eapply NoDup_app_disj; [exact ND|exact H3|exact Hy].
      * intros y Hy. destruct (Hcov y Hy) as [H1|H1].
        -- left. apply in_or_app. right. exact H1.
        -- cbn [concat] in H1. apply in_app_or in H1 as [H1|H1].
           ++ left. apply in_or_app. left. exact H1.
           ++ right. exact H1.
      * replace (Z.of_nat (S a) - 1)%Z with (Z.of_nat a) by lia. exact HI2.
Qed.

(* canonical decompositions *)
Record Canon (p : list nat) (cs : list (list nat)) : Prop := {
  cn_nodup : NoDup (concat cs);
  cn_cover : forall y, In y (concat cs) <-> y < length p;
  cn_follows : Forall (follows p) cs;
  cn_head_min : Forall head_min cs;
  cn_heads : heads_incr (-1) cs }.

Lemma Canon_decomp p cs : Canon p cs -> CycleDecomp p cs.
Proof.
  intros [H1 H2 H3 H4 H5]. split; auto.
  eapply Forall_impl; [|exact H4]. intros c. apply head_min_nonempty.
Qed.

Theorem canon_unique p cs : Canon p cs -> orbits p = cs.
Proof.
  intros [ND Hcov HF HM HI]. unfold orbits.
  apply (orbits_loop_canon_unique p (length p) eq_refl (length p) 0 [] cs); auto.
  - intros y Hy. lia.
  - intros y Hy. split; [apply Hcov; exact Hy|intros []].
  - intros y Hy. right. apply Hcov. exact Hy.
Qed.

(* ------------------------------------------------------------------------------------------- *)
(** * every permutation has a canonical decomposition *)

Fixpoint it (p : list nat) (k x : nat) : nat :=
  match k with O => x | S k' => nth (it p k' x) p 0 end.

Lemma it_lt p x k : Perm p -> x < length p -> it p k x < length p.
Proof. intros HP Hx. induction k as [|k IH]; cbn [it]; [exact Hx|]. apply Perm_lt; auto. Qed.

Lemma it_cancel p x : Perm p -> x < length p ->
  forall i d, it p i x = it p (i + d) x -> it p d x = x.
Proof.
  intros HP Hx. induction i as [|i IH]; intros d E.
  - cbn [it Nat.add] in E. symmetry. exact E.
  - cbn [it Nat.add] in E. apply Perm_inj in E; auto using it_lt.
Qed.

Lemma bounded_ex_dec (Q : nat -> Prop) : (forall k, {Q k} + {~ Q k}) ->
  forall n, (exists k, 1 <= k <= n /\ Q k) \/ (forall k, 1 <= k <= n -> ~ Q k).
Proof.
  intros dec. induction n as [|n [IH|IH]].
  - right. intros k Hk. lia.
  - left. destruct IH as (k & Hk & HQ). exists k. split; [lia|exact HQ].
  - destruct (dec (S n)) as [HQ|HQ].
    + left. exists (S n). split; [lia|exact HQ].
    + right. intros k Hk. destruct (Nat.eq_dec k (S n)) as [->|Hne]; [exact HQ|apply IH; lia].
Qed.

Lemma least_witness (Q : nat -> Prop) : (forall k, {Q k} + {~ Q k}) ->
  forall n, (exists k, 1 <= k <= n /\ Q k) ->
  exists L, 1 <= L <= n /\ Q L /\ forall k, 1 <= k < L -> ~ Q k.
Proof.
  intros dec. induction n as [|n IH]; intros (k & Hk & HQ); [lia|].
  destruct (bounded_ex_dec Q dec n) as [Hex|Hno].
  - destruct (IH Hex) as (L & HL & HQL & Hmin). exists L. split; [lia|]. split; assumption.
  - exists (S n). assert (k = S n) as ->.
    { destruct (Nat.eq_dec k (S n)); [assumption|]. exfalso. apply (Hno k); [lia|exact HQ]. }
    split; [lia|]. split; [exact HQ|]. intros k' Hk'. apply Hno. lia.
Qed.

Lemma it_returns p x : Perm p -> x < length p ->
  exists L, 1 <= L <= length p /\ it p L x = x /\ forall k, 1 <= k < L -> it p k x <> x.
Proof.
  intros HP Hx. set (n := length p).
  apply (least_witness (fun k => it p k x = x)); [intros k; apply Nat.eq_dec|].
  destruct (bounded_ex_dec (fun k => it p k x = x) (fun k => Nat.eq_dec _ _) n) as [Hex|Hno];
    [exact Hex|exfalso].
  assert (NoDup (map (fun i => it p i x) (seq 0 (S n)))) as ND.
  { apply NoDup_map_inj; [apply seq_NoDup|].
    intros i j Hi Hj E. apply in_seq in Hi, Hj.
    destruct (lt_eq_lt_dec i j) as [[Hlt|Heq]|Hgt]; [|exact Heq|]; exfalso.
    - apply (Hno (j - i)); [lia|]. apply (it_cancel p x HP Hx i). rewrite E. f_equal. lia.
    - apply (Hno (i - j)); [lia|]. apply (it_cancel p x HP Hx j). rewrite <- E. f_equal. lia. }
  assert (incl (map (fun i => it p i x) (seq 0 (S n))) (seq 0 n)) as Hincl.
  { intros y Hy. apply in_map_iff in Hy as (i & <- & _). apply in_seq.
    pose proof (it_lt p x i HP Hx) as Hlt. fold n in Hlt. lia. }
  pose proof (NoDup_incl_length ND Hincl) as Hle. rewrite map_length, !seq_length in Hle. lia.
Qed.

(* the orbit of x as a cycle starting at x *)
Lemma Perm_cycle_through p x : Perm p -> x < length p ->
  exists r, NoDup (x :: r) /\ follows p (x :: r) /\ (forall y, In y (x :: r) -> y < length p) /\
            (forall y, In y (x :: r) -> In (nth y p 0) (x :: r)) /\
            (forall y, In y (x :: r) -> exists k, it p k y = x).
Proof.
  intros HP Hx. destruct (it_returns p x HP Hx) as (L & HL & HLx & Hmin).
  set (c := map (fun i => it p i x) (seq 0 L)).
  assert (length c = L) as Hlen by (unfold c; rewrite map_length, seq_length; reflexivity).
  assert (forall i, i < L -> nth i c 0 = it p i x) as Hnth.
  { intros i Hi. unfold c. rewrite (nth_map_lt _ _ i 0 0) by (rewrite seq_length; exact Hi).
    rewrite seq_nth by exact Hi. reflexivity. }
  assert (c = x :: tl c) as Hc.
  { unfold c. destruct L as [|L']; [lia|]. reflexivity. }
  exists (tl c). rewrite <- Hc.
  assert (forall y, In y c -> exists i, i < L /\ y = it p i x) as Hinv.
  { intros y Hy. unfold c in Hy. apply in_map_iff in Hy as (i & <- & Hi). apply in_seq in Hi.
    exists i. split; [lia|reflexivity]. }
  assert (forall i, i < L -> In (it p i x) c) as Hin.
  { intros i Hi. rewrite <- Hnth by exact Hi. apply nth_In. lia. }
  split; [|split; [|split; [|split]]].
  - unfold c. apply NoDup_map_inj; [apply seq_NoDup|].
    intros i j Hi Hj E. apply in_seq in Hi, Hj.
    destruct (lt_eq_lt_dec i j) as [[Hlt|Heq]|Hgt]; [|exact Heq|]; exfalso.
    + apply (Hmin (j - i)); [lia|]. apply (it_cancel p x HP Hx i). rewrite E. f_equal. lia.
    + apply (Hmin (i - j)); [lia|]. apply (it_cancel p x HP Hx j). rewrite <- E. f_equal. lia.
  - intros i Hi. rewrite Hlen in *. rewrite Hnth by exact Hi.
    destruct (Nat.eq_dec (S i) L) as [E|NE].
    + replace (i + 1) with L by lia. rewrite Nat.mod_same by lia. rewrite Hnth by lia.
      cbn [it]. change (it p (S i) x = x). rewrite E. exact HLx.
    + rewrite Nat.mod_small by lia. rewrite Hnth by lia. replace (i + 1) with (S i) by lia. reflexivity.
  - intros y Hy. destruct (Hinv y Hy) as (i & _ & ->). apply it_lt; auto.
  - intros y Hy. destruct (Hinv y Hy) as (i & Hi & ->). change (In (it p (S i) x) c).
    destruct (Nat.eq_dec (S i) L) as [E|NE].
    + rewrite E, HLx. apply (Hin 0). lia.
    + apply Hin. lia.
  - intros y Hy. destruct (Hinv y Hy) as (i & Hi & ->). exists (L - i).
    assert (forall a b, it p a (it p b x) = it p (a + b) x) as Hadd.
    { induction a as [|a IHa]; intros b; cbn [it Nat.add]; [reflexivity|]. rewrite IHa. reflexivity. }
    rewrite Hadd. replace (L - i + i) with L by lia. exact HLx.
Qed.

Lemma orbits_loop_canon_exists p n : Perm p -> n = length p ->
  forall k a seen, a + k = n ->
  (forall y, y < a -> In y seen) ->
  (forall y, In y seen -> In (nth y p 0) seen) ->
  let os := orbits_loop p (seq a k) seen in
  NoDup (concat os) /\
  (forall y, In y (concat os) <-> y < n /\ ~ In y seen) /\
  Forall (follows p) os /\ Forall head_min os /\ heads_incr (Z.of_nat a - 1) os.
Proof.
  intros HP Hn. induction k as [|k IH]; intros a seen Hak Hlow Hclosed; cbv zeta.
  - cbn [seq orbits_loop concat heads_incr]. split; [constructor|]. split; [|auto].
    intros y. split; [intros []|]. intros [Hy Hns]. apply Hns. apply Hlow. lia.
  - cbn [seq orbits_loop].
    destruct (existsb (Nat.eqb a) seen) eqn:Ea.
    + apply existsb_eqb_In in Ea.
      destruct (IH (S a) seen ltac:(lia)) as (I1 & I2 & I3 & I4 & I5); auto.
      { intros y Hy. destruct (Nat.eq_dec y a) as [->|Hne]; [exact Ea|apply Hlow; lia]. }
      cbv zeta in *. split; [exact I1|]. split; [exact I2|]. split; [exact I3|]. split; [exact I4|].
      eapply heads_incr_weaken; [|exact I5]. lia.
    + apply existsb_eqb_false in Ea. cbv zeta.
      destruct (Perm_cycle_through p a HP ltac:(lia)) as (r & NDc & Fc & Hlt & Hcl & Hback).
      assert (length (a :: r) <= length p) as Hlen by (apply cycle_length_le; auto).
      rewrite (orbit_of_cycle_head p a r (length p) Fc NDc Hlen).
      (* the orbit avoids [seen]: [seen] is closed under p and the orbit leads back to a *)
      assert (forall y k', In y seen -> In (it p k' y) seen) as Hcl_it.
      { intros y k' Hy. induction k' as [|k' IHk]; cbn [it]; [exact Hy|]. apply Hclosed. exact IHk. }
      assert (forall y, In y (a :: r) -> ~ In y seen) as Hdisj.
      { intros y Hy Hs. destruct (Hback y Hy) as (k' & Ek). apply Ea. rewrite <- Ek. apply Hcl_it. exact Hs. }
      destruct (IH (S a) ((a :: r) ++ seen) ltac:(lia)) as (I1 & I2 & I3 & I4 & I5).
      { intros y Hy. apply in_or_app. destruct (Nat.eq_dec y a) as [->|Hne].
        - left. left. reflexivity.
        - right. apply Hlow. lia. }
      { intros y Hy. apply in_or_app. apply in_app_or in Hy as [Hy|Hy].
        - left. apply Hcl. exact Hy.
        - right. apply Hclosed. exact Hy. }
      cbv zeta in *. set (os := orbits_loop p (seq (S a) k) ((a :: r) ++ seen)) in *.
      cbn [concat]. split; [|split; [|split; [|split]]].
      * apply NoDup_app_intro; auto.
        intros y H1 H2. apply I2 in H2 as [_ H2]. apply H2. apply in_or_app. left. exact H1.
      * intros y. rewrite in_app_iff. split.
        -- intros [Hy|Hy].
           ++ split; [rewrite Hn; apply Hlt; exact Hy|apply Hdisj; exact Hy].
           ++ apply I2 in Hy as [H1 H2]. split; [exact H1|]. intros H3. apply H2. apply in_or_app. right. exact H3.
        -- intros [H1 H2]. destruct (in_dec Nat.eq_dec y (a :: r)) as [Hy|Hy]; [left; exact Hy|].
           right. apply I2. split; [exact H1|]. intros H3. apply in_app_or in H3 as [H3|H3]; contradiction.
      * constructor; assumption.
      * constructor; [|assumption]. cbn [head_min]. apply Forall_forall. intros y Hy.
        inversion NDc as [|? ? Hna _]; subst.
        assert (y <> a) by (intros ->; contradiction).
        assert (~ y < a).
        { intros Hlt'. apply (Hdisj y); [right; exact Hy|apply Hlow; exact Hlt']. }
        lia.
      * cbn [heads_incr]. split; [lia|].
        replace (Z.of_nat (S a) - 1)%Z with (Z.of_nat a) in I5 by lia. exact I5.
Qed.

Theorem orbits_canon p : Perm p -> Canon p (orbits p).
Proof.
  intros HP.
  destruct (orbits_loop_canon_exists p (length p) HP eq_refl (length p) 0 []) as (I1 & I2 & I3 & I4 & I5);
    auto; try (intros y Hy; lia || destruct Hy).
  cbv zeta in *. fold (orbits p) in *. split; auto.
  intros y. rewrite I2. split; [intros [H _]; exact H|]. intros H. split; [exact H|intros []].
Qed.

Print Assumptions cycle_type_of_decomp.
Print Assumptions canon_unique.
Print Assumptions orbits_canon.
