(** Derived copies of a graph description share hashes with their origin (formal content of C14's
    "results of copies can be combined"): the hash of a state depends on the description only through
    the hasher and the way a row is encoded ([row_code]); [with_flag] / [env_of] keep both. *)
From Coq Require Import ZArith List Bool Arith Lia.
From V Require Import Base W64 Tensor Hash Perm Codec Matrix GraphImpl Def Bfs BfsRun Paths PathRun.
Import ListNotations.
Open Scope Z_scope.

(* ------------------------------------------------------------------ *)
(** * 1. What the hash depends on *)

(* how a decoded state becomes the row that is hashed: Some (w, n) = bit-encoded with width w and n symbols
   (only permutation graphs with a width are encoded), None = the state itself *)
Definition row_code (d : gdesc) : option (nat * nat) :=
  match g_kind d, g_width d with
  | GPerm _, Some w => Some (w, length (g_central d))
  | _, _ => None
  end.

Definition row_of_code (c : option (nat * nat)) (s : state) : list Z :=
  match c with Some (w, n) => encode w n s | None => s end.

Definition unrow_of_code (c : option (nat * nat)) (h : Z) : state :=
  match c with Some (w, n) => decode w n [h] | None => [h] end.

Lemma encoded_row_code d s : encoded_row d s = row_of_code (row_code d) s.
Proof. unfold encoded_row, row_code, row_of_code. destruct (g_kind d), (g_width d); reflexivity. Qed.

Lemma hashf_code steps mult d s :
  hashf (mk_impl steps mult d) s = make_hash steps mult (g_hasher d) (row_of_code (row_code d) s).
Proof. cbn [hashf mk_impl]. rewrite encoded_row_code. reflexivity. Qed.

Lemma unword_code steps mult d h :
  unword (mk_impl steps mult d) h = unrow_of_code (row_code d) h.
Proof. cbn [unword mk_impl]. unfold row_code, unrow_of_code. destruct (g_kind d), (g_width d); reflexivity. Qed.

(* two descriptions "encode rows alike and hash alike" *)
Definition same_rows (d1 d2 : gdesc) : Prop := row_code d1 = row_code d2 /\ g_hasher d1 = g_hasher d2.

(* the general statement: ANY two descriptions with the same row code and hasher have the same hash
   function, the same identity flag and the same un-hashing map, for any hash constants *)
Theorem same_rows_share_mk steps mult d1 d2 :
  same_rows d1 d2 ->
  (forall s, hashf (mk_impl steps mult d1) s = hashf (mk_impl steps mult d2) s) /\
  is_identity (mk_impl steps mult d1) = is_identity (mk_impl steps mult d2) /\
  (forall h, unword (mk_impl steps mult d1) h = unword (mk_impl steps mult d2) h).
Proof.
  intros [Hc Hh]. repeat split.
  - intros s. rewrite !hashf_code, Hc, Hh. reflexivity.
  - cbn [is_identity mk_impl]. rewrite Hh. reflexivity.
  - intros h. rewrite !unword_code, Hc. reflexivity.
Qed.

Theorem same_rows_share d1 d2 :
  same_rows d1 d2 ->
  (forall s, hashf (impl_of d1) s = hashf (impl_of d2) s) /\
  is_identity (impl_of d1) = is_identity (impl_of d2) /\
  (forall h, unword (impl_of d1) h = unword (impl_of d2) h).
Proof. apply same_rows_share_mk. Qed.

(* the row code is exact: it is determined by the row map (so [same_rows] is not stronger than needed
   as far as the encoding goes) *)
Lemma row_code_complete d1 d2 :
  row_code d1 = row_code d2 -> forall s, encoded_row d1 s = encoded_row d2 s.
Proof. intros H s. rewrite !encoded_row_code, H. reflexivity. Qed.

(* ------------------------------------------------------------------ *)
(** * 2. [with_flag]: replacing the generators *)

Definition same_family (k1 k2 : gkind) : bool :=
  match k1, k2 with
  | GPerm _, GPerm _ => true
  | GMatrix _ _ _ _, GMatrix _ _ _ _ => true
  | _, _ => false
  end.

Lemma same_family_refl k : same_family k k = true.
Proof. destruct k; reflexivity. Qed.

(* the exact condition for a copy with other generators: same family of generators, or un-encoded *)
Definition flag_rows_alike (d : gdesc) (k : gkind) : Prop :=
  same_family (g_kind d) k = true \/ g_width d = None.

Lemma with_flag_row_code d k : flag_rows_alike d k -> row_code (with_flag d k) = row_code d.
Proof.
  unfold flag_rows_alike, row_code, with_flag. cbn [g_kind g_width g_central].
  intros [H | H].
  - destruct (g_kind d), k; try discriminate H; reflexivity.
  - rewrite H. destruct (g_kind d), k; reflexivity.
Qed.

(* conversely, when the condition fails the row codes differ (so the condition is exact) *)
Lemma with_flag_row_code_conv d k : row_code (with_flag d k) = row_code d -> flag_rows_alike d k.
Proof.
  unfold flag_rows_alike, row_code, with_flag. cbn [g_kind g_width g_central].
  destruct (g_kind d), k, (g_width d); cbn [same_family]; intros H; try discriminate H; auto.
Qed.

Lemma with_flag_same_rows d k : flag_rows_alike d k -> same_rows (with_flag d k) d.
Proof. intros H. split; [apply with_flag_row_code; exact H|reflexivity]. Qed.

Theorem with_flag_shares_hash d k :
  flag_rows_alike d k -> forall s, hashf (impl_of (with_flag d k)) s = hashf (impl_of d) s.
Proof. intros H. apply (same_rows_share _ _ (with_flag_same_rows d k H)). Qed.

Theorem with_flag_shares_identity d k :
  is_identity (impl_of (with_flag d k)) = is_identity (impl_of d).
Proof. reflexivity. Qed.

Theorem with_flag_shares_unword d k :
  flag_rows_alike d k -> forall h, unword (impl_of (with_flag d k)) h = unword (impl_of d) h.
Proof. intros H. apply (same_rows_share _ _ (with_flag_same_rows d k H)). Qed.

Theorem with_flag_shares_central d k : central (impl_of (with_flag d k)) = central (impl_of d).
Proof. reflexivity. Qed.

(* ------------------------------------------------------------------ *)
(** * 3. [env_of]: a graph and its inverted copy *)

Lemma inverted_kind_family k im ik : inverted_kind k im = Some ik -> same_family k ik = true.
Proof.
  destruct k as [perms | modulo n m mats]; cbn [inverted_kind].
  - intros H. inversion H. reflexivity.
  - destruct (_ && _); intros H; inversion H. reflexivity.
Qed.

Lemma inverted_kind_n_gens d im ik :
  inverted_kind (g_kind d) im = Some ik ->
  length (acts (impl_of (with_flag d ik))) = length (acts (impl_of (with_flag d (g_kind d)))).
Proof.
  unfold impl_of. cbn [acts mk_impl with_flag g_kind].
  destruct (g_kind d) as [perms | modulo n m mats]; cbn [inverted_kind].
  - intros H. inversion H. rewrite !map_length. unfold inverted_perms. apply map_length.
  - destruct ((length mats =? length im)%nat) eqn:E; cbn [andb]; [|discriminate].
    destruct (forallb _ _); intros H; inversion H. rewrite !map_length.
    apply Nat.eqb_eq in E. symmetry. exact E.
Qed.

Theorem env_of_shares d im e :
  env_of d im = Some e ->
  (forall s, hashf (pe_Ginv e) s = hashf (pe_G e) s) /\
  central (pe_Ginv e) = central (pe_G e) /\
  is_identity (pe_Ginv e) = is_identity (pe_G e) /\
  (forall h, unword (pe_Ginv e) h = unword (pe_G e) h) /\
  length (acts (pe_Ginv e)) = length (acts (pe_G e)).
Proof.
  unfold env_of. destruct (inverted_kind (g_kind d) im) as [ik|] eqn:E; [|discriminate].
  intros H. inversion H; subst e; clear H. cbn [pe_G pe_Ginv].
  pose proof (inverted_kind_family _ im _ E) as F.
  assert (flag_rows_alike d ik) as A1 by (left; exact F).
  assert (flag_rows_alike d (g_kind d)) as A2 by (left; apply same_family_refl).
  repeat split.
  - intros s. rewrite (with_flag_shares_hash d ik A1), (with_flag_shares_hash d (g_kind d) A2). reflexivity.
  - intros h. rewrite (with_flag_shares_unword d ik A1), (with_flag_shares_unword d (g_kind d) A2). reflexivity.
  - apply (inverted_kind_n_gens d im ik E).
Qed.

(* both copies also share everything with the ORIGIN d (the object the user built) *)
Theorem env_of_shares_origin d im e :
  env_of d im = Some e ->
  (forall s, hashf (pe_G e) s = hashf (impl_of d) s) /\
  (forall s, hashf (pe_Ginv e) s = hashf (impl_of d) s) /\
  acts (pe_G e) = acts (impl_of d) /\
  central (pe_G e) = central (impl_of d) /\ central (pe_Ginv e) = central (impl_of d) /\
  is_identity (pe_G e) = is_identity (impl_of d) /\ is_identity (pe_Ginv e) = is_identity (impl_of d).
Proof.
  unfold env_of. destruct (inverted_kind (g_kind d) im) as [ik|] eqn:E; [|discriminate].
  intros H. inversion H; subst e; clear H. cbn [pe_G pe_Ginv].
  pose proof (inverted_kind_family _ im _ E) as F.
  assert (flag_rows_alike d ik) as A1 by (left; exact F).
  assert (flag_rows_alike d (g_kind d)) as A2 by (left; apply same_family_refl).
  split; [apply with_flag_shares_hash; exact A2|].
  split; [apply with_flag_shares_hash; exact A1|].
  repeat split; reflexivity.
Qed.

(* the three facts the path theorems (C04 / C12) ask for, one by one *)
Corollary env_of_same_hash d im e : env_of d im = Some e -> forall s, hashf (pe_Ginv e) s = hashf (pe_G e) s.
Proof. intros H. apply (env_of_shares d im e H). Qed.
Corollary env_of_same_central d im e : env_of d im = Some e -> central (pe_Ginv e) = central (pe_G e).
Proof. intros H. apply (env_of_shares d im e H). Qed.
Corollary env_of_same_identity d im e : env_of d im = Some e -> is_identity (pe_Ginv e) = is_identity (pe_G e).
Proof. intros H. apply (env_of_shares d im e H). Qed.
Corollary env_of_same_len d im e : env_of d im = Some e -> length (acts (pe_Ginv e)) = length (acts (pe_G e)).
Proof. intros H. apply (env_of_shares d im e H). Qed.

(* a collision-free hash of the origin is collision-free for both copies *)
Corollary env_of_nocoll d im e (U : state -> Prop) :
  env_of d im = Some e ->
  (forall a b, U a -> U b -> hashf (impl_of d) a = hashf (impl_of d) b -> a = b) ->
  (forall a b, U a -> U b -> hashf (pe_G e) a = hashf (pe_G e) b -> a = b) /\
  (forall a b, U a -> U b -> hashf (pe_Ginv e) a = hashf (pe_Ginv e) b -> a = b).
Proof.
  intros He NC. destruct (env_of_shares_origin d im e He) as (H1 & H2 & _).
  split; intros a b Ua Ub; rewrite ?H1, ?H2; apply NC; assumption.
Qed.

(* ------------------------------------------------------------------ *)
(** * 4. Non-vacuity *)

(* a permutation graph, bit-encoded (width 2): its inverted copy shares the hash *)
Definition ex_perm_desc : gdesc :=
  {| g_kind := GPerm [[1;2;3;0]%nat; [1;0;2;3]%nat]; g_central := [0;1;2;3]; g_width := Some 2%nat;
     g_hasher := HIdentity; g_inv_closed := false |}.

Example ex_perm_env : exists e, env_of ex_perm_desc [] = Some e.
Proof. eexists. reflexivity. Qed.

Example ex_perm_flag_alike : flag_rows_alike ex_perm_desc (GPerm [[3;0;1;2]%nat; [1;0;2;3]%nat]).
Proof. left. reflexivity. Qed.

(* the condition is not void: a matrix copy of an ENCODED permutation description is rejected *)
Example ex_perm_flag_not_alike : ~ flag_rows_alike ex_perm_desc (GMatrix 5 1 1 [[[1]]]).
Proof. intros [H | H]; discriminate H. Qed.

(* ... and really hashes differently *)
Example ex_perm_flag_not_alike_hash :
  hashf (impl_of (with_flag ex_perm_desc (GMatrix 5 1 1 [[[1]]]))) [0;1;2;3] <> hashf (impl_of ex_perm_desc) [0;1;2;3].
Proof. vm_compute. discriminate. Qed.

Print Assumptions same_rows_share.
Print Assumptions with_flag_shares_hash.
Print Assumptions with_flag_row_code_conv.
Print Assumptions env_of_shares.
Print Assumptions env_of_shares_origin.
Print Assumptions env_of_nocoll.
