(** Correctness of the path-restoration model (Paths.v): restore_path / find_path_to /
    find_path_from over the per-layer hash lists of a BFS ball, and revert_path (Def.v). *)
From Coq Require Import ZArith List Bool Arith Lia Sorted.
From V Require Import Base W64 Tensor TensorProofs Graph GraphProofs GraphImpl Def Paths BfsStep.
Import ListNotations.
Open Scope Z_scope.

(* ------------------------------------------------------------------ *)
(** * Generic helpers *)

Lemma SSlt_sortedZ l : StronglySorted Z.lt l -> sortedZ l.
Proof.
  unfold sortedZ. induction 1 as [|a l Hs IH Hall].
  - constructor.
  - constructor; [exact IH|].
    eapply Forall_impl; [|exact Hall]. intros b Hb. simpl in Hb. lia.
Qed.

Lemma nth_error_lt_some {A} (l : list A) i : (i < length l)%nat -> exists x, nth_error l i = Some x.
Proof.
  intros H. destruct (nth_error l i) as [x|] eqn:E.
  - exists x. reflexivity.
  - apply nth_error_None in E. lia.
Qed.

Lemma nth_error_some_lt {A} (l : list A) i x : nth_error l i = Some x -> (i < length l)%nat.
Proof. intros H. apply nth_error_Some. congruence. Qed.

Lemma nth_isin_true i es hay :
  nth i (isin es hay) false = true -> (i < length es)%nat /\ In (nth i es 0) hay.
Proof.
  unfold isin. intros H.
  destruct (lt_dec i (length es)) as [Hlt | Hge].
  - split; [exact Hlt|].
    rewrite (nth_indep _ false (isin1 hay 0)) in H by (rewrite map_length; exact Hlt).
    rewrite map_nth in H. apply isin1_iff. exact H.
  - rewrite nth_overflow in H by (rewrite map_length; lia). discriminate.
Qed.

Lemma firstn_S_snoc {A} (d : A) (l : list A) : forall i,
  (i < length l)%nat -> firstn (S i) l = firstn i l ++ [nth i l d].
Proof.
  induction l as [|a t IH]; intros i Hi; simpl in Hi; [lia|].
  destruct i as [|i].
  - reflexivity.
  - change (firstn (S (S i)) (a :: t)) with (a :: firstn (S i) t).
    rewrite (IH i) by lia. reflexivity.
Qed.

(* find_layer returns the first index (offset by the start counter) whose list contains h *)
Lemma find_layer_some h ls : forall k i,
  find_layer h ls k = Some i <->
  (k <= i)%nat /\ (i - k < length ls)%nat /\ isin_ss1 (nth (i - k) ls []) h = true /\
  (forall j, (j < i - k)%nat -> isin_ss1 (nth j ls []) h = false).
Proof.
  induction ls as [|l rest IH]; intros k i.
  - simpl. split; [discriminate|]. intros (_ & H & _). lia.
  - cbn [find_layer]. destruct (isin_ss1 l h) eqn:E.
    + split.
      * intros H. inversion H; subst i. replace (k - k)%nat with 0%nat by lia.
        simpl. repeat split; try lia. exact E.
      * intros (Hk & Hlen & Hin & Hmin).
        destruct (Nat.eq_dec i k) as [-> | Hne]; [reflexivity|].
        exfalso. specialize (Hmin 0%nat ltac:(lia)). simpl in Hmin. congruence.
    + rewrite IH. split.
      * intros (Hk & Hlen & Hin & Hmin).
        replace (i - k)%nat with (S (i - S k)) by lia. simpl.
        repeat split; try lia; auto.
        intros [|j] Hj; [exact E|]. apply Hmin. lia.
      * intros (Hk & Hlen & Hin & Hmin).
        assert (Hne : i <> k).
        { intros ->. replace (k - k)%nat with 0%nat in Hin by lia. simpl in Hin. congruence. }
        replace (i - k)%nat with (S (i - S k)) in * by lia. simpl in Hlen, Hin.
        repeat split; try lia; auto.
        intros j Hj. apply (Hmin (S j)). lia.
Qed.

Lemma find_layer_none h ls : forall k,
  find_layer h ls k = None <-> (forall j, (j < length ls)%nat -> isin_ss1 (nth j ls []) h = false).
Proof.
  induction ls as [|l rest IH]; intros k.
  - simpl. split; [intros _ j Hj; lia | reflexivity].
  - cbn [find_layer]. destruct (isin_ss1 l h) eqn:E.
    + split; [discriminate|]. intros H. specialize (H 0%nat ltac:(simpl; lia)). simpl in H. congruence.
    + rewrite IH. split.
      * intros H [|j] Hj; [exact E|]. simpl. apply H. simpl in Hj. lia.
      * intros H j Hj. apply (H (S j)). simpl. lia.
Qed.

(* ------------------------------------------------------------------ *)
(** * The section of the statement *)

Section PathsCorrect.
  Variable G Ginv : impl.
  Variable U : state -> Prop.
  Hypothesis U_closed : closed state (acts G) U.
  Hypothesis U_closed_inv : closed state (acts Ginv) U.
  Hypothesis NoColl : forall a b, U a -> U b -> hashf G a = hashf G b -> a = b.
  Hypothesis same_len : length (acts Ginv) = length (acts G).
  (* generator i of the inverted graph undoes generator i (C10) *)
  Hypothesis inv_undo : forall i g gi x, nth_error (acts G) i = Some g -> nth_error (acts Ginv) i = Some gi -> U x ->
                         g (gi x) = x /\ gi (g x) = x.
  Variable c : state.                 (* the central state: the ball was computed from [c] *)
  Hypothesis c_U : U c.
  Notation L i := (layer state st_eq_dec (acts G) [c] i).
  (* what a ball with hashes looks like *)
  Definition ball_ok (lh : list (list Z)) : Prop :=
    forall i, (i < length lh)%nat ->
      StronglySorted Z.lt (nth i lh []) /\ (forall h, In h (nth i lh []) <-> exists t, In t (L i) /\ hashf G t = h).

  (* ---------------------------------------------------------------- *)
  (* basic facts about the layers *)

  Lemma layer_U i t : In t (L i) -> U t.
  Proof.
    intros H. eapply (layer_in_closed state st_eq_dec (acts G) U [c] i t); eauto.
    intros s [<- | []]. exact c_U.
  Qed.

  Lemma layer0_c t : In t (L 0) -> t = c.
  Proof.
    rewrite layer_0. rewrite nodup_In. intros [<- | []]. reflexivity.
  Qed.

  (* membership of the hash in H_i is membership of the state in L i (for states of U) *)
  Lemma hash_in_layer lh i q :
    ball_ok lh -> (i < length lh)%nat -> U q ->
    (In (hashf G q) (nth i lh []) <-> In q (L i)).
  Proof.
    intros Hb Hi Hq. destruct (Hb i Hi) as [_ Hm]. rewrite Hm. split.
    - intros (t & Ht & Hh). assert (t = q) as <-; [|exact Ht].
      apply NoColl; auto. eapply layer_U; eauto.
    - intros H. exists q. split; auto.
  Qed.

  Lemma isin_ss1_layer lh i q :
    ball_ok lh -> (i < length lh)%nat -> U q ->
    (isin_ss1 (nth i lh []) (hashf G q) = true <-> In q (L i)).
  Proof.
    intros Hb Hi Hq. destruct (Hb i Hi) as [Hs _].
    rewrite isin_ss1_sorted by (apply SSlt_sortedZ; exact Hs).
    apply hash_in_layer; auto.
  Qed.

  (* ---------------------------------------------------------------- *)
  (* one backward step *)

  Lemma cand_nth cur i gi :
    nth_error (acts Ginv) i = Some gi ->
    nth i (map (fun g : state -> state => g cur) (acts Ginv)) [] = gi cur.
  Proof.
    intros H. apply nth_error_nth.
    apply (map_nth_error (fun g : state -> state => g cur)) in H. exact H.
  Qed.

  Lemma cand_hash_nth cur i gi :
    nth_error (acts Ginv) i = Some gi ->
    nth i (map (hashf G) (map (fun g : state -> state => g cur) (acts Ginv))) 0 = hashf G (gi cur).
  Proof.
    intros H. apply nth_error_nth.
    apply (map_nth_error (fun g : state -> state => g cur)) in H.
    apply (map_nth_error (hashf G)) in H. exact H.
  Qed.

  Lemma restore_step_ok lh j path cur :
    ball_ok lh -> (j < length lh)%nat -> In cur (L (S j)) ->
    exists i g x,
      restore_step G Ginv (Ok (path, cur)) (nth j lh []) = Ok (i :: path, x) /\
      nth_error (acts G) i = Some g /\ In x (L j) /\ g x = cur.
  Proof.
    intros Hb Hj Hcur.
    assert (HUcur : U cur) by (eapply layer_U; eauto).
    unfold restore_step. cbn [bind].
    set (cands := map (fun g : state -> state => g cur) (acts Ginv)).
    set (mask := isin (map (hashf G) cands) (nth j lh [])).
    destruct (first_true mask) as [i|] eqn:E.
    - (* whichever index is returned, it is a valid predecessor *)
      apply first_true_spec in E. destruct E as [Ht _].
      unfold mask in Ht. apply nth_isin_true in Ht. destruct Ht as [Hlt Hin].
      unfold cands in Hlt. rewrite !map_length in Hlt.
      destruct (nth_error_lt_some (acts Ginv) i Hlt) as (gi & Hgi).
      destruct (nth_error_lt_some (acts G) i ltac:(lia)) as (g & Hg).
      unfold cands in Hin. rewrite (cand_hash_nth cur i gi Hgi) in Hin.
      assert (HUx : U (gi cur)).
      { apply U_closed_inv; auto. eapply nth_error_In; eauto. }
      apply (hash_in_layer lh j (gi cur) Hb Hj HUx) in Hin.
      exists i, g, (gi cur). unfold cands. rewrite (cand_nth cur i gi Hgi).
      repeat split; auto.
      destruct (inv_undo i g gi cur Hg Hgi HUcur) as [H1 _]. exact H1.
    - (* the mask cannot be all false: a predecessor exists *)
      exfalso.
      apply (layer_succ_spec state st_eq_dec (acts G) [c] j cur) in Hcur.
      destruct Hcur as [HN _].
      apply (N_spec state (acts G)) in HN. destruct HN as (x & g & Hx & Hg & Heq).
      apply In_nth_error in Hg. destruct Hg as (i & Hg).
      pose proof (nth_error_some_lt _ _ _ Hg) as Hlt.
      destruct (nth_error_lt_some (acts Ginv) i ltac:(lia)) as (gi & Hgi).
      assert (HUx : U x) by (eapply layer_U; eauto).
      destruct (inv_undo i g gi x Hg Hgi HUx) as [_ H2].
      pose proof (proj1 (first_true_none mask) E i) as Hf.
      assert (Ht : nth i mask false = true).
      { unfold mask, isin.
        apply nth_error_nth.
        assert (Hc : nth_error (map (hashf G) cands) i = Some (hashf G (gi cur))).
        { unfold cands.
          apply (map_nth_error (hashf G)).
          apply (map_nth_error (fun g0 : state -> state => g0 cur)). exact Hgi. }
        apply (map_nth_error (isin1 (nth j lh []))) in Hc. rewrite Hc. f_equal.
        apply isin1_iff. rewrite Heq, H2.
        apply (hash_in_layer lh j x Hb Hj HUx). exact Hx. }
      congruence.
  Qed.

  (* ---------------------------------------------------------------- *)
  (* the backward walk *)

  Lemma restore_fold_ok lh : forall i path cur,
    ball_ok lh -> (i <= length lh)%nat -> In cur (L i) ->
    exists p s, fold_left (restore_step G Ginv) (rev (firstn i lh)) (Ok (path, cur)) = Ok (p ++ path, s) /\
                length p = i /\ run state (acts G) c p = Some cur.
  Proof.
    induction i as [|j IH]; intros path cur Hb Hi Hcur.
    - exists [], cur. simpl. repeat split; auto.
      apply layer0_c in Hcur. subst. reflexivity.
    - rewrite (firstn_S_snoc [] lh j) by lia.
      rewrite rev_app_distr. cbn [rev app fold_left].
      destruct (restore_step_ok lh j path cur Hb ltac:(lia) Hcur) as (i' & g & x & Hstep & Hg & Hx & Hgx).
      rewrite Hstep.
      destruct (IH (i' :: path) x Hb ltac:(lia) Hx) as (p & s & Hfold & Hlen & Hrun).
      exists (p ++ [i']), s. rewrite <- app_assoc. cbn [app].
      split; [exact Hfold|]. split.
      + rewrite app_length. simpl. lia.
      + rewrite (run_app state (acts G)). rewrite Hrun. simpl. rewrite Hg, Hgx. reflexivity.
  Qed.

  (* backward walk: from a state of layer i, restore_path over H_0..H_{i-1} yields a real path of
     length i from c; in particular the internal assertion "Not found any neighbor on previous
     layer" cannot fire there *)
  Theorem restore_path_correct lh i q :
    ball_ok lh -> (i <= length lh)%nat -> In q (L i) ->
    exists p, restore_path G Ginv (firstn i lh) q = Ok p /\ length p = i /\ run state (acts G) c p = Some q.
  Proof.
    intros Hb Hi Hq.
    destruct (restore_fold_ok lh i [] q Hb Hi Hq) as (p & s & Hfold & Hlen & Hrun).
    exists p. unfold restore_path. rewrite Hfold. cbn [bind]. rewrite app_nil_r. auto.
  Qed.

  (* ---------------------------------------------------------------- *)
  (* find_path_to *)

  (* the layer index found is the layer of q *)
  Lemma find_layer_in lh q i :
    ball_ok lh -> U q -> find_layer (hashf G q) lh 0 = Some i ->
    (i < length lh)%nat /\ In q (L i).
  Proof.
    intros Hb Hq H. apply find_layer_some in H. destruct H as (_ & Hlt & Hin & _).
    rewrite Nat.sub_0_r in *. split; [exact Hlt|].
    apply (isin_ss1_layer lh i q Hb Hlt Hq). exact Hin.
  Qed.

  Lemma find_layer_none_iff lh q :
    ball_ok lh -> U q ->
    (find_layer (hashf G q) lh 0 = None <-> forall i, (i < length lh)%nat -> ~ In q (L i)).
  Proof.
    intros Hb Hq. rewrite find_layer_none. split.
    - intros H i Hi Hin. apply (isin_ss1_layer lh i q Hb Hi Hq) in Hin.
      rewrite (H i Hi) in Hin. discriminate.
    - intros H j Hj. destruct (isin_ss1 (nth j lh []) (hashf G q)) eqn:E; [|reflexivity].
      exfalso. apply (H j Hj). apply (isin_ss1_layer lh j q Hb Hj Hq). exact E.
  Qed.

  (* shape of a successful call *)
  Lemma find_path_to_some_inv lh ns q p :
    ball_ok lh -> U q -> find_path_to G Ginv lh ns q = Ok (Some p) ->
    length lh = ns /\ exists i, (i < length lh)%nat /\ In q (L i) /\ length p = i /\
                                run state (acts G) c p = Some q.
  Proof.
    intros Hb Hq H. unfold find_path_to in H.
    destruct (length lh =? ns)%nat eqn:El; cbn [negb] in H; [|discriminate].
    apply Nat.eqb_eq in El. split; [exact El|].
    destruct (find_layer (hashf G q) lh 0) as [i|] eqn:Ef; [|discriminate].
    destruct (find_layer_in lh q i Hb Hq Ef) as [Hlt Hin].
    destruct (restore_path_correct lh i q Hb ltac:(lia) Hin) as (p0 & Hr & Hlen & Hrun).
    rewrite Hr in H. cbn [bind] in H. inversion H; subst p0.
    exists i. auto.
  Qed.

  Theorem find_path_to_sound lh ns q p :
    ball_ok lh -> U q -> find_path_to G Ginv lh ns q = Ok (Some p) ->
    run state (acts G) c p = Some q /\ dist_is state (acts G) [c] q (length p) /\ (length p < length lh)%nat.
  Proof.
    intros Hb Hq H.
    destruct (find_path_to_some_inv lh ns q p Hb Hq H) as (_ & i & Hlt & Hin & Hlen & Hrun).
    split; [exact Hrun|]. rewrite Hlen. split; [|exact Hlt].
    apply (ref_layers_dist state st_eq_dec (acts G)). exact Hin.
  Qed.

  Theorem find_path_to_complete lh ns q :
    ball_ok lh -> U q -> length lh = ns ->
    (find_path_to G Ginv lh ns q = Ok None <-> forall i, (i < length lh)%nat -> ~ In q (L i)) /\
    (exists r, find_path_to G Ginv lh ns q = Ok r).          (* never an error for a well-formed ball *)
  Proof.
    intros Hb Hq Hns. unfold find_path_to.
    apply Nat.eqb_eq in Hns. rewrite Hns. cbn [negb].
    destruct (find_layer (hashf G q) lh 0) as [i|] eqn:Ef.
    - destruct (find_layer_in lh q i Hb Hq Ef) as [Hlt Hin].
      destruct (restore_path_correct lh i q Hb ltac:(lia) Hin) as (p0 & Hr & Hlen & Hrun).
      rewrite Hr. cbn [bind]. split.
      + split; [discriminate|]. intros H. exfalso. exact (H i Hlt Hin).
      + exists (Some p0). reflexivity.
    - split.
      + split; [|reflexivity]. intros _. apply (find_layer_none_iff lh q Hb Hq). exact Ef.
      + exists None. reflexivity.
  Qed.

  Corollary find_path_to_shortest lh ns q p :
    ball_ok lh -> U q -> find_path_to G Ginv lh ns q = Ok (Some p) ->
    forall p', run state (acts G) c p' = Some q -> (length p <= length p')%nat.
  Proof.
    intros Hb Hq H p' Hrun'.
    destruct (find_path_to_sound lh ns q p Hb Hq H) as (_ & [_ Hmin] & _).
    destruct (le_lt_dec (length p) (length p')) as [Hle | Hgt]; [exact Hle|].
    exfalso. apply (Hmin (length p') Hgt).
    apply (walk_reach state (acts G)). exact Hrun'.
  Qed.

  (* ---------------------------------------------------------------- *)
  (* reverting a path *)

  (* reverting a path: with an inverse map m (generator (m i) undoes generator i), a path a -> b reverts to b -> a *)
  Theorem revert_path_valid (m : list nat) a b p :
    (forall i g, nth_error (acts G) i = Some g -> exists g', nth_error (acts G) (nth i m 0%nat) = Some g' /\ forall x, U x -> g' (g x) = x) ->
    U a -> run state (acts G) a p = Some b ->
    exists q, revert_path (Some m) p = Ok q /\ length q = length p /\ run state (acts G) b q = Some a.
  Proof.
    intros Hm Ha Hrun. unfold revert_path.
    exists (map (fun i => nth i m 0%nat) (rev p)). split; [reflexivity|]. split.
    - rewrite map_length, rev_length. reflexivity.
    - revert a Ha Hrun. induction p as [|i rest IH]; intros a Ha Hrun.
      + simpl in *. inversion Hrun; subst. reflexivity.
      + cbn [run] in Hrun. destruct (nth_error (acts G) i) as [g|] eqn:Hg; [|discriminate].
        assert (HUg : U (g a)).
        { apply U_closed; auto. eapply nth_error_In; eauto. }
        specialize (IH (g a) HUg Hrun).
        cbn [rev]. rewrite map_app. rewrite (run_app state (acts G)). rewrite IH.
        destruct (Hm i g Hg) as (g' & Hg' & Hundo).
        simpl. rewrite Hg'. rewrite (Hundo a Ha). reflexivity.
  Qed.

  Theorem find_path_from_sound (m : list nat) lh ns q p :
    (forall i g, nth_error (acts G) i = Some g -> exists g', nth_error (acts G) (nth i m 0%nat) = Some g' /\ forall x, U x -> g' (g x) = x) ->
    ball_ok lh -> U q -> find_path_from G Ginv (Some m) lh ns q = Ok (Some p) ->
    run state (acts G) q p = Some c /\ dist_is state (acts G) [c] q (length p).
  Proof.
    intros Hm Hb Hq H. unfold find_path_from in H.
    destruct (inv_closed G); cbn [negb] in H; [|discriminate].
    destruct (find_path_to G Ginv lh ns q) as [r|e] eqn:Ef; cbn [bind] in H; [|discriminate].
    destruct r as [p0|]; [|discriminate].
    destruct (find_path_to_sound lh ns q p0 Hb Hq Ef) as (Hrun & Hdist & _).
    destruct (revert_path_valid m c q p0 Hm c_U Hrun) as (q' & Hrev & Hlen & Hrun').
    rewrite Hrev in H. cbn [bind] in H. inversion H; subst q'.
    rewrite Hlen. split; assumption.
  Qed.
End PathsCorrect.

Print Assumptions restore_path_correct.
Print Assumptions find_path_to_sound.
Print Assumptions find_path_to_complete.
Print Assumptions find_path_to_shortest.
Print Assumptions revert_path_valid.
Print Assumptions find_path_from_sound.
