(** The constants and small functions regenerated from /repo (gen/Consts.v, translator T1) agree with
    the hand-written model, and satisfy the side conditions the theorems need.  Re-checked on every run. *)
From Coq Require Import ZArith List Bool Arith Lia.
From V Require Import Base W64 Codec Hash HashChunk CodecExtra.
From V.gen Require Import Consts.
Import ListNotations.
Open Scope Z_scope.

Lemma codeword_length_tie : codeword_length = CL.
Proof. reflexivity. Qed.

Lemma range_forallb (f : Z -> bool) n :
  forallb f (map Z.of_nat (seq 0 n)) = true -> forall b, 0 <= b < Z.of_nat n -> f b = true.
Proof.
  intros H b Hb. rewrite forallb_forall in H. apply H. apply in_map_iff. exists (Z.to_nat b).
  split; [lia|]. apply in_seq. lia.
Qed.

Theorem one_shifted_tie b : 0 <= b < 64 -> one_shifted_src b = one_shifted b.
Proof.
  intros Hb. apply Z.eqb_eq.
  apply (range_forallb (fun b => one_shifted_src b =? one_shifted b) 64); [vm_compute; reflexivity|lia].
Qed.

Theorem mask_with_high_zeros_tie k : 0 <= k < 65 -> mask_with_high_zeros_src k = mask_with_high_zeros k.
Proof.
  intros Hk. apply Z.eqb_eq.
  apply (range_forallb (fun b => mask_with_high_zeros_src b =? mask_with_high_zeros b) 65); [vm_compute; reflexivity|lia].
Qed.

(* the mixer of the current source is built from bijective steps; the fold multiplier is odd *)
Theorem splitmix_steps_ok : forallb step_ok splitmix_steps = true.
Proof. vm_compute. reflexivity. Qed.

Theorem hash_mult_odd : Z.odd hash_mult = true.
Proof. vm_compute. reflexivity. Qed.

(* the automatic width computed by the source expression is the model's *)
Theorem auto_width_tie mx : auto_width_src mx = Z.of_nat (auto_width_fixed mx).
Proof. unfold auto_width_src, auto_width_fixed. lia. Qed.
