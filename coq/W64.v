(** Signed 64-bit machine words (torch/numpy int64) as [Z], with explicit wrap-around. *)
From Coq Require Import ZArith List Bool Lia.
Import ListNotations.
Open Scope Z_scope.

Definition two63 : Z := 9223372036854775808.
Definition two64 : Z := 18446744073709551616.

Definition wrap (z : Z) : Z := (z + two63) mod two64 - two63.
Definition in64 (z : Z) : Prop := - two63 <= z < two63.

(* the int64 operations of torch / numpy / numba *)
Definition w_add (x y : Z) : Z := wrap (x + y).
Definition w_mul (x y : Z) : Z := wrap (x * y).
Definition w_shl (x k : Z) : Z := wrap (Z.shiftl x k).
Definition w_sar (x k : Z) : Z := Z.shiftr x k.           (* arithmetic shift: sign is kept *)
Definition w_and (x y : Z) : Z := Z.land x y.
Definition w_or  (x y : Z) : Z := Z.lor x y.
Definition w_xor (x y : Z) : Z := Z.lxor x y.
(* logical right shift of a signed word by 0 <= k < 64 *)
Definition w_shr (x k : Z) : Z := Z.shiftr (x mod two64) k.
