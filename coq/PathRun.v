(** Glue for evaluating the path-finding models on harness cases. *)
From Coq Require Import ZArith List Bool Arith Lia.
From V Require Import Base W64 Tensor Hash Perm Matrix GraphImpl Def Bfs BfsRun Paths Interactive Mitm.
Import ListNotations.
Open Scope Z_scope.

Definition kind_inverse_map (k : gkind) : option (list nat) :=
  match k with
  | GPerm perms => perm_inverse_map perms
  | GMatrix modulo n _ mats => matrix_inverse_map modulo n mats
  end.

(* the inverted definition: inverse permutations are computed by the model; inverse matrices are the
   implementation's (oracle-backed) ones and must pass the two-sided product check *)
Definition inverted_kind (k : gkind) (inv_mats : list (list (list Z))) : option gkind :=
  match k with
  | GPerm perms => Some (GPerm (inverted_perms perms))
  | GMatrix modulo n m mats =>
      if (length mats =? length inv_mats)%nat
         && forallb (fun '(A, B) => is_inverse_to modulo n A B) (combine mats inv_mats)
      then Some (GMatrix modulo n m inv_mats) else None
  end.

Definition with_flag (d : gdesc) (k : gkind) : gdesc :=
  {| g_kind := k; g_central := g_central d; g_width := g_width d; g_hasher := g_hasher d;
     g_inv_closed := is_some (kind_inverse_map k) |}.

Record path_env := { pe_G : impl; pe_Ginv : impl; pe_invmap : option (list nat); pe_flag_ok : bool }.

Definition env_of (d : gdesc) (inv_mats : list (list (list Z))) : option path_env :=
  match inverted_kind (g_kind d) inv_mats with
  | None => None
  | Some ik =>
      Some {| pe_G := impl_of (with_flag d (g_kind d)); pe_Ginv := impl_of (with_flag d ik);
              pe_invmap := kind_inverse_map (g_kind d);
              pe_flag_ok := Bool.eqb (g_inv_closed d) (is_some (kind_inverse_map (g_kind d))) |}
  end.

(* the ball: graph.bfs(max_diameter=D, return_all_hashes=True) with default options *)
Definition ball_cfg (D : N) (explore : Z) : bfs_cfg :=
  {| batch_size := 1048576; max_store := 1000; max_explore := explore; max_diameter := D;
     ret_edges := false; ret_hashes := true; no_batching := false; stop := None |}.

Definition ball_of (G : impl) (batch : Z) (D : N) (explore : Z) (starts : list state) : result (list (list Z) * nat) :=
  do o <- bfs G {| batch_size := batch; max_store := 1000; max_explore := explore; max_diameter := D;
                   ret_edges := false; ret_hashes := true; no_batching := false; stop := None |} starts;
  Ok (layer_hashes o, length (sizes o)).

Inductive pquery :=
| QTo (s : list Z) | QFrom (s : list Z) | QMitmTo (s : list Z) | QMitmFrom (s : list Z).

Definition path_res_eqb := result_eqb (option_eqb nat_list_eqb).

Definition run_query (e : path_env) (ball : list (list Z) * nat) (q : pquery) : result (option (list nat)) :=
  let '(lh, ns) := ball in
  let G := pe_G e in let Gi := pe_Ginv e in
  match q with
  | QTo s => find_path_to G Gi lh ns s
  | QFrom s => find_path_from G Gi (pe_invmap e) lh ns s
  | QMitmTo s => mitm_find_path_to G Gi lh ns (hashf G (central G)) s
  | QMitmFrom s =>
      if negb (inv_closed G) then Err AssertionErr
      else do r <- mitm_find_path_to G Gi lh ns (hashf G (central G)) s;
           match r with None => Ok None | Some p => do q <- revert_path (pe_invmap e) p; Ok (Some q) end
  end.

Record path_case := {
  pc_g : gdesc; pc_inv_mats : list (list (list Z)); pc_batch : Z; pc_depth : N;
  pc_queries : list (pquery * result (option (list nat)));
}.

Definition check_path_case (c : path_case) : bool :=
  match env_of (pc_g c) (pc_inv_mats c) with
  | None => false
  | Some e =>
      pe_flag_ok e &&
      match ball_of (pe_G e) (pc_batch c) (pc_depth c) 1000000000000 [g_central (pc_g c)] with
      | Err _ => false
      | Ok ball => forallb (fun '(q, r) => path_res_eqb (run_query e ball q) r) (pc_queries c)
      end
  end.

(* find_path_between *)
Record between_case := {
  bc_g : gdesc; bc_inv_mats : list (list (list Z)); bc_starts : list (list Z); bc_dests : list (list Z); bc_diam : N;
  bc_expected : result (option (list Z * list nat));
}.
Definition between_res_eqb := result_eqb (option_eqb (pair_eqb z_list_eqb nat_list_eqb)).
Definition check_between_case (c : between_case) : bool :=
  match env_of (bc_g c) (bc_inv_mats c) with
  | None => false
  | Some e => between_res_eqb (find_path_between (pe_G e) (pe_Ginv e) (bc_starts c) (bc_dests c) (bc_diam c)) (bc_expected c)
  end.

(* find_path (algo/find_path.py), for graphs without a pre-trained model: a sequence of queries on ONE object.
   The ball is computed at the first query from that query's keyword arguments and cached. *)
Definition find_path_one (e : path_env) (ball_fwd ball_inv : list (list Z) * nat) (s : list Z) : result (option (list nat)) :=
  let G := pe_G e in let Gi := pe_Ginv e in
  if inv_closed G then run_query e ball_fwd (QMitmFrom s)
  else
    (* MITM in the inverted graph (whose inverted graph is the original), then reverse the sequence *)
    let '(lh, ns) := ball_inv in
    do r <- mitm_find_path_to Gi G lh ns (hashf Gi (central Gi)) s;
    match r with None => Ok None | Some p => Ok (Some (rev p)) end.

Record fp_case := {
  fc_g : gdesc; fc_inv_mats : list (list (list Z)); fc_batch : Z;
  (* each query: (max_diameter or 50, max_layer_size_to_explore or 10**6, start state, observed result);
     the cached ball is recomputed whenever these BFS arguments change, so it is a function of the current call *)
  fc_queries : list (N * Z * list Z * result (option (list nat)));
}.
Definition check_fp_case (c : fp_case) : bool :=
  match env_of (fc_g c) (fc_inv_mats c) with
  | None => false
  | Some e =>
      let G := pe_G e in let Gi := pe_Ginv e in
      forallb (fun '(depth, explore, s, r) =>
        match ball_of (if inv_closed G then G else Gi) (fc_batch c) depth explore [g_central (fc_g c)] with
        | Err _ => false
        | Ok ball => path_res_eqb (find_path_one e ball ball s) r
        end) (fc_queries c)
  end.
