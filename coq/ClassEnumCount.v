(** (4) The size of a conjugacy class, for every n:
      |perms_with_cycle_lengths n lens| * prod_k (k^(m_k) * m_k!) = n!
    where m_k is the number of occurrences of k in [lens].  Stated multiplicatively (no division);
    the quotient form follows since the product is positive. *)
From Coq Require Import ZArith List Bool Arith Lia Sorting.Mergesort Sorting.Permutation Sorting.Sorted.
From V Require Import Base Perm PermProofs PermCycles BitmaskProofs ClassEnumCycles ClassEnumGeneral.
Import ListNotations.

(* ------------------------------------------------------------------------------------------- *)
(** * counting helpers *)

Lemma flat_map_length_scaled {A B} (g : A -> list B) l P F :
  (forall a, In a l -> length (g a) * P = F) -> length (flat_map g l) * P = length l * F.
Proof.
  induction l as [|a t IH]; intros H; cbn [flat_map length]; [reflexivity|].
  rewrite app_length, Nat.mul_add_distr_r, IH by (intros b Hb; apply H; right; exact Hb).
  rewrite H by (left; reflexivity). lia.
Qed.

Lemma flat_map_all_nil {A B} (g : A -> list B) l : (forall a, In a l -> g a = []) -> flat_map g l = [].
Proof.
  induction l as [|a t IH]; intros H; cbn [flat_map]; [reflexivity|].
  rewrite H by (left; reflexivity). rewrite IH; [reflexivity|]. intros b Hb. apply H. right. exact Hb.
Qed.

Lemma combs_big {A} : forall (l : list A) k, length l < k -> combs k l = [].
Proof.
  induction l as [|x t IH]; intros k H; destruct k as [|k]; cbn [length] in H; try lia; [reflexivity|].
  cbn [combs]. rewrite !IH by lia. reflexivity.
Qed.

Lemma fact_S n : fact (S n) = S n * fact n.
Proof. reflexivity. Qed.

(* |combinations(l, k)| = C(|l|, k), multiplicatively *)
Lemma combs_count {A} : forall (l : list A) k, k <= length l ->
  length (combs k l) * (fact k * fact (length l - k)) = fact (length l).
Proof.
  induction l as [|x t IH]; intros k H.
  - cbn [length] in H. replace k with 0 by lia. reflexivity.
  - destruct k as [|k].
    + rewrite combs_0. cbn [length fact Nat.sub]. lia.
    + cbn [combs length] in *. rewrite app_length, map_length.
      set (n := length t) in *. replace (S n - S k) with (n - k) by lia.
      pose proof (IH k ltac:(lia)) as I1. fold n in I1.
      set (A1 := length (combs k t)) in *.
      destruct (Nat.eq_dec k n) as [->|Hne].
      * rewrite (combs_big t (S n)) by (fold n; lia). cbn [length].
        rewrite Nat.sub_diag in *. rewrite !fact_S. cbn [fact] in *. nia.
      * pose proof (IH (S k) ltac:(lia)) as I2. fold n in I2.
        set (A2 := length (combs (S k) t)) in *.
        set (d := n - S k) in *. replace (n - k) with (S d) in * by (unfold d; lia).
        rewrite !fact_S in *. replace (S n) with (S k + S d) by (unfold d; lia).
        transitivity (S k * (A1 * (fact k * (S d * fact d))) + S d * (A2 * (S k * fact k * fact d)));
          [ring|]. rewrite I1, I2. ring.
Qed.

Lemma remove_all_length xs l : NoDup l -> NoDup xs -> incl xs l ->
  length (remove_all xs l) + length xs = length l.
Proof.
  intros NDl NDx Hincl. unfold remove_all.
  rewrite <- (filter_length_split (fun a => existsb (Nat.eqb a) xs) l). rewrite Nat.add_comm. f_equal.
  apply Permutation_length. apply NoDup_Permutation; [exact NDx|apply NoDup_filter; exact NDl|].
  intros y. rewrite filter_In, existsb_eqb_In. split; [|tauto]. intros H. split; [apply Hincl; exact H|exact H].
Qed.

Lemma In_le_sum k l : In k l -> k <= sum_list l.
Proof.
  induction l as [|a t IH]; intros H; [destruct H|]. unfold sum_list in *. cbn [fold_right].
  destruct H as [->|H]; [lia|]. specialize (IH H). lia.
Qed.

(* ------------------------------------------------------------------------------------------- *)
(** * the denominator prod_k k^(m_k) m_k! *)

Definition denom (cnt : list (nat * nat)) : nat :=
  fold_right (fun km acc => fst km ^ snd km * fact (snd km) * acc) 1 cnt.
Definition weight (cnt : list (nat * nat)) : nat :=
  fold_right (fun km acc => fst km * snd km + acc) 0 cnt.

Lemma sum_repeat k m : sum_list (repeat k m) = k * m.
Proof. unfold sum_list. induction m as [|m IH]; cbn [repeat fold_right]; lia. Qed.

Lemma sum_list_app a b : sum_list (a ++ b) = sum_list a + sum_list b.
Proof. unfold sum_list. induction a as [|x a IH]; cbn [app fold_right]; lia. Qed.

Lemma sum_expand cnt : sum_list (expand cnt) = weight cnt.
Proof.
  unfold expand, weight. induction cnt as [|[k m] t IH]; [reflexivity|].
  cbn [flat_map fold_right fst snd]. rewrite sum_list_app, sum_repeat, IH. reflexivity.
Qed.

Lemma denom_dec k m : forall cnt, keys_sorted cnt -> mult_ok cnt -> In (k, m) cnt ->
  denom cnt = denom (counter_dec k cnt) * (k * m).
Proof.
  unfold keys_sorted, mult_ok. induction cnt as [|[k' m'] t IH]; intros Ss M Hin; [destruct Hin|].
  cbn [map fst] in Ss. inversion Ss as [|? ? St Ft]; subst. inversion M as [|? ? Mh Mt]; subst.
  cbn [snd] in Mh. cbn [counter_dec denom fold_right fst snd].
  destruct (Nat.eqb_spec k k') as [->|Hne].
  - assert (m = m') as ->.
    { destruct Hin as [E|Hin]; [inversion E; reflexivity|]. exfalso.
      rewrite Forall_forall in Ft. specialize (Ft k' (in_map fst _ _ Hin)). cbn in Ft. lia. }
    destruct (Nat.eqb_spec m' 1) as [->|Hm1].
    + cbn [Nat.pow fact]. fold (denom t). lia.
    + cbn [denom fold_right fst snd]. fold (denom t). destruct m' as [|m'']; [lia|].
      replace (S m'' - 1) with m'' by lia. rewrite fact_S. cbn [Nat.pow]. ring.
  - destruct Hin as [E|Hin]; [inversion E; congruence|].
    cbn [denom fold_right fst snd]. fold (denom t) (denom (counter_dec k t)).
    rewrite (IH St Mt Hin). ring.
Qed.

Lemma flat_map_keys_scaled {B} (g : nat -> list B) P F : forall (l : list (nat * nat)),
  (forall km, In km l -> length (g (fst km)) * P = F * (fst km * snd km)) ->
  length (flat_map g (map fst l)) * P = F * weight l.
Proof.
  induction l as [|km t IH]; intros H; cbn [map flat_map length weight fold_right]; [lia|].
  rewrite app_length, Nat.mul_add_distr_r, IH by (intros b Hb; apply H; right; exact Hb).
  rewrite H by (left; reflexivity). fold (weight t). ring.
Qed.

Lemma counter_dec_keys_ge cnt k :
  Forall (fun km => 1 <= fst km) cnt -> Forall (fun km => 1 <= fst km) (counter_dec k cnt).
Proof.
  induction cnt as [|[k' m] t IH]; intros H; cbn [counter_dec]; [exact H|].
  inversion H as [|? ? Hh Ht]; subst. destruct (k =? k').
  - destruct (m =? 1); [exact Ht|constructor; [exact Hh|exact Ht]].
  - constructor; [exact Hh|apply IH; exact Ht].
Qed.

(* ------------------------------------------------------------------------------------------- *)
(** * the count *)

(* a branch whose first cycle skips the smallest available element can never be completed *)
Lemma backtrack_dead f m avail cnt a0 :
  StronglySorted lt avail -> mult_ok cnt -> In a0 avail -> a0 < m ->
  backtrack f (Z.of_nat m) avail cnt = [].
Proof.
  intros Sa M Hin Hlt. destruct (backtrack f (Z.of_nat m) avail cnt) as [|cs l] eqn:E; [reflexivity|].
  exfalso. assert (In cs (backtrack f (Z.of_nat m) avail cnt)) as Hcs by (rewrite E; left; reflexivity).
  apply backtrack_sound in Hcs; auto. destruct Hcs as (_ & B2 & B3 & B4 & _).
  apply B2 in Hin. apply in_concat in Hin as (c & Hc & Hac).
  destruct (heads_incr_In cs _ c B4 Hc) as (h & r & -> & Hh).
  rewrite Forall_forall in B3. pose proof (head_min_le (h :: r) a0 (B3 _ Hc) Hac) as Hle.
  cbn [nth] in Hle. lia.
Qed.

Lemma backtrack_count : forall fuel last avail cnt,
  StronglySorted lt avail -> (forall a, In a avail -> (last < Z.of_nat a)%Z) ->
  keys_sorted cnt -> mult_ok cnt -> Forall (fun km => 1 <= fst km) cnt ->
  sum_list (expand cnt) = length avail -> length (expand cnt) <= fuel ->
  length (backtrack fuel last avail cnt) * denom cnt = fact (length avail).
Proof.
  induction fuel as [|f IH]; intros last avail cnt Sa Hlast Sk M K Hsum Hf.
  - destruct (expand cnt) eqn:E; [|cbn [length] in Hf; lia].
    apply expand_nil in E; [|exact M]. subst cnt. cbn in Hsum.
    destruct avail; [|discriminate]. reflexivity.
  - destruct cnt as [|e c].
    { cbn in Hsum. destruct avail; [|discriminate]. reflexivity. }
    set (cnt := e :: c) in *.
    destruct avail as [|a0 t].
    { exfalso. destruct e as [k m]. inversion M as [|? ? Mh _]; subst. inversion K as [|? ? Kh _]; subst.
      cbn [fst snd] in *. unfold cnt, expand in Hsum. cbn [flat_map fst snd] in Hsum.
      rewrite sum_list_app, sum_repeat in Hsum. cbn [length] in Hsum. nia. }
    rewrite backtrack_S by discriminate.
    cbn [length]. rewrite fact_S.
    rewrite (flat_map_keys_scaled (bt_body f last (a0 :: t) cnt) (denom cnt) (fact (length t)) cnt).
    { rewrite <- sum_expand, Hsum. cbn [length]. ring. }
    intros [k m] Hkm. cbn [fst snd].
    rewrite (denom_dec k m cnt Sk M Hkm). set (cnt' := counter_dec k cnt).
    assert (In k (map fst cnt)) as Hk by (apply (in_map fst _ _ Hkm)).
    assert (1 <= k) as Hk1 by (rewrite Forall_forall in K; apply (K _ Hkm)).
    pose proof (counter_dec_expand k cnt M Hk) as HPexp. fold cnt' in HPexp.
    assert (k <= S (length t)) as HkS.
    { cbn [length] in Hsum. rewrite <- Hsum. apply In_le_sum.
      eapply Permutation_in; [symmetry; exact HPexp|left; reflexivity]. }
    assert (sum_list (expand cnt') = S (length t) - k) as Hsum'.
    { cbn [length] in Hsum. rewrite <- Hsum.
      assert (sum_list (expand cnt) = sum_list (k :: expand cnt')) as ->.
      { unfold sum_list. apply Permutation_length in HPexp as HL.
        clear -HPexp. induction HPexp; cbn [fold_right]; lia. }
      unfold sum_list. cbn [fold_right]. lia. }
    assert (length (expand cnt') <= f) as Hf'.
    { apply Permutation_length in HPexp. cbn [length] in HPexp. lia. }
    inversion Sa as [|? ? St Ft]; subst. rewrite Forall_forall in Ft.
    assert (~ In a0 t) as Hna0 by (intros H; specialize (Ft _ H); lia).
    destruct k as [|k']; [lia|].
    enough (length (bt_body f last (a0 :: t) cnt (S k')) * denom cnt' = fact (length t)) as Hen.
    { rewrite Nat.mul_assoc, Hen. reflexivity. }
    unfold bt_body. fold cnt'. cbn [combs]. rewrite flat_map_app, app_length.
    (* combinations without a0: dead *)
    rewrite (flat_map_all_nil _ (combs (S k') t)).
    2: { intros comb Hcomb. unfold bt_comb. destruct comb as [|m1 rest]; [reflexivity|].
         destruct (Z.of_nat m1 <=? last)%Z; [reflexivity|].
         apply flat_map_all_nil. intros order Ho. cbv zeta.
         assert (In m1 t) as Hm by (apply (combs_incl _ _ _ Hcomb); left; reflexivity).
         apply perms_In_iff in Ho.
         rewrite (backtrack_dead f m1 _ cnt' a0); [reflexivity| | | |].
         - apply remove_all_sorted. exact Sa.
         - apply counter_dec_mult. exact M.
         - apply remove_all_In. split; [left; reflexivity|].
           intros [E|Hin]; [subst; contradiction|].
           apply Hna0. apply (combs_incl _ _ _ Hcomb). right.
           eapply Permutation_in; [symmetry; exact Ho|exact Hin].
         - apply Ft. exact Hm. }
    cbn [length]. rewrite Nat.add_0_r.
    (* combinations starting with a0 *)
    rewrite (flat_map_length_scaled _ _ (denom cnt') (fact k' * fact (length t - k'))).
    { rewrite map_length. apply combs_count. lia. }
    intros comb Hcomb. apply in_map_iff in Hcomb as (rest & <- & Hrest).
    unfold bt_comb.
    destruct (Z.leb_spec (Z.of_nat a0) last) as [Hle|_].
    { specialize (Hlast a0 (or_introl eq_refl)). lia. }
    pose proof (combs_length _ _ _ Hrest) as Lrest.
    pose proof (combs_incl _ _ _ Hrest) as Irest.
    pose proof (combs_sorted _ _ _ St Hrest) as Srest.
    rewrite (flat_map_length_scaled _ _ (denom cnt') (fact (length t - k'))).
    { rewrite perms_length, Lrest. reflexivity. }
    intros order Ho. cbv zeta. rewrite map_length. apply perms_In_iff in Ho.
    assert (NoDup (a0 :: order)) as NDo.
    { constructor.
      - intros H. apply Hna0. apply Irest. eapply Permutation_in; [symmetry; exact Ho|exact H].
      - eapply Permutation_NoDup; [exact Ho|apply sorted_lt_NoDup; exact Srest]. }
    assert (incl (a0 :: order) (a0 :: t)) as Io.
    { intros y [<-|Hy]; [left; reflexivity|right]. apply Irest.
      eapply Permutation_in; [symmetry; exact Ho|exact Hy]. }
    pose proof (remove_all_length (a0 :: order) (a0 :: t) (sorted_lt_NoDup _ Sa) NDo Io) as HL.
    cbn [length] in HL. rewrite <- (Permutation_length Ho), Lrest in HL.
    replace (length t - k') with (length (remove_all (a0 :: order) (a0 :: t))) by lia.
    apply IH.
    + apply remove_all_sorted. exact Sa.
    + intros a Ha. apply remove_all_In in Ha as [[<-|Ha] Hn]; [exfalso; apply Hn; left; reflexivity|].
      specialize (Ft _ Ha). lia.
    + apply counter_dec_sorted. exact Sk.
    + apply counter_dec_mult. exact M.
    + apply counter_dec_keys_ge. exact K.
    + rewrite Hsum'. lia.
    + exact Hf'.
Qed.

(* ------------------------------------------------------------------------------------------- *)
(** * what [counter_of] holds: (k, number of occurrences of k), k ranging over the lengths *)

Lemma count_occ_expand k m cnt : NoDup (map fst cnt) -> In (k, m) cnt ->
  count_occ Nat.eq_dec (expand cnt) k = m.
Proof.
  unfold expand. induction cnt as [|[k' m'] t IH]; intros ND Hin; [destruct Hin|].
  cbn [map fst] in ND. inversion ND as [|? ? Hn NDt]; subst.
  cbn [flat_map fst snd]. rewrite count_occ_app.
  destruct Hin as [E|Hin].
  - inversion E; subst. rewrite count_occ_repeat_eq by reflexivity.
    assert (count_occ Nat.eq_dec (flat_map (fun km => repeat (fst km) (snd km)) t) k = 0) as ->; [|lia].
    apply count_occ_not_In. intros H. apply Hn. apply expand_In_keys. exact H.
  - assert (k <> k') as Hne by (intros ->; apply Hn; apply (in_map fst _ _ Hin)).
    rewrite count_occ_repeat_neq by exact Hne. rewrite (IH NDt Hin). reflexivity.
Qed.

Theorem counter_of_spec lens k m :
  In (k, m) (counter_of lens) <-> m = count_occ Nat.eq_dec lens k /\ 1 <= m.
Proof.
  pose proof (counter_of_sorted lens) as Ss. pose proof (counter_of_mult lens) as M.
  pose proof (counter_of_expand lens) as HP.
  assert (NoDup (map fst (counter_of lens))) as ND by (apply sorted_lt_NoDup; exact Ss).
  split.
  - intros Hin. split.
    + rewrite <- (count_occ_expand k m _ ND Hin).
      apply (proj1 (Permutation_count_occ Nat.eq_dec _ _) HP).
    + unfold mult_ok in M. rewrite Forall_forall in M. apply (M _ Hin).
  - intros [-> H1].
    assert (In k lens) as Hk by (apply (count_occ_In Nat.eq_dec); lia).
    eapply Permutation_in in Hk; [|symmetry; exact HP]. apply expand_In_keys in Hk.
    apply in_map_iff in Hk as ([k' m'] & E & Hin). cbn in E. subst k'.
    assert (m' = count_occ Nat.eq_dec lens k) as <-; [|exact Hin].
    rewrite <- (count_occ_expand k m' _ ND Hin).
    apply (proj1 (Permutation_count_occ Nat.eq_dec _ _) HP k).
Qed.

(* prod over the distinct lengths k of k^(m_k) * m_k!, m_k = count_occ lens k *)
Definition class_denominator (lens : list nat) : nat := denom (counter_of lens).

Lemma denom_positive cnt : Forall (fun km => 1 <= fst km) cnt -> 0 < denom cnt.
Proof.
  induction cnt as [|[k m] t IH]; intros K; cbn [denom fold_right fst snd]; [lia|].
  inversion K as [|? ? Kh Kt]; subst. cbn [fst] in Kh. fold (denom t). specialize (IH Kt).
  assert (0 < k ^ m) by (apply Nat.neq_0_lt_0, Nat.pow_nonzero; lia).
  pose proof (lt_O_fact m). nia.
Qed.

Lemma counter_of_keys_ge lens : Forall (fun k => 1 <= k) lens ->
  Forall (fun km => 1 <= fst km) (counter_of lens).
Proof.
  intros H. apply Forall_forall. intros [k m] Hin. cbn [fst].
  apply counter_of_spec in Hin as [-> Hm].
  rewrite Forall_forall in H. apply H. apply (count_occ_In Nat.eq_dec). lia.
Qed.

(** (4) the count formula *)
Theorem class_enum_count n lens res : perms_with_cycle_lengths n lens = Ok res ->
  length res * class_denominator lens = fact n.
Proof.
  intros Hres. apply class_enum_Ok_inv in Hres as (Hn & HF & Hsum & ->).
  rewrite map_length. unfold class_denominator.
  rewrite <- (seq_length n 0) at 2. apply backtrack_count.
  - apply seq_strongly_sorted_lt.
  - intros a _. lia.
  - apply counter_of_sorted.
  - apply counter_of_mult.
  - apply counter_of_keys_ge. exact HF.
  - rewrite seq_length, <- Hsum. unfold sum_list.
    pose proof (counter_of_expand lens) as HP. clear -HP. induction HP; cbn [fold_right]; lia.
  - rewrite (Permutation_length (counter_of_expand lens)). lia.
Qed.

Corollary class_enum_count_div n lens res : perms_with_cycle_lengths n lens = Ok res ->
  length res = fact n / class_denominator lens.
Proof.
  intros Hres. pose proof (class_enum_count n lens res Hres) as H.
  apply class_enum_Ok_inv in Hres as (_ & HF & _).
  pose proof (denom_positive _ (counter_of_keys_ge lens HF)) as Hpos. fold (class_denominator lens) in Hpos.
  rewrite <- H. symmetry. apply Nat.div_mul. lia.
Qed.

Example class_denominator_instance : class_denominator [2; 1; 2; 3] = 2 ^ 2 * 2 * (1 * 1) * (3 * 1).
Proof. reflexivity. Qed.

Example class_count_instance :
  match perms_with_cycle_lengths 6 [2; 1; 2; 1] with
  | Ok res => length res = 45 /\ class_denominator [2; 1; 2; 1] = 16 /\ fact 6 = 720
  | Err _ => False
  end.
Proof. vm_compute. auto. Qed.

Print Assumptions counter_of_spec.
Print Assumptions class_enum_count.
Print Assumptions class_enum_count_div.
