(** Glue for evaluating the definition-level models (C10) on harness cases. *)
From Coq Require Import ZArith List Bool Arith Lia String.
From V Require Import Base W64 Perm Matrix Def.
Import ListNotations.

Definition str_list_eqb := list_eqb String.eqb.
Definition opt_nl_eqb := option_eqb nat_list_eqb.

Record perm_def_case := {
  pd_perms : list (list nat); pd_names : list string; pd_name : string;
  pd_invmap : option (list nat); pd_flag : bool; pd_inverted : list (list nat);
  pd_mic_perms : list (list nat); pd_mic_names : list string; pd_mic_name : string;
  pd_path : list nat; pd_reverted : result (list nat);
}.

Definition check_perm_def (c : perm_def_case) : bool :=
  let m := perm_inverse_map (pd_perms c) in
  let '(mp, mn, mname) := mic_perms (pd_perms c) (pd_names c) (pd_name c) in
  opt_nl_eqb m (pd_invmap c)
  && Bool.eqb (is_some m) (pd_flag c)
  && nat_list2_eqb (inverted_perms (pd_perms c)) (pd_inverted c)
  && nat_list2_eqb mp (pd_mic_perms c) && str_list_eqb mn (pd_mic_names c) && String.eqb mname (pd_mic_name c)
  && result_eqb nat_list_eqb (revert_path m (pd_path c)) (pd_reverted c).

Definition mat3_eqb := list_eqb z_list2_eqb.

Record mat_def_case := {
  md_modulo : Z; md_n : nat; md_mats : list (list (list Z));
  md_invmap : option (list nat); md_flag : bool;
  md_cands : list (list (list Z));                 (* rint(np.linalg.inv(M_i)) as recorded *)
  md_exacts : list (option (list (list Z)));       (* what the exact rational fallback returned (None: not called / no integer inverse) *)
  md_invs : list (result (list (list Z)));         (* M_i.inv *)
  md_mic_missing : list nat;                       (* indices whose inverse make_inverse_closed appended *)
}.

(* MatrixGenerator.inv (after fix F24): the rounded floating-point inverse first; when its product check fails, the exact
   rational Gauss-Jordan inverse, if it is an integer matrix; then the product check (the assertion). Both candidates are oracle
   arguments: the result is an inverse whatever they are (DefProofs.mat_inv_sound_*, mat_inv_fb_some). *)
Definition mat_inv_fb (modulo : Z) (n : nat) (M cand : list (list Z)) (exact : option (list (list Z))) : result (list (list Z)) :=
  match mat_inv modulo n M cand with
  | Ok r => Ok r
  | Err _ => match exact with Some e => mat_inv modulo n M e | None => Err AssertionErr end
  end.

Lemma mat_inv_fb_some modulo n M cand exact M' :
  mat_inv_fb modulo n M cand exact = Ok M' -> exists c, mat_inv modulo n M c = Ok M'.
Proof.
  unfold mat_inv_fb. destruct (mat_inv modulo n M cand) eqn:E1.
  - intros H. inversion H. subst. exists cand. exact E1.
  - destruct exact as [ex|]; [|discriminate]. intros H. exists ex. exact H.
Qed.

(* completeness relative to the fallback: if it delivers a right inverse, inv succeeds (no assumption on the float candidate) *)
Lemma mat_inv_fb_complete modulo n M cand e :
  mat_mul modulo n M e = eye n -> exists M', mat_inv_fb modulo n M cand (Some e) = Ok M'.
Proof.
  intros H. unfold mat_inv_fb. destruct (mat_inv modulo n M cand) eqn:E1; [eauto|].
  unfold mat_inv. rewrite H.
  assert (Hr : forall A : list (list Z), mat_eqb A A = true).
  { intros A. unfold mat_eqb, z_list2_eqb, z_list_eqb. induction A as [|r t IH]; simpl; auto. rewrite IH, andb_true_r.
    induction r as [|x r IHr]; simpl; auto. rewrite Z.eqb_refl. exact IHr. }
  rewrite Hr. eauto.
Qed.

Definition check_mat_def (c : mat_def_case) : bool :=
  let m := matrix_inverse_map (md_modulo c) (md_n c) (md_mats c) in
  opt_nl_eqb m (md_invmap c) && Bool.eqb (is_some m) (md_flag c)
  && list_eqb (result_eqb z_list2_eqb)
       (map (fun '(M, cand, ex) => mat_inv_fb (md_modulo c) (md_n c) M cand ex) (combine (combine (md_mats c) (md_cands c)) (md_exacts c))) (md_invs c)
  && nat_list_eqb (mic_matrix_missing (md_modulo c) (md_n c) (md_mats c)) (md_mic_missing c).
