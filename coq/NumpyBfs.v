(** Model of bfs_numpy (algo/bfs_numpy.py): per-generator frontier groups over single-word states,
    set differences against the two previous layers, the inverse generator skipped.
    np.setdiff1d(a, b, assume_unique=True) is modelled as "the elements of a not in b, in order" —
    what it computes when a and b are duplicate-free, which is an invariant of the algorithm. *)
From Coq Require Import ZArith List Bool Arith Lia.
From V Require Import Base Tensor Perm.
Import ListNotations.
Open Scope Z_scope.

Definition setdiff (a b : list Z) : list Z := filter (fun x => negb (isin1 b x)) a.

Section Numpy.
  Variable fs : list (Z -> Z).              (* the 1-D generated routines, one per generator *)
  Variable inv_idx : list nat.              (* inv_perm_idx *)
  Let pn := length fs.

  (* _make_states_unique: for i1 < i2: layer[i1] = setdiff1d(layer[i1], layer[i2]) *)
  Definition make_unique (layer : list (list Z)) : list (list Z) :=
    map (fun '(i1, l) => fold_left (fun acc i2 => setdiff acc (nth i2 layer [])) (seq (S i1) (pn - S i1)) l)
        (combine (seq 0 (length layer)) layer).

  Definition next_layer (layer0 layer1 : list (list Z)) : list (list Z) :=
    make_unique
      (map (fun '(i1, f) =>
         let groups := map (fun i2 => map f (nth i2 layer1 [])) (filter (fun i2 => negb (i2 =? nth i1 inv_idx 0)%nat) (seq 0 pn)) in
         let states := sort_z (concat groups) in
         fold_left (fun st i2 => setdiff (setdiff st (nth i2 layer0 [])) (nth i2 layer1 [])) (seq 0 pn) states)
       (combine (seq 0 pn) fs)).

  Definition total (layer : list (list Z)) : nat := length (concat layer).

  (* for i in range(2, max_diameter + 1) *)
  Definition np_iter (st : list (list Z) * list (list Z) * list nat) : (list (list Z) * list (list Z) * list nat) + list nat :=
    let '(layer0, layer1, sizes_rev) := st in
    let layer2 := next_layer layer0 layer1 in
    if (total layer2 =? 0)%nat then inr (rev sizes_rev)
    else inl (layer1, layer2, total layer2 :: sizes_rev).

  Definition bfs_numpy (start : Z) (max_diameter : N) : list nat :=
    let layer0 := repeat [start] pn in
    let layer1 := make_unique (map (fun f => setdiff [f start] [start]) fs) in
    let size1 := length (unique_sorted (concat layer1)) in
    if (size1 =? 0)%nat then [1%nat]
    else match loop_N np_iter (max_diameter - 1) (layer0, layer1, [size1; 1%nat]) with
         | inl (_, _, sizes_rev) => rev sizes_rev
         | inr sizes => sizes
         end.
End Numpy.

(* inv_perm_idx: for each generator the UNIQUE index holding its inverse (assert len(inv) == 1) *)
Definition np_inverse_index (perms : list (list nat)) : result (list nat) :=
  fold_right (fun p acc =>
     do r <- acc;
     match filter (fun j => nat_list_eqb (inverse_perm p) (nth j perms [])) (seq 0 (length perms)) with
     | [j] => Ok (j :: r)
     | _ => Err AssertionErr
     end) (Ok []) perms.
