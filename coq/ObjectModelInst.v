(** C14, "copies share hashes with their origin": the abstract machine of ObjectModelFull.v connected to
    the concrete graph model (GraphImpl.v, InstShared.v).

    Concretely the [shared] component of a graph object is (how a row is encoded, the hasher):
    [row_code d] and [g_hasher d] of InstShared.v; the hash function an object applies is a function of
    that pair alone ([hash_of_shared]).  A copy made by [modified_copy] KEEPS the pair of its origin
    (ans.hasher = self.hasher; ans.string_encoder = self.string_encoder), whatever its new definition
    says - that is the [copy_imm] of the machine.  The concrete construction [with_flag d k] recomputes
    the pair from the new definition; the two agree EXACTLY when [flag_rows_alike d k], which holds for
    the inverted copy built by [env_of]. *)
From Coq Require Import ZArith List Bool Arith Lia.
From V Require Import Base W64 Tensor Hash Perm Codec Matrix GraphImpl Def Bfs BfsRun Paths PathRun InstShared ObjectModelFull.
From V.gen Require Import Consts.
Import ListNotations.
Open Scope Z_scope.

Definition cshared : Type := (option (nat * nat) * hasher)%type.
Definition cimm : Type := imm cshared gdesc.

(* the object a user builds from a description *)
Definition embed (d : gdesc) : cimm := Build_imm (row_code d, g_hasher d) d.

(* the hash function of an object: a function of its [shared] component only *)
Definition hash_of_shared (sh : cshared) (s : state) : Z :=
  make_hash splitmix_steps hash_mult (snd sh) (row_of_code (fst sh) s).

Lemma hash_of_embed d s : hash_of_shared (shared (embed d)) s = hashf (impl_of d) s.
Proof. unfold impl_of. rewrite hashf_code. reflexivity. Qed.

(* the machine's copy and the concrete copy are the same object exactly when rows are encoded alike *)
Theorem copy_imm_is_with_flag d k :
  copy_imm cshared gdesc (embed d) (with_flag d k) = embed (with_flag d k) <-> flag_rows_alike d k.
Proof.
  unfold copy_imm, embed. cbn [shared defn]. split.
  - intros H. apply with_flag_row_code_conv. injection H as H1. symmetry. exact H1.
  - intros H. rewrite (with_flag_row_code d k H). reflexivity.
Qed.

Section Machine.
  (* every other component of the machine is arbitrary *)
  Variables RI NV H2I EL VN AS AD SP NE : Type.
  Variable mk_nv : RI -> result NV.
  Variable mk_h2i : RI -> NV -> result H2I.
  Variable mk_el : RI -> H2I -> result EL.
  Variable mk_vn : RI -> result VN.
  Variable mk_as : RI -> result AS.
  Variable mk_adj : RI -> NV -> EL -> AD.
  Variable mk_sparse : RI -> EL -> NV -> SP.
  Variable mk_named : RI -> VN -> EL -> NE.
  Variables Key Ball Q A P R BArgs : Type.
  Variable key_eqb : Key -> Key -> bool.
  Hypothesis key_eqb_eq : forall a b, key_eqb a b = true <-> a = b.
  Variable inv_defn : gdesc -> gdesc.
  Variable inv_closed : cimm -> bool.
  Variable mk_ball : cimm -> Key -> Ball.
  Variable p_depth : cimm -> P -> nat.
  Variable pure_op : cimm -> list cimm -> P -> R.
  Variable fp_depth : cimm -> Key -> Q -> nat.
  Variable answer : cimm -> cimm -> list cimm -> Ball -> Q -> A.
  Variable mk_res : cimm -> BArgs -> RI.

  Let crun := run RI NV H2I EL VN AS AD SP NE mk_nv mk_h2i mk_el mk_vn mk_as mk_adj mk_sparse mk_named
                  cshared gdesc Key Ball Q A P R BArgs key_eqb inv_defn inv_closed mk_ball p_depth pure_op fp_depth answer mk_res.
  Let cinit := init RI NV H2I EL VN AS cshared gdesc Key Ball.
  Let cimm_at := imm_at RI NV H2I EL VN AS cshared gdesc Key Ball.

  (** every object reachable from the object built from [d] - by any sequence of searches, path queries,
      inverted and modified copies, copies of copies - hashes EVERY state as the origin does *)
  Theorem reachable_objects_hash_like_origin d ops h j :
    cimm_at (crun (cinit (embed d)) ops) h = Some j ->
    forall s, hash_of_shared (shared j) s = hashf (impl_of d) s.
  Proof.
    intros Hh s. unfold cimm_at, crun, cinit in Hh.
    rewrite (copies_share _ _ _ _ _ _ _ _ _ _ _ _ _ _ _ _ _ _ _ _ _ _ _ _ _ _ _ key_eqb_eq _ _ _ _ _ _ _ _ _ _ _ _ Hh).
    apply hash_of_embed.
  Qed.

  (** ... and as the graph / inverted-graph pair of the concrete path model does ([env_of], InstShared.v) *)
  Theorem reachable_objects_hash_like_env d im e ops h j :
    env_of d im = Some e ->
    cimm_at (crun (cinit (embed d)) ops) h = Some j ->
    forall s, hash_of_shared (shared j) s = hashf (pe_G e) s /\ hash_of_shared (shared j) s = hashf (pe_Ginv e) s.
  Proof.
    intros He Hh s. rewrite (reachable_objects_hash_like_origin d ops h j Hh s).
    destruct (env_of_shares_origin d im e He) as (H1 & H2 & _). rewrite H1, H2. split; reflexivity.
  Qed.

  (** a concrete modified copy [with_flag d k] whose rows are encoded alike IS the machine's copy, and hashes
      like every object of the world *)
  Theorem concrete_copy_hashes_like_world d k ops h j :
    flag_rows_alike d k ->
    cimm_at (crun (cinit (embed d)) ops) h = Some j ->
    forall s, hashf (impl_of (with_flag d k)) s = hash_of_shared (shared j) s.
  Proof.
    intros Hk Hh s. rewrite (reachable_objects_hash_like_origin d ops h j Hh s).
    apply with_flag_shares_hash. exact Hk.
  Qed.
End Machine.

(* non-vacuity: the encoded permutation graph of InstShared.v *)
Example ex_embed_env : exists e, env_of ex_perm_desc [] = Some e /\
  forall s, hash_of_shared (shared (embed ex_perm_desc)) s = hashf (pe_Ginv e) s.
Proof.
  destruct ex_perm_env as [e He]. exists e. split; [exact He|]. intros s.
  rewrite hash_of_embed. destruct (env_of_shares_origin _ _ _ He) as (_ & H2 & _). symmetry. apply H2.
Qed.

Example ex_copy_is_with_flag :
  copy_imm cshared gdesc (embed ex_perm_desc) (with_flag ex_perm_desc (GPerm [[3;0;1;2]%nat; [1;0;2;3]%nat]))
  = embed (with_flag ex_perm_desc (GPerm [[3;0;1;2]%nat; [1;0;2;3]%nat])).
Proof. apply copy_imm_is_with_flag. exact ex_perm_flag_alike. Qed.

(* and the condition is not void: for the matrix copy of the encoded permutation graph the machine's copy
   (which keeps the encoder) and the recomputed description differ *)
Example ex_copy_is_not_with_flag :
  copy_imm cshared gdesc (embed ex_perm_desc) (with_flag ex_perm_desc (GMatrix 5 1 1 [[[1]]]))
  <> embed (with_flag ex_perm_desc (GMatrix 5 1 1 [[[1]]])).
Proof. intros H. apply copy_imm_is_with_flag in H. exact (ex_perm_flag_not_alike H). Qed.

Print Assumptions copy_imm_is_with_flag.
Print Assumptions reachable_objects_hash_like_origin.
Print Assumptions reachable_objects_hash_like_env.
Print Assumptions concrete_copy_hashes_like_world.
