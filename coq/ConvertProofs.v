(** C13: the conversion model returns the mathematical batch, whatever container, dtype or shape carried it. *)
From Coq Require Import ZArith List Bool Arith Lia.
From V Require Import Base Convert.
Import ListNotations.
Open Scope Z_scope.

(* a value in the range of a dtype is stored unchanged and converts back unchanged *)
Theorem dtype_roundtrip d v : dt_min d <= v <= dt_max d -> to_int64 d (store_as d v) = v.
Proof.
  intros H. unfold to_int64, store_as, dt_card. rewrite Z.mod_small; [lia|].
  destruct d; cbn [dt_min dt_max] in *; lia.
Qed.

Lemma chunks_concat size (batch : list (list Z)) fuel :
  (0 < size)%nat -> Forall (fun row => length row = size) batch -> (length batch <= fuel)%nat ->
  chunks fuel size (concat batch) = batch.
Proof.
  intros Hs. revert fuel. induction batch as [|row rest IH]; intros fuel HF Hfuel.
  - destruct fuel; reflexivity.
  - inversion HF as [|? ? Hrow Hrest]; subst. destruct fuel as [|fuel]; [simpl in Hfuel; lia|].
    cbn [concat chunks]. destruct (row ++ concat rest) eqn:E.
    + destruct row; [simpl in Hs; lia|discriminate].
    + rewrite <- E. rewrite firstn_app, Nat.sub_diag, firstn_all, firstn_O, app_nil_r.
      rewrite skipn_app, Nat.sub_diag, skipn_all. cbn [skipn app]. f_equal.
      apply IH; auto. simpl in Hfuel. lia.
Qed.

(* every form of the same batch denotes the same element sequence; normalisation returns the batch *)
Theorem normalize_denote d size (batch : list (list Z)) :
  (0 < size)%nat -> Forall (fun row => length row = size) batch ->
  Forall (Forall (fun v => dt_min d <= v <= dt_max d)) batch ->
  normalize d size (map (store_as d) (flatten batch)) = Ok batch.
Proof.
  intros Hs HF HR. unfold normalize.
  destruct (size =? 0)%nat eqn:E0; [apply Nat.eqb_eq in E0; lia|].
  assert (length (flatten batch) = (length batch * size)%nat) as Hlen.
  { unfold flatten. clear HR. induction HF as [|row rest Hrow _ IH]; [reflexivity|].
    cbn [concat length]. rewrite app_length, IH, Hrow. lia. }
  rewrite map_length, Hlen, Nat.mod_mul by lia. cbn [negb Nat.eqb].
  rewrite map_map.
  assert (map (fun x => to_int64 d (store_as d x)) (flatten batch) = flatten batch) as ->.
  { rewrite <- (map_id (flatten batch)) at 2. apply map_ext_in. intros v Hv. apply dtype_roundtrip.
    unfold flatten in Hv. apply in_concat in Hv as (row & Hrow & Hin).
    rewrite Forall_forall in HR. specialize (HR _ Hrow). rewrite Forall_forall in HR. auto. }
  f_equal. unfold flatten. apply chunks_concat; auto. nia.
Qed.

(* a wrong total size is rejected (the RuntimeError of reshape), never silently mis-split *)
Theorem normalize_rejects d size elements :
  (0 < size)%nat -> (length elements mod size <> 0)%nat -> normalize d size elements = Err RuntimeErr.
Proof.
  intros Hs Hm. unfold normalize. destruct (size =? 0)%nat eqn:E0; [reflexivity|].
  destruct (length elements mod size =? 0)%nat eqn:E; [apply Nat.eqb_eq in E; contradiction|reflexivity].
Qed.
