"""C13 - results do not depend on the container or dtype in which states are supplied."""
import graphs as G
import pathrun as P
from common import cz, czl, czll, cnl, clist, TieBroken


def bfs_then_reuse(graph, c):
    """BFS from the states in container c (a private copy of it), then the caller overwrites that container: the result already returned must not change."""
    import copy
    import numpy as np
    import torch
    mine = c.clone() if isinstance(c, torch.Tensor) else np.array(c, copy=True) if isinstance(c, np.ndarray) else copy.deepcopy(c)
    r = graph.bfs(start_states=mine, max_diameter=2)
    before = r.get_layer(0).tolist()
    if isinstance(mine, torch.Tensor):
        mine.zero_()
    elif isinstance(mine, np.ndarray):
        mine[...] = 0
    return [r.layer_sizes, before, r.get_layer(0).tolist() == before]


def containers(np, torch, flat_batch, matrix_shape, single, negative_strides=False):
    """All forms of the same batch of states: (label, object). flat_batch: list of flat int lists."""
    out = []
    vals = [v for s in flat_batch for v in s]
    lo, hi = min(vals), max(vals)
    forms = [("rows", flat_batch)]
    if single:
        forms.append(("flat", flat_batch[0]))
    if matrix_shape is not None:
        n, m = matrix_shape
        nested = [[s[i * m:(i + 1) * m] for i in range(n)] for s in flat_batch]
        forms.append(("matrix_rows", nested))
        if single:
            forms.append(("matrix_single", nested[0]))
    for fname, obj in forms:
        out.append((f"list/{fname}", obj))
        for dt in (np.int8, np.int16, np.int32, np.int64, np.uint8):
            info = np.iinfo(dt)
            if info.min <= lo and hi <= info.max:
                out.append((f"np.{np.dtype(dt).name}/{fname}", np.array(obj, dtype=dt)))
        for dt in (torch.uint8, torch.int8, torch.int16, torch.int32, torch.int64):
            info = torch.iinfo(dt)
            if info.min <= lo and hi <= info.max:
                out.append((f"torch.{str(dt).split('.')[-1]}/{fname}", torch.tensor(obj, dtype=dt)))
        # the same logical array in another memory layout: a reversed view of the reversed data, Fortran order, a transposed view
        a = np.array(obj, dtype=np.int64)
        if negative_strides:
            # torch.as_tensor refuses negative strides (a documented torch limitation, the call raises): only where the library converts
            # through NumPy itself (central states) is such a view part of the container matrix
            out.append((f"np.int64/{fname}/negative-stride view", np.ascontiguousarray(a[::-1])[::-1]))
        if a.ndim >= 2:
            out.append((f"np.int64/{fname}/fortran order", np.asfortranarray(a)))
            out.append((f"torch.int64/{fname}/transposed view", torch.tensor(np.ascontiguousarray(a.T)).T if a.ndim == 2 else torch.tensor(a)))
    return out


def canon(x):
    """Canonical comparable form of any result."""
    import numpy as np
    import torch
    if isinstance(x, torch.Tensor):
        return ("T", x.tolist())
    if isinstance(x, np.ndarray):
        return ("T", x.tolist())
    if isinstance(x, (list, tuple)):
        return [canon(v) for v in x]
    if isinstance(x, dict):
        return {str(k): canon(v) for k, v in sorted(x.items())}
    return x


def safe(f):
    try:
        return ("ok", canon(f()))
    except Exception as ex:  # pylint: disable=broad-except
        return ("err", type(ex).__name__, str(ex)[:80])


def run(ctx):
    import numpy as np
    import torch
    import cayleypy
    from cayleypy import CayleyGraph, CayleyGraphDef, MatrixGenerator
    from cayleypy.algo import MeetInTheMiddle
    rng = ctx.rng
    ctx.cov["trusted_base"] = ["Coq 8.16.1 kernel", "model Convert.v (the theorem is about the conversion model only: PARTIAL with respect to torch's real conversion rules)",
                               "the container x dtype x shape x entry-point matrix is finite and enumerated exhaustively against the implementation; each cell is compared with the plain-list cell"]
    ctx.cov["rule"] = ("case = (entry point, container kind, dtype, shape form, graph kind, encoded or not); non-trivial when dtype != int64 or the container is not a flat list; "
                       "distinct by the cell label; the sample graphs vary with the seed")
    ctx.prove()
    cells = {}
    ngraphs = ctx.budget(6, 40)
    for gi in range(ngraphs):
        want_matrix = gi % 3 == 2
        for _ in range(100):
            gd = P.gen_invertible_graph(rng, 200)
            if (gd["kind"] == "matrix") == want_matrix and (not want_matrix or (gd["modulo"] != 0 and gd["modulo"] <= 120)):
                break
        small_first = False
        if want_matrix and gi % 6 == 5:
            # a modulus that does NOT fit the narrow integer types although the entries of the states do (200 > 127, 70000 > 32767, 2^31 > int32):
            # nothing may be computed with the modulus in the dtype of the caller's container
            gd = G.gen_shear_matrix_graph(rng)
            gd = dict(gd, mats=[M_ for M_ in gd["mats"] if M_[1][1] == 1])
            small_first = True
        if gi % 3 == 1:
            # states whose code needs more than 32 (and often more than 64) bits: a conversion done in the caller's own narrow dtype loses the high part
            for _ in range(200):
                gd = G.gen_perm_graph(rng, 200, multiword=True)
                if len(gd["central"]) * max(1, max(gd["central"]).bit_length()) > 32:
                    break
        encoded = gd["kind"] == "perm" and (gi % 2 == 0 or gi % 3 == 1)
        cfgd = {"bit_encoding_width": "auto" if encoded else None, "random_seed": 5, "batch_size": rng.choice([2, 2**20])}
        layers, dist = G.ref_bfs(gd, [gd["central"]])
        verts = sorted(dist)
        mshape = (gd["n"], gd["m"]) if gd["kind"] == "matrix" else None
        ic = G.is_inverse_closed_ref(gd)
        one = [list(rng.choice(verts))]
        two = [list(rng.choice(verts)), list(rng.choice(verts))]
        if small_first:
            by_size = sorted(verts, key=lambda v_: (max(v_), v_))
            one = [list(by_size[min(1, len(by_size) - 1)])]
            two = [list(by_size[0]), list(by_size[min(2, len(by_size) - 1)])]
        path = [rng.randrange(G.n_gens(gd)) for _ in range(3)]
        tag = f"{gd['kind']}/{'encoded' if encoded else 'plain'}"

        def fresh():
            return G.make_graph(gd, cfgd)
        ball = fresh().bfs(max_diameter=2, return_all_hashes=True)
        entry_points = {
            "bfs(start_states)": (lambda c: [fresh().bfs(start_states=c).layer_sizes], False),
            "bfs(start_states, 2 states)": (lambda c: [fresh().bfs(start_states=c).layer_sizes], None),
            "bfs(start_states) then the caller reuses its buffer": (lambda c: bfs_then_reuse(fresh(), c), True),
            "encode_states": (lambda c: fresh().encode_states(c), None),
            "apply_path": (lambda c: fresh().apply_path(c, path), None),
            "apply_path(empty path)": (lambda c: fresh().apply_path(c, []), None),
            "apply_path(empty path, 1 state)": (lambda c: fresh().apply_path(c, []), True),
            "find_path_to": (lambda c: fresh().find_path_to(c, ball), True),
            "beam_search(start_state)": (lambda c: (lambda r: [r.path_found, r.path_length])(fresh().beam_search(start_state=c, beam_width=10**6, max_steps=8)), True),
            "beam_search(advanced)": (lambda c: (lambda r: [r.path_found, r.path_length])(fresh().beam_search(start_state=c, beam_mode="advanced", beam_width=10**6, max_steps=8)), True),
            "random_walks(classic)": (lambda c: (torch.manual_seed(3), fresh().random_walks(width=2, length=3, start_state=c))[1], True),
            "random_walks(bfs)": (lambda c: (torch.manual_seed(3), fresh().random_walks(width=2, length=3, mode="bfs", start_state=c))[1], True),
            "random_walks(nbt)": (lambda c: (torch.manual_seed(3), fresh().random_walks(width=2, length=3, mode="nbt", start_state=c, nbt_history_depth=1))[1], True),
            "MITM.find_path_to": (lambda c: MeetInTheMiddle.find_path_to(fresh(), c, ball), True),
            "MITM.find_path_between(start)": (lambda c: (lambda r: None if r is None else [r.start_state.reshape(-1).tolist(), r.edges])(
                MeetInTheMiddle.find_path_between(fresh(), c, [list(gd["central"])], max_diameter=4)), None),
            "find_path": (lambda c: cayleypy.find_path(fresh(), c, max_diameter=3), True),
            "with_central_state": (lambda c: fresh().definition.with_central_state(c).central_state, True),
        }
        if ic:
            entry_points["find_path_from"] = (lambda c: fresh().find_path_from(c, ball), True)
            entry_points["MITM.find_path_from"] = (lambda c: MeetInTheMiddle.find_path_from(fresh(), c, ball), True)
        for ep, (fn, single) in entry_points.items():
            batch = two if single is None and "2 states" in ep or (single is None and ep in ("encode_states", "apply_path", "apply_path(empty path)", "MITM.find_path_between(start)")) else one
            cs = containers(np, torch, batch, mshape, single=(len(batch) == 1))
            base = safe(lambda: fn(cs[0][1]))
            for label, obj in cs:
                before = canon(obj)
                got = safe(lambda: fn(obj))
                cell = f"{ep} | {label} | {tag}"
                ok = got == base
                if canon(obj) != before:
                    ctx.violation("property_fails", f"{ep} modified the {label} object it was given (the caller's states changed under it)",
                                  {"cell": cell, "graph": gd, "config": cfgd, "batch": batch}, True)
                prev = cells.get(cell)
                cells[cell] = (prev[0] and ok, prev[1] + 1) if prev else (ok, 1)
                ctx.cov["evaluations"] += 1
                if not ok:
                    ctx.violation("property_fails", f"{ep} gives a different result for {label} than for a plain list on a {tag} graph: {str(got)[:120]} vs {str(base)[:120]}",
                                  {"cell": cell, "graph": gd, "config": cfgd, "batch": batch, "got": str(got)[:300], "list_result": str(base)[:300]}, True)
        # definition-level entry points: generators and central state in every container
        if gd["kind"] == "perm":
            gens = gd["gens"]
            base_def = CayleyGraphDef.create([list(g) for g in gens], central_state=list(gd["central"]))
            for label, obj in containers(np, torch, gens, None, single=False):
                if label.startswith("list/") and "rows" not in label:
                    continue
                got = safe(lambda: (lambda d: [d.generators_permutations, d.central_state, [str(x) for x in d.generator_names], bool(d == base_def),
                                               d.path_to_string(list(range(len(gens))))])(CayleyGraphDef.create(obj, central_state=list(gd["central"]))))
                exp = ("ok", canon([base_def.generators_permutations, base_def.central_state]))
                # generators may come back as numpy integers: compare by value; the WHOLE definition (default generator names, equality with the list-built
                # definition - BFS results are accepted by a graph only if the definitions are equal -, path strings) must not depend on the container
                cell = f"CayleyGraphDef.create(generators) | {label} | perm"
                ok = (got[0] == "ok" and [[int(v) for v in p] for p in got[1][0]] == [list(g) for g in gens]
                      and got[1][2] == [str(x) for x in base_def.generator_names] and got[1][3] is True
                      and got[1][4] == base_def.path_to_string(list(range(len(gens)))))
                prev = cells.get(cell)
                cells[cell] = (prev[0] and ok, prev[1] + 1) if prev else (ok, 1)
                ctx.cov["evaluations"] += 1
                if not ok:
                    ctx.violation("property_fails", f"CayleyGraphDef.create with generators as {label} differs from the list form: {str(got)[:150]}",
                                  {"cell": cell, "gens": gens}, True)
            cforms = containers(np, torch, [list(gd["central"])], None, single=True, negative_strides=True)
            if max(gd["central"]) <= 9:
                cforms.append(("str/flat", "".join(str(v) for v in gd["central"])))
            for label, obj in cforms:
                for ep, fn in (("CayleyGraphDef.create(central_state)", lambda o: CayleyGraphDef.create([list(g) for g in gens], central_state=o).central_state),
                               ("create_graph(central_state)", lambda o: cayleypy.create_graph(generators=[list(g) for g in gens], central_state=o).definition.central_state),
                               ("bfs on definition with that central state", lambda o: CayleyGraph(CayleyGraphDef.create([list(g) for g in gens], central_state=o)).bfs().layer_sizes)):
                    got = safe(lambda: fn(obj))
                    base = safe(lambda: fn(list(gd["central"])))
                    cell = f"{ep} | {label} | perm"
                    ok = got == base
                    prev = cells.get(cell)
                    cells[cell] = (prev[0] and ok, prev[1] + 1) if prev else (ok, 1)
                    ctx.cov["evaluations"] += 1
                    if not ok:
                        ctx.violation("property_fails", f"{ep} with {label} differs from the list form: {str(got)[:120]} vs {str(base)[:120]}",
                                      {"cell": cell, "gens": gens, "central": gd["central"]}, True)
    # matrix generators in every container, the SAME object used for two definitions with different moduli (a definition must neither
    # depend on the container nor modify it)
    for n in (2, 3):
        M = [[rng.randint(-3, 3) for _ in range(n)] for _ in range(n)]
        for i in range(n):
            M[i][i] = rng.choice([1, -1])
        forms = [("list/rows", M)] + [(f"np.{np.dtype(dt).name}/rows", np.array(M, dtype=dt)) for dt in (np.int8, np.int16, np.int32, np.int64)] \
            + [(f"torch.{str(dt).split('.')[-1]}/rows", torch.tensor(M, dtype=dt)) for dt in (torch.int8, torch.int32, torch.int64)] \
            + [("np.int64/rows/fortran order", np.asfortranarray(np.array(M, dtype=np.int64)))]
        for label, obj in forms:
            before = canon(obj)
            got = safe(lambda: [MatrixGenerator.create(obj, modulo=m).matrix.tolist() for m in (5, 7, 0, 3)])
            want = ("ok", canon([[[(v % m if m else v) for v in row] for row in M] for m in (5, 7, 0, 3)]))
            cell = f"MatrixGenerator.create x4 moduli | {label} | matrix/n={n}"
            ok = got == want and canon(obj) == before
            prev = cells.get(cell)
            cells[cell] = (prev[0] and ok, prev[1] + 1) if prev else (ok, 1)
            ctx.cov["evaluations"] += 1
            if not ok:
                ctx.violation("property_fails", f"MatrixGenerator.create from {label} (same object, moduli 5, 7, 0, 3) gives {str(got)[:120]}, expected {str(want)[:120]}"
                              + ("; the caller's matrix was modified" if canon(obj) != before else ""), {"cell": cell, "matrix": M}, True)
    # generators of WIDE permutation graphs in every container: what the graph built from them DOES (neighbours, first layers), not only
    # the values stored in the definition (narrow NumPy scalars kept inside the definition overflowed in later index arithmetic: finding F23)
    for n in (12, 50, 64, 100):
        gens = [G.rand_perm(rng, n) for _ in range(2)]
        st = [G.rand_perm(rng, n)]
        forms = containers(np, torch, gens, None, single=False)
        forms += [(lab.replace("/rows", "/list_of_arrays"), [np.array(g, dtype=obj.dtype) for g in gens]) for lab, obj in forms if lab.startswith("np.")]
        for width in ("auto", None):
            def behaviour(o, width=width):
                g = CayleyGraph(CayleyGraphDef.create(o, central_state=list(range(n))), bit_encoding_width=width, random_seed=3)
                return [g.get_neighbors_decoded(torch.tensor(st)).tolist(), g.bfs(max_diameter=3).layer_sizes]
            base = safe(lambda: behaviour([list(g) for g in gens]))
            for label, obj in forms:
                got = safe(lambda: behaviour(obj))
                cell = f"graph from generators | {label} | perm/{'encoded' if width else 'plain'}/n={n}"
                ok = got == base
                prev = cells.get(cell)
                cells[cell] = (prev[0] and ok, prev[1] + 1) if prev else (ok, 1)
                ctx.cov["evaluations"] += 1
                if not ok:
                    ctx.violation("property_fails", f"a graph whose generators are given as {label} (n={n}, width={width}) behaves differently from the list form: "
                                  f"{str(got)[:100]} vs {str(base)[:100]}", {"cell": cell, "gens": gens, "state": st, "width": width}, True)
    nontrivial = [c for c in cells if not ("list/rows" in c or "list/flat" in c)]
    ctx.cov["distinct_nontrivial"] = len(nontrivial)
    ctx.cov["exhaustive"] = True
    ctx.cov["correspondence"]["cells"] = len(cells)
    ctx.cov["correspondence"]["cells_failing"] = sorted(c for c, (ok, _) in cells.items() if not ok)[:20]
    ctx.cov["disagreements_checked"] = ctx.cov["evaluations"]
    for c in sorted(cells)[:3] + sorted(nontrivial)[-3:]:
        ctx.sample({"cell": c, "evaluations": cells[c][1]})
    # the conversion model on the same element sequences (values, dtype, size): Coq evaluates normalize
    cases = []
    for _ in range(ctx.budget(100, 600)):
        size = rng.randint(1, 6)
        k = rng.randint(1, 4)
        dt, lo, hi = rng.choice([("I8", -128, 127), ("I16", -32768, 32767), ("I32", -2**31, 2**31 - 1), ("I64", -2**63, 2**63 - 1), ("U8", 0, 255)])
        batch = [[rng.choice([lo, hi, rng.randint(max(lo, -50), min(hi, 50))]) for _ in range(size)] for _ in range(k)]
        npd = {"I8": np.int8, "I16": np.int16, "I32": np.int32, "I64": np.int64, "U8": np.uint8}[dt]
        got = torch.as_tensor(np.array(batch, dtype=npd)).to(torch.int64).reshape((-1, size)).tolist()
        cases.append(f"({dt}, {size}%nat, {czll(batch)}, {czll(got)})")
    bad = ctx.coq_failing("Base Convert", "", "dtype * nat * list (list Z) * list (list Z)", cases,
                          "fun c => match c with (d, size, batch, got) => result_eqb z_list2_eqb (normalize d size (map (store_as d) (flatten batch))) (Ok got) end", "convert")
    for i in bad[:3]:
        ctx.violation("correspondence", "conversion model differs from torch.as_tensor(...).to(int64).reshape", {"coq_case": cases[i]}, False)
    # the FULL container model (ConvertFull.v: flat / rows / matrices / string, ragged and mis-sized inputs, error classes): normalize_states against
    # CayleyGraph.encode_states on an un-encoded graph, normalize_central against CayleyGraphDef.normalize_central_state
    from cayleypy import CayleyGraph, CayleyGraphDef
    ERRN = {"AssertionError": "AssertionErr", "ValueError": "ValueErr", "IndexError": "IndexErr", "KeyError": "KeyErr", "TypeError": "TypeErr", "RuntimeError": "RuntimeErr"}

    def clit(c):
        if isinstance(c, str):
            return f'(CStr "{c}")'
        if not c or not isinstance(c[0], list):
            return f"(C1 {czl(c)})"
        if not c[0] or not isinstance(c[0][0], list):
            return f"(C2 {czll(c)})"
        return "(C3 " + clist(c, czll) + ")"

    def res_lit(fn, fmt):
        try:
            return "(Ok " + fmt(fn()) + ")"
        except Exception as ex:  # pylint: disable=broad-except
            return "(Err " + ERRN.get(type(ex).__name__, "RuntimeErr") + ")"
    scases, ccases = [], []
    for _ in range(ctx.budget(150, 1500)):
        size = rng.choice([1, 2, 3, 4, 6])
        k = rng.randint(1, 3)
        batch = [[rng.randint(0, 9) for _ in range(size)] for _ in range(k)]
        r = rng.random()
        if r < 0.2:
            c = [v for row in batch for v in row]
        elif r < 0.4:
            c = batch
        elif r < 0.55 and size % 2 == 0:
            c = [[row[i:i + 2] for i in range(0, size, 2)] for row in batch]
        elif r < 0.65:
            c = [list(row) for row in batch] + [batch[0][:-1] if size > 1 else batch[0] + [0]]          # ragged rows
        elif r < 0.75:
            c = [v for row in batch for v in row] + [1]                                              # not a multiple of the state size (unless size = 1)
        elif r < 0.85:
            c = "".join(str(v) for v in batch[0])
        elif r < 0.92 and size % 2 == 0:
            c = [[row[i:i + 2] for i in range(0, size, 2)] for row in batch] + [[batch[0][:1]]]       # ragged at depth 3
        else:
            c = "".join(str(v) for v in batch[0])[:-1] + rng.choice(["a", " ", "-", "x"])
        g = CayleyGraph(CayleyGraphDef.create([list(range(1, size)) + [0]] if size > 1 else [[0]], central_state=[0] * size), device="cpu", bit_encoding_width=None)
        scases.append(f"({size}%nat, {clit(c)}, {res_lit(lambda: G.flat_states(g.encode_states(c)), czll)})")
        d0 = CayleyGraphDef.create([list(range(1, size)) + [0]] if size > 1 else [[0]])
        # central state: ONE state of the right length in every form (flat, one-row batch, matrix-shaped, digit string), plus ragged nesting and non-digit strings;
        # (a wrong total length is refused later, by the definition's own length check, which is not part of the container model)
        row = batch[0]
        r1 = rng.random()
        c1 = (row if r1 < 0.2 else [row] if r1 < 0.4 else [row[i:i + 2] for i in range(0, size, 2)] if r1 < 0.55 and size % 2 == 0 else
              "".join(str(v) for v in row) if r1 < 0.75 else [row, row[:-1]] if r1 < 0.85 and size > 1 else
              "".join(str(v) for v in row)[:-1] + rng.choice(["a", " ", "-", "x"]))
        ccases.append(f"({clit(c1)}, {res_lit(lambda: [int(v) for v in CayleyGraphDef.normalize_central_state(c1)], czl)})")
        ctx.count("container_model_cases")
    bad = ctx.coq_failing("Base Convert ConvertFull", "Open Scope string_scope.", "nat * container * result (list (list Z))", scases,
                          "fun c => match c with (size, cont, got) => result_eqb z_list2_eqb (normalize_states I64 size cont) got end", "convfull")
    for i in bad[:3]:
        ctx.violation("correspondence", "container model (ConvertFull.normalize_states) differs from CayleyGraph.encode_states", {"coq_case": scases[i]}, False)
    bad = ctx.coq_failing("Base Convert ConvertFull", "Open Scope string_scope.", "container * result (list Z)", ccases,
                          "fun c => match c with (cont, got) => result_eqb z_list_eqb (normalize_central I64 cont) got end", "convcentral")
    for i in bad[:3]:
        ctx.violation("correspondence", "container model (ConvertFull.normalize_central) differs from CayleyGraphDef.normalize_central_state", {"coq_case": ccases[i]}, False)


def replay(ctx, obj):
    run(ctx)
    cell = obj.get("case", {}).get("cell")
    hits = [v["what"] for v in ctx.violations if v["case"].get("cell") == cell] if cell else [v["what"] for v in ctx.violations]
    return "; ".join(hits[:3]) or None
