"""C17 - stored growth-function datasets agree with the graphs they describe.

Decision per row (DESIGN.md C17): the row is handed to the VERIFIED reference BFS of RefBfs.v (growth_correct: it returns the sizes of
the textbook layers = distance classes) as a Coq term and `check_growth_case` is evaluated by the kernel VM:
  orbit within budget  -> check_growth_exact  (the row IS the whole growth function, C17_check_exact_sound)
  larger               -> check_growth_prefix (the first terms are the true layer sizes, C17_check_prefix_sound), plus: starts with 1,
                          positive terms, sum = documented order of the group / orbit where one is documented (table ORDER below).
The graph a key denotes is built by the library constructor that datasets.py / datasets_test.py name for that dataset (T5 checks the names
against the current datasets.py by AST, fail-closed); constructors are tied to their documentation by C15/C16.
A naive Python BFS (tuples, Python ints) is the search oracle that turns a failing row into a replayable input.
"""
import ast
import csv
import glob
import json
import math
import os

import common
from common import cz, czl, cnll, clist, TieBroken


# dataset -> (class, constructor, key parser -> args description)
def _ints(key):
    return [int(x) for x in key.split(",")]


def _fact(n):
    return math.factorial(n)


def _sl_order(n, m):
    order = m ** (n * n - 1)
    p, mm, primes = 2, m, []
    while p * p <= mm:
        if mm % p == 0:
            primes.append(p)
            while mm % p == 0:
                mm //= p
        p += 1
    if mm > 1:
        primes.append(mm)
    for p in primes:
        for i in range(2, n + 1):
            order = order * (p ** i - 1) // p ** i
    return order


def _kcycles_order(n, k):
    if n == k and k > 2:
        return None
    if k % 2 == 0:
        return _fact(n)
    return _fact(n) // 2 if n >= 3 else None


PUZZLE_KEYS = {
    "cube_222_atm": ("Puzzles", "rubik_cube", (2, "ATM"), 88179840), "cube_222_htm": ("Puzzles", "rubik_cube", (2, "HTM"), 88179840),
    "cube_222_qtm": ("Puzzles", "rubik_cube", (2, "QTM"), 88179840), "cube_222_qstm": ("Puzzles", "rubik_cube", (2, "QSTM"), 88179840),
    "cube_222_fixed_htm": ("Puzzles", "rubik_cube", (2, "fixed_HTM"), 3674160), "cube_222_fixed_qtm": ("Puzzles", "rubik_cube", (2, "fixed_QTM"), 3674160),
    "cube_333_htm": ("Puzzles", "rubik_cube", (3, "HTM"), None), "cube_333_qtm": ("Puzzles", "rubik_cube", (3, "QTM"), None),
    "mini_pyramorphix": ("Puzzles", "mini_pyramorphix", (), None), "pyraminx": ("Puzzles", "pyraminx", (), None),
    "starminx": ("Puzzles", "starminx", (), None), "starminx_2": ("Puzzles", "starminx_2", (), None),
    "dino": ("GapPuzzles", "puzzle", ("dino",), None), "master_pyramorphix": ("GapPuzzles", "puzzle", ("master_pyramorphix",), None),
    "mastermorphix": ("GapPuzzles", "puzzle", ("mastermorphix",), None), "pyramorphix": ("GapPuzzles", "puzzle", ("pyramorphix",), None),
    "skewb_diamond": ("GapPuzzles", "puzzle", ("skewb_diamond",), None), "tetraminx": ("GapPuzzles", "puzzle", ("tetraminx",), None),
}
# keys stored once but documented (datasets_test) as the growth of a second definition too
PUZZLE_ALIASES = {"pyraminx": [("GapPuzzles", "puzzle", ("pyraminx",))], "starminx": [("GapPuzzles", "puzzle", ("starminx",))],
                  "starminx_2": [("GapPuzzles", "puzzle", ("starminx_2",))], "cube_222_qstm": [("GapPuzzles", "puzzle", ("2x2x2",))],
                  "cube_333_qtm": [("GapPuzzles", "puzzle", ("3x3x3",))]}

# dataset -> (class, constructor, key -> positional args, key -> documented order or None, coset?)
DATASETS = {
    "lrx_coset_growth": ("PermutationGroups", "lrx", lambda k: (len(k),), lambda k: math.comb(len(k), k.count("1")), True),
    "top_spin_coset_growth": ("PermutationGroups", "top_spin", lambda k: (len(k),), lambda k: math.comb(len(k), k.count("1")) if len(k) >= 6 else None, True),
    "lrx_cayley_growth": ("PermutationGroups", "lrx", lambda k: (int(k),), lambda k: _fact(int(k)), False),
    "lx_cayley_growth": ("PermutationGroups", "lx", lambda k: (int(k),), lambda k: _fact(int(k)), False),
    "top_spin_cayley_growth": ("PermutationGroups", "top_spin", lambda k: (int(k),),
                               lambda k: _fact(int(k)) if int(k) % 2 == 0 and int(k) >= 6 else (_fact(int(k)) // 2 if int(k) % 2 == 1 and int(k) >= 7 else None), False),
    "all_transpositions_cayley_growth": ("PermutationGroups", "all_transpositions", lambda k: (int(k),), lambda k: _fact(int(k)), False),
    "transposons_cayley_growth": ("PermutationGroups", "transposons", lambda k: (int(k),), lambda k: _fact(int(k)), False),
    "block_interchange_cayley_growth": ("PermutationGroups", "block_interchange", lambda k: (int(k),), lambda k: _fact(int(k)), False),
    "pancake_cayley_growth": ("PermutationGroups", "pancake", lambda k: (int(k),), lambda k: _fact(int(k)), False),
    "burnt_pancake_cayley_growth": ("PermutationGroups", "burnt_pancake", lambda k: (int(k),), lambda k: _fact(int(k)) * 2 ** int(k), False),
    "full_reversals_cayley_growth": ("PermutationGroups", "full_reversals", lambda k: (int(k),), lambda k: _fact(int(k)), False),
    "signed_reversals_cayley_growth": ("PermutationGroups", "signed_reversals", lambda k: (int(k),), lambda k: _fact(int(k)) * 2 ** int(k), False),
    "coxeter_cayley_growth": ("PermutationGroups", "coxeter", lambda k: (int(k),), lambda k: _fact(int(k)), False),
    "cyclic_coxeter_cayley_growth": ("PermutationGroups", "cyclic_coxeter", lambda k: (int(k),), lambda k: _fact(int(k)), False),
    "hungarian_rings_growth": ("Puzzles", "hungarian_rings", lambda k: tuple(_ints(k)), lambda k: None, False),
    "all_cycles_cayley_growth": ("PermutationGroups", "all_cycles", lambda k: (int(k),), lambda k: _fact(int(k)), False),
    "heisenberg_growth": ("MatrixGroups", "heisenberg", lambda k: tuple(_ints(k)), lambda k: _ints(k)[1] ** (2 * _ints(k)[0] - 3), False),
    "sl_2_fund_roots_growth": ("MatrixGroups", "special_linear_fundamental_roots", lambda k: (2, int(k)), lambda k: _sl_order(2, int(k)), False),
    "sl_3_fund_roots_growth": ("MatrixGroups", "special_linear_fundamental_roots", lambda k: (3, int(k)), lambda k: _sl_order(3, int(k)), False),
    "sl_2_root_weyl_growth": ("MatrixGroups", "special_linear_root_weyl", lambda k: (2, int(k)), lambda k: _sl_order(2, int(k)), False),
    "sl_3_root_weyl_growth": ("MatrixGroups", "special_linear_root_weyl", lambda k: (3, int(k)), lambda k: _sl_order(3, int(k)), False),
    "rapaport_m1_cayley_growth": ("PermutationGroups", "rapaport_m1", lambda k: (int(k),), lambda k: _fact(int(k)), False),
    "rapaport_m2_cayley_growth": ("PermutationGroups", "rapaport_m2", lambda k: (int(k),), lambda k: _fact(int(k)), False),
    "wrapped_k_cycles_cayley_growth": ("PermutationGroups", "wrapped_k_cycles", lambda k: tuple(_ints(k)), lambda k: None, False),
    "stars_cayley_growth": ("PermutationGroups", "stars", lambda k: (int(k),), lambda k: _fact(int(k)), False),
    "larx_cayley_growth": ("PermutationGroups", "larx", lambda k: (int(k),), lambda k: None, False),
    "lsl_cycles_cayley_growth": ("PermutationGroups", "lsl_cycles", lambda k: (int(k),), lambda k: _fact(int(k)), False),
    "increasing_k_cycles_cayley_growth": ("PermutationGroups", "increasing_k_cycles", lambda k: tuple(_ints(k)), lambda k: _kcycles_order(*_ints(k)), False),
    "consecutive_k_cycles_cayley_growth": ("PermutationGroups", "consecutive_k_cycles", lambda k: tuple(_ints(k)), lambda k: None, False),
    "down_cycles_cayley_growth": ("PermutationGroups", "down_cycles", lambda k: (int(k),), lambda k: _fact(int(k)), False),
    "prefix_cycles_cayley_growth": ("PermutationGroups", "prefix_cycles", lambda k: (int(k),), lambda k: _fact(int(k)), False),
    "derangements_cayley_growth": ("PermutationGroups", "derangements", lambda k: (int(k),), lambda k: _fact(int(k)) if int(k) >= 4 else None, False),
    "involutive_derangements_cayley_growth": ("PermutationGroups", "involutive_derangements", lambda k: (int(k),), lambda k: None, False),
    "globes_growth": ("Puzzles", "globe_puzzle", lambda k: tuple(_ints(k)), lambda k: None, False),
}
# datasets.py computes these two by closed formulas (Stirling numbers / Mahonian numbers), not by a constructor call
FORMULA_DATASETS = {"all_transpositions_cayley_growth", "coxeter_cayley_growth"}
# heisenberg is called with keywords n=, modulo= in datasets.py
KW_DATASETS = {"heisenberg_growth": ("n", "modulo")}
# _compute_ function name when it differs from _compute_<dataset>
COMPUTE_FN = {"sl_2_fund_roots_growth": "_compute_sl_fund_roots_growth", "sl_3_fund_roots_growth": "_compute_sl_fund_roots_growth",
              "sl_2_root_weyl_growth": "_compute_sl_root_weyl_growth", "sl_3_root_weyl_growth": "_compute_sl_root_weyl_growth"}


# ------------------------------------------------------------------------------------------------
# T5: the constructor datasets.py names for each dataset (AST, fail-closed)
# ------------------------------------------------------------------------------------------------
def t5_constructors():
    path = os.path.join(common.REPO, "cayleypy", "datasets.py")
    tree = ast.parse(open(path).read())
    out = {}
    for node in tree.body:
        if isinstance(node, ast.FunctionDef) and node.name.startswith("_compute_"):
            calls = set()
            for sub in ast.walk(node):
                if isinstance(sub, ast.Call):
                    f = sub.func
                    if isinstance(f, ast.Attribute) and isinstance(f.value, ast.Name) and f.value.id in ("PermutationGroups", "MatrixGroups", "Puzzles", "GapPuzzles"):
                        calls.add((f.value.id, f.attr))
                    if isinstance(f, ast.Name) and f.id == "prepare_graph":
                        if not (sub.args and isinstance(sub.args[0], ast.Constant) and isinstance(sub.args[0].value, str)):
                            raise TieBroken(f"datasets.py: {node.name} calls prepare_graph with a non-literal name")
                        calls.add(("PermutationGroups", sub.args[0].value))      # prepare_graph("lrx", n=..) is PermutationGroups.lrx(n) (C15 dispatch)
            out[node.name] = calls
    return out


def check_t5(ctx):
    fns = t5_constructors()
    checked = 0
    for ds, (cls, ctor, *_rest) in DATASETS.items():
        fn = COMPUTE_FN.get(ds, "_compute_" + ds)
        if fn not in fns:
            continue                                   # dataset documented only by datasets_test.py / data/README.md
        if ds in FORMULA_DATASETS:
            if fns[fn]:
                raise TieBroken(f"datasets.py: {fn} used to be a closed formula and now calls {sorted(fns[fn])}")
            continue
        if fns[fn] != {(cls, ctor)}:
            raise TieBroken(f"datasets.py: {fn} builds {sorted(fns[fn])}, the check assumes {cls}.{ctor}")
        checked += 1
    ctx.count("t5_constructor_names_checked", checked)


# ------------------------------------------------------------------------------------------------
def build_def(cls, ctor, args, ds=None, key=None, coset=False):
    import cayleypy
    from cayleypy import PermutationGroups, MatrixGroups, Puzzles, GapPuzzles
    obj = {"PermutationGroups": PermutationGroups, "MatrixGroups": MatrixGroups, "Puzzles": Puzzles, "GapPuzzles": GapPuzzles}[cls]
    if ds in KW_DATASETS:
        d = getattr(obj, ctor)(**dict(zip(KW_DATASETS[ds], args)))
    elif cls == "MatrixGroups":
        d = getattr(obj, ctor)(args[0], modulo=args[1])
    else:
        d = getattr(obj, ctor)(*args)
    if coset:
        d = d.with_central_state(key)
    return d


def def_to_model(d):
    """(coq rb_gens literal, coq start literal, python generator functions, python start tuple, n_gens, state_len)"""
    start = [int(v) for v in d.central_state]
    if d.is_permutation_group():
        perms = [[int(v) for v in p] for p in d.generators_permutations]
        lit = f"(RBPerm {cnll(perms)})"
        fns = [(lambda s, p=tuple(p): tuple(s[i] for i in p)) for p in perms]
        return lit, czl(start), fns, tuple(start), len(perms), len(start)
    mats = [[[int(v) for v in r] for r in g.matrix.tolist()] for g in d.generators_matrices]
    n = len(mats[0])
    m = len(start) // n
    mod = int(d.generators_matrices[0].modulo)
    lit = f"(RBMatrix {cz(mod)} {n}%nat {m}%nat " + clist(mats, lambda M: clist(M, lambda r: clist(r, cz))) + "%Z)"

    def mk(M):
        def f(s):
            out = []
            for i in range(n):
                for j in range(m):
                    v = sum(M[i][k] * s[k * m + j] for k in range(n))
                    out.append(v % mod if mod > 0 else v)
            return tuple(out)
        return f
    return lit, czl(start), [mk(M) for M in mats], tuple(start), len(mats), len(start)


def naive_growth(fns, start, max_states, max_layers):
    """Textbook BFS over tuples; returns (sizes, complete?)."""
    seen = {start}
    layer = [start]
    sizes = [1]
    while len(sizes) < max_layers + 1:
        nxt = []
        for s in layer:
            for f in fns:
                t = f(s)
                if t not in seen:
                    seen.add(t)
                    nxt.append(t)
        if not nxt:
            return sizes, True
        sizes.append(len(nxt))
        layer = nxt
        if len(seen) > max_states:
            return sizes, False
    return sizes, False


def numpy_perm_growth(perms, start, max_states, max_layers):
    """Vectorised BFS for permutation graphs (oracle only): layer sizes while the number of seen states stays within max_states."""
    import numpy as np
    P_ = np.array(perms, dtype=np.int64)
    dt = np.int8 if max(start) < 127 else np.int16
    cur = np.array([start], dtype=dt)

    def keys(a):
        return np.ascontiguousarray(a).view(np.dtype((np.void, a.dtype.itemsize * a.shape[1]))).reshape(-1)
    seen = keys(cur)
    sizes = [1]
    while len(sizes) < max_layers + 1:
        nxt = np.concatenate([cur[:, p] for p in P_], axis=0)
        k = keys(nxt)
        uk, idx = np.unique(k, return_index=True)
        fresh = ~np.isin(uk, seen)
        if not fresh.any():
            return sizes, True
        cur = nxt[idx[fresh]]
        seen = np.concatenate([seen, uk[fresh]])
        sizes.append(int(fresh.sum()))
        if len(seen) > max_states:
            return sizes, False
    return sizes, False


def load_rows(ctx):
    """Rows as the loader returns them, cross-checked with a raw parse of the files."""
    from cayleypy import load_dataset
    data_dir = os.path.join(common.REPO, "cayleypy", "data")
    files = sorted(glob.glob(os.path.join(data_dir, "*.csv")))
    if not files:
        raise TieBroken("no dataset files under cayleypy/data")
    rows = []
    for f in files:
        ds = os.path.basename(f)[:-4]
        raw = [(k, json.loads(v)) for k, v in csv.reader(open(f, encoding="utf-8"))]
        loaded = load_dataset(ds)
        if list(loaded.items()) != raw and dict(raw) != dict(loaded):
            ctx.violation("property_fails", f"load_dataset({ds!r}) does not return what {os.path.basename(f)} stores", {"dataset": ds}, True)
        if len(dict(raw)) != len(raw):
            ctx.violation("property_fails", f"{os.path.basename(f)} stores one key twice", {"dataset": ds}, True)
        for k, v in loaded.items():
            rows.append((ds, k, v))
    return rows


def row_targets(ds, key):
    """The definitions a row describes: [(class, ctor, args, order, coset)]."""
    if ds == "puzzles_growth":
        if key not in PUZZLE_KEYS:
            return None
        cls, ctor, args, order = PUZZLE_KEYS[key]
        out = [(cls, ctor, args, order, False)]
        for c2, t2, a2 in PUZZLE_ALIASES.get(key, []):
            out.append((c2, t2, a2, order, False))
        return out
    if ds not in DATASETS:
        return None
    cls, ctor, argf, orderf, coset = DATASETS[ds]
    return [(cls, ctor, argf(key), orderf(key), coset)]


def run(ctx):
    import translators
    translators.gen_all(strict=True)
    ctx.cov["trusted_base"] = ["Coq 8.16.1 kernel (vm_compute runs the verified reference BFS on every row)",
                               "RefBfs.v growth_fuel/growth_prefix proved correct against Graph.v (C17_growth_correct, C17_check_*_sound)",
                               "library constructors denote the keys (tied to their documentation by C15/C16); T5 checks the constructor names against datasets.py",
                               "documented-order table ORDER (n!, n!/2, 2^n n!, C(n,k), m^(2n-3), |SL(n,Z/m)|, 2x2x2 cube constants) - trusted input",
                               "naive Python BFS only to exhibit failing rows"]
    ctx.cov["rule"] = "case = (dataset, key[, alias definition]); every row is non-trivial when its orbit has > 1 vertex; distinct by (dataset, key, definition)"
    ctx.prove(extra=["RefBfsRun", "GrowthFormulas", "GrowthFormulasFast"])
    check_t5(ctx)
    rows = load_rows(ctx)
    exact_cap = ctx.budget(25000, 400000)
    prefix_cap = ctx.budget(3000, 120000)
    naive_cap = ctx.budget(20000, 200000)
    cases, metas, costs = [], [], []
    perms_of = {}
    unknown = []
    for ds, key, row in rows:
        targets = row_targets(ds, key)
        if targets is None:
            unknown.append(f"{ds}:{key}")
            continue
        case0 = {"dataset": ds, "key": key}
        if not (isinstance(row, list) and row and all(isinstance(v, int) and not isinstance(v, bool) for v in row)):
            ctx.violation("property_fails", f"{ds}[{key}] is not a non-empty list of integers", case0, True)
            continue
        if row[0] != 1 or any(v <= 0 for v in row):
            ctx.violation("property_fails", f"{ds}[{key}] does not start with 1 or has a non-positive term: {row[:6]}...", case0, True)
            continue
        total = sum(row)
        for cls, ctor, args, order, coset in targets:
            case = dict(case0, definition=f"{cls}.{ctor}{tuple(args)}")
            try:
                d = build_def(cls, ctor, args, ds, key, coset)
            except Exception as ex:  # pylint: disable=broad-except
                ctx.violation("property_fails", f"{ds}[{key}]: the graph the key denotes cannot be built: {cls}.{ctor}{tuple(args)} raises {type(ex).__name__}", case, True)
                continue
            glit, slit, fns, start, ngens, slen = def_to_model(d)
            ctx.case_seen(case, total > 1)
            if order is not None:
                ctx.count("sum_checked")
                if total != order:
                    ctx.violation("property_fails", f"{ds}[{key}] sums to {total}, the documented order of the group/orbit is {order}", dict(case, claim="sum"), True)
            else:
                ctx.count("sum_unknown_order")
            exact = total <= exact_cap and not (ds == "puzzles_growth" and key.startswith("cube_333"))
            if exact:
                sub = row
                ctx.count("exact_rows")
            else:
                k, cum = 0, row[0]
                while k + 1 < len(row) and cum + row[k + 1] <= prefix_cap:
                    k += 1
                    cum += row[k]
                k = max(k, min(1, len(row) - 1))
                sub = row[: k + 1]
                ctx.count("prefix_rows")
                ctx.count("prefix_layers_checked", len(sub))
            perms_of[len(cases)] = [[int(v) for v in p] for p in d.generators_permutations] if d.is_permutation_group() else None
            cases.append(f"{{| gc_gens := {glit}; gc_start := {slit}; gc_exact := {'true' if exact else 'false'}; gc_row := {czl(sub)} |}}")
            metas.append((case, fns, start, sub, exact, row))
            costs.append(sum(sub) * ngens * (slen if d.is_permutation_group() else slen * 3))
    if unknown:
        # a dataset row the check cannot interpret is a broken tie, never a silent skip
        raise TieBroken("dataset rows with no known denotation: " + ", ".join(unknown[:8]))
    def evaluate(idxs, case_lits, cost_of, label):
        """Kernel evaluation of check_growth_case on the selected cases, shards balanced by cost. Returns the failing indices."""
        if not idxs:
            return []
        nb = max(1, min(len(idxs), common.NPROC * ctx.budget(2, 4)))
        order_idx = sorted(idxs, key=lambda i: -cost_of[i])
        bins = [[] for _ in range(nb)]
        for j, i in enumerate(order_idx):
            bins[j % nb if (j // nb) % 2 == 0 else nb - 1 - j % nb].append(i)
        size = max(len(b) for b in bins)
        flat = []
        for b in bins:
            flat += b + [None] * (size - len(b))
        trivial = "{| gc_gens := RBPerm [[0]%nat]; gc_start := [0]%Z; gc_exact := true; gc_row := [1]%Z |}"
        bad_ = ctx.coq_failing("Base Perm Matrix RefBfs RefBfsRun", "", "growth_case", [case_lits[i] if i is not None else trivial for i in flat],
                               "check_growth_case", label, shard=size, timeout=ctx.budget(2400, 9000))
        return [flat[i] for i in bad_ if flat[i] is not None]

    import time as _t
    _t0 = _t.time()
    # phase 1, cheap screen of EVERY row: the first layers (at most ~600 states). A row that describes another graph fails here already,
    # before the expensive whole-orbit run is attempted on a graph that may be far larger than the row claims
    screen_lits, screen_cost = [], []
    for (case, fns, start, sub, exact, row), lit in zip(metas, cases):
        k, cum = 0, row[0]
        while k + 1 < len(sub) and cum + sub[k + 1] <= 600:
            k += 1
            cum += sub[k]
        k = max(k, min(1, len(sub) - 1))
        head = lit[: lit.index("gc_exact :=")]
        screen_lits.append(head + f"gc_exact := false; gc_row := {czl(sub[: k + 1])} |}}")
        screen_cost.append(cum)
    screened_out = evaluate(list(range(len(cases))), screen_lits, screen_cost, "screen")
    ctx.cov["correspondence"]["rows_screened_by_prefix"] = len(cases)
    # phase 2: the full decision (whole growth function, or the long prefix) for the rows that passed the screen
    bad_full = evaluate([i for i in range(len(cases)) if i not in set(screened_out)], cases, costs, "growth")
    ctx.cov["timing_s"] = {"verified_bfs_in_coq": round(_t.time() - _t0, 1)}
    ctx.cov["disagreements_checked"] += len(cases)
    ctx.cov["correspondence"]["rows_decided_by_the_verified_bfs"] = len(cases)
    failing = sorted(set(screened_out) | set(bad_full))
    for i in failing:
        case, fns, start, sub, exact, row = metas[i]
        sizes, complete = naive_growth(fns, start, max(naive_cap, 2 * sum(sub)), len(sub) + 1)
        if exact:
            good = complete and sizes == sub
        else:
            good = sizes[: len(sub)] == sub
        if good:
            ctx.violation("correspondence", f"the verified reference BFS rejects {case['dataset']}[{case['key']}] but a naive Python BFS accepts it", case, False)
        else:
            ctx.violation("property_fails", f"{case['dataset']}[{case['key']}] stores {sub[:12]}{'...' if len(sub) > 12 else ''}; the graph {case['definition']} has "
                          f"{sizes[:12]}{'...' if len(sizes) > 12 else ''}{' (complete)' if complete else ''}", dict(case, claim="growth"), True)
    # the two datasets that datasets.py computes by closed formulas, not by BFS (adjacent transpositions: Mahonian numbers; all transpositions:
    # Stirling numbers): EVERY row, up to n = 30, is compared with the Gallina formula, which is PROVED to be the growth function of that
    # graph for every n (C17_coxeter_growth_correct, C17_all_transpositions_growth_correct) - these rows are decided completely
    fcases, fmetas = [], []
    for ds, key, row in rows:
        if ds in FORMULA_DATASETS:
            fn = "coxeter_growth" if ds.startswith("coxeter") else "all_transpositions_growth_fast"   # the memoised row, proved equal to the recursive model
            fcases.append(f"({fn} {int(key)}%nat, " + clist(row, lambda v: f"{int(v)}%N") + ")")
            fmetas.append({"dataset": ds, "key": key, "claim": "closed_formula"})
    badf = ctx.coq_failing("Base GrowthFormulas GrowthFormulasFast", "", "list N * list N", fcases,
                           "fun c => (Nat.eqb (List.length (fst c)) (List.length (snd c))) && forallb (fun p => N.eqb (fst p) (snd p)) (combine (fst c) (snd c))", "formulas")
    ctx.cov["correspondence"]["formula_rows_decided_completely"] = len(fcases)
    ctx.cov["disagreements_checked"] += len(fcases)
    for i in badf:
        ctx.violation("property_fails", f"{fmetas[i]['dataset']}[{fmetas[i]['key']}] differs from the proved growth function of that graph (closed formula)", fmetas[i], True)
    # always-on search: naive BFS on the small rows (independent of Coq)
    n_naive = 0
    for i, (case, fns, start, sub, exact, row) in enumerate(metas):
        if i in failing or sum(sub) > ctx.budget(1000, 30000):
            continue
        sizes, complete = naive_growth(fns, start, naive_cap, len(sub) + 1)
        n_naive += 1
        good = (complete and sizes == sub) if exact else sizes[: len(sub)] == sub
        if not good:
            ctx.violation("property_fails", f"{case['dataset']}[{case['key']}] stores {sub[:12]}; a naive BFS of {case['definition']} gives {sizes[:12]}", dict(case, claim="growth"), True)
    ctx.cov["search"]["rows_rechecked_by_naive_bfs"] = n_naive
    # oracle-only LONG prefixes for the rows the verified BFS decided only by a short prefix (quick tier): a vectorised BFS follows the stored row while the
    # orbit explored stays below 60 000 states (a wrong puzzle definition or generator family often agrees with the row for the first six or seven layers)
    import numpy as _np
    n_long = 0
    for i, (case, fns, start, sub, exact, row) in enumerate(metas):
        if exact or i in failing or perms_of.get(i) is None or len(sub) >= len(row):
            continue
        k, cum = len(sub) - 1, sum(sub)
        while k + 1 < len(row) and cum + row[k + 1] <= ctx.budget(60000, 250000):
            k += 1
            cum += row[k]
        if k + 1 <= len(sub):
            continue
        sizes, complete = numpy_perm_growth(perms_of[i], list(start), cum, k + 1)
        n_long += 1
        if sizes[: k + 1] != row[: k + 1]:
            ctx.violation("property_fails", f"{case['dataset']}[{case['key']}] stores {row[: k + 1]}; the graph {case['definition']} has {sizes[: k + 1]} "
                          f"(layers beyond the verified prefix, oracle BFS)", dict(case, claim="growth_long_prefix"), True)
    ctx.cov["search"]["rows_followed_by_long_oracle_prefix"] = n_long
    ctx.cov["timing_s"]["total"] = round(_t.time() - ctx.t0, 1)
    ctx.cov["distribution"]["rows"] = len(rows)
    ctx.cov["distribution"]["datasets"] = len({r[0] for r in rows})
    ctx.cov["documented_order_table"] = {ds: ("per key" if ds != "puzzles_growth" else "2x2x2 constants") for ds in list(DATASETS) + ["puzzles_growth"]}
    for m in metas[:3] + metas[-3:]:
        ctx.sample(dict(m[0], rows_checked=m[3][:10], exact=m[4]))


def replay(ctx, obj):
    from cayleypy import load_dataset
    case = obj.get("case", {})
    ds, key = case.get("dataset"), case.get("key")
    if obj.get("kind") != "property_fails" or ds is None or key is None:
        run(ctx)
        return "; ".join(v["what"] for v in ctx.violations[:3]) or None
    row = load_dataset(ds).get(key)
    if row is None:
        return f"{ds}[{key}] no longer exists"
    for cls, ctor, args, order, coset in row_targets(ds, key) or []:
        if case.get("definition") and case["definition"] != f"{cls}.{ctor}{tuple(args)}":
            continue
        if case.get("claim") == "sum":
            if order is not None and sum(row) != order:
                return f"{ds}[{key}] sums to {sum(row)}, documented order {order}"
            continue
        d = build_def(cls, ctor, args, ds, key, coset)
        _g, _s, fns, start, _n, _l = def_to_model(d)
        sizes, complete = naive_growth(fns, start, 300000, len(row) + 1)
        k = min(len(sizes), len(row))
        if sizes[:k] != row[:k] or (complete and sizes != row):
            return f"{ds}[{key}] stores {row[:12]}, naive BFS gives {sizes[:12]}"
    return None
