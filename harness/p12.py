"""C12 - automatic path finding returns only valid paths, shortest within its BFS radius."""
import graphs as G
import pathrun as P
import bfsrun
import p04
from common import cz, czl, czll, cnl, clist, TieBroken


def check_fp(gd, dist_to_c, depth_eff, q, r):
    """dist_to_c: true directed distance q -> central (None when unreachable)."""
    d = dist_to_c.get(tuple(q))
    if isinstance(r, tuple):
        return f"find_path raised {r[2]}"
    if r is None:
        return f"no path returned although the true distance {d} <= 2*{depth_eff}" if (d is not None and d <= 2 * depth_eff) else None
    if G.run_path(gd, q, r) != tuple(gd["central"]):
        return f"path {r} replayed from the start state does not end at the central state"
    if d is None:
        return "a path was returned for a state from which the central state is unreachable"
    if d <= 2 * depth_eff and len(r) != d:
        return f"path length {len(r)} != true distance {d} (within twice the BFS depth {depth_eff})"
    return None


def reverse_graph(gd):
    """The graph with every edge reversed (inverted generators); distances from central there = distances to central here."""
    if gd["kind"] == "perm":
        return dict(gd, gens=[G.inverse_perm(g) for g in gd["gens"]])
    return None


def run(ctx):
    import translators
    import cayleypy
    translators.gen_all(strict=True)
    rng = ctx.rng
    ctx.cov["trusted_base"] = p04.TB + ["graphs whose name has a pre-trained model need the network and are excluded (zoo graphs are unnamed)"]
    ctx.cov["rule"] = ("case = (graph, configuration, keyword arguments of the first call, sequence of start states queried on ONE object); non-trivial when some query has "
                       "true distance >= 2 or gets no path; distinct by canonical JSON")
    ctx.assumptions += ["NoColl on all states a run touches"]
    ctx.prove(extra=["PathRun"])
    coq_cases, metas = [], []
    for gi_ in range(ctx.budget(45, 400)):
        stress = gi_ % 4 == 3
        gd = P.gen_invertible_graph(rng, ctx.budget(800 if stress else 300, 2500))
        cfgd = G.gen_config(rng, gd)
        if stress:
            cfgd["batch_size"] = rng.choice([1, 2, 3])       # the internal BFS runs batched ...
        graph = G.make_graph(gd, cfgd)
        ic = bool(graph.definition.generators_inverse_closed)
        layers, dist = G.ref_bfs(gd, [gd["central"]])
        # distances TO the central state
        if ic:
            dist_to_c = dist
        else:
            if gd["kind"] == "perm":
                rg = reverse_graph(gd)
            else:
                inv = graph.with_inverted_generators.definition.generators_matrices
                rg = dict(gd, mats=[m.matrix.tolist() for m in inv])
            rl, dist_to_c = G.ref_bfs(rg, [gd["central"]])
            layers = rl
        ecc = len(layers) - 1
        depth = rng.choice([1, 1, 2, 3, max(1, ecc // 2), ecc + 1, None])
        explore = rng.choice([None, None, 3, 10])
        if stress and len(layers) >= 4:
            # ... and is cut by the size limit exactly at / just below the size of a later layer (the limit is reached part-way through the batches)
            depth = None
            explore = max(2, rng.choice([len(l) for l in layers[2:]]) - rng.choice([0, 0, 1]))
            grow = [k for k in range(2, len(layers)) if len(layers[k]) > len(layers[k - 1]) + 1]
            if grow and rng.random() < 0.6:
                explore = len(layers[rng.choice(grow)]) - 1 if rng.random() < 0.3 else len(layers[rng.choice(grow) - 1]) + 1   # cut as early as possible inside a growing layer
            ctx.count("stress_batched_size_limited")
        kw = {}
        if depth is not None:
            kw["max_diameter"] = depth
        if explore is not None:
            kw["max_layer_size_to_explore"] = explore
        sizes = [len(l) for l in layers]

        def eff_depth(kwj):
            deff = 0
            for i in range(1, (kwj.get("max_diameter") or 50) + 1):
                if i >= len(sizes):
                    break
                deff = i
                if sizes[i] >= (kwj.get("max_layer_size_to_explore") or 10**6):
                    break
            return deff
        qs = P.query_states(rng, gd, layers, dist_to_c, eff_depth(kw), ctx.budget(4, 7))
        qlits = []
        nontrivial = False
        kws = []
        conts = []
        for j, q in enumerate(qs):
            # later calls pass the same or different BFS arguments: the answer must be that of a fresh graph with the CURRENT arguments
            r0 = rng.random()
            kwj = kw if (j == 0 or r0 < 0.4) else ({} if r0 < 0.6 else {"max_diameter": rng.randint(1, 4)})
            kws.append(kwj)
            deff = eff_depth(kwj)
            cont = G.pick_container(rng, list(q), 0.7)         # the start state as a list, or as a NumPy array / tensor of any integer type that holds it
            conts.append(cont)
            ctx.count("start_container_" + cont)
            r, lit = P.res_path_lit(lambda: cayleypy.find_path(graph, G.in_container(cont, list(q)), **kwj))
            qlits.append(f"({kwj.get('max_diameter') or 50}%N, {kwj.get('max_layer_size_to_explore') or 10**6}, {czl(q)}, {lit})")
            case = {"graph": gd, "config": cfgd, "kwargs_per_call": kws[:], "queries": qs[: j + 1], "containers": conts[:], "finder": "find_path"}
            d = dist_to_c.get(tuple(q))
            nontrivial = nontrivial or d is None or d >= 2
            ctx.count("fp_" + ("unreachable" if d is None else "within_2D" if d <= 2 * deff else "beyond_2D"))
            msg = check_fp(gd, dist_to_c, deff, q, r)
            if msg:
                ctx.violation("property_fails", msg, case, True)
            # history independence: the same call on a fresh object
            fr, _ = P.res_path_lit(lambda: cayleypy.find_path(G.make_graph(gd, cfgd), list(q), **kwj))          # fresh object, plain list
            if fr != r:
                ctx.violation("property_fails", f"find_path answers {r} after earlier calls but {fr} on a fresh graph", case, True)
        # find_path on a graph obtained by modified_copy (same generators, another central state): a graph like any other
        if gd["kind"] == "perm" and gi_ % 3 == 1 and len(dist_to_c) >= 4:
            other = list(rng.choice(sorted(dist_to_c)))
            gd_o = dict(gd, central=other)
            gcopy = graph.modified_copy(graph.definition.with_central_state(other))
            if ic:
                _, dist_o = G.ref_bfs(gd_o, [other])
            else:
                _, dist_o = G.ref_bfs(reverse_graph(gd_o), [other])
            lay_o = {}
            for s_, d_ in dist_o.items():
                lay_o.setdefault(d_, []).append(s_)
            sizes_o = [len(lay_o[i]) for i in range(len(lay_o))]
            kwc = {"max_diameter": rng.choice([1, 2, 3])}
            deff_o = min(kwc["max_diameter"], len(sizes_o) - 1)
            for q in [list(rng.choice(sorted(dist_o))) for _ in range(4)]:
                r, _ = P.res_path_lit(lambda: cayleypy.find_path(gcopy, list(q), **kwc))
                ctx.count("find_path_on_modified_copy")
                msg = check_fp(gd_o, dist_o, deff_o, q, r)
                if msg:
                    ctx.violation("property_fails", "on a modified copy (same generators, other central state): " + msg,
                                  {"graph": gd_o, "config": cfgd, "kwargs_per_call": [kwc], "queries": [list(q)], "finder": "find_path", "derived_from_central": list(gd["central"])}, True)
                    break
        if len(layers) >= 4:
            # many more start states between D and 2D (implementation against the reference distances only; the model replays the queries above);
            # on coset graphs (not vertex-transitive) the neighbourhood of a start state may grow faster than the ball around the central state
            deff = eff_depth(kw)
            ring = sorted(s for s, d in dist_to_c.items() if deff < d <= 2 * deff)
            for q in rng.sample(ring, min(len(ring), ctx.budget(40, 200) if stress else ctx.budget(15, 100))):
                r, _ = P.res_path_lit(lambda: cayleypy.find_path(graph, list(q), **kw))
                ctx.count("fp_stress_ring_queries")
                msg = check_fp(gd, dist_to_c, deff, q, r)
                if msg:
                    ctx.violation("property_fails", msg, {"graph": gd, "config": cfgd, "kwargs_per_call": [kw], "queries": [list(q)], "finder": "find_path"}, True)
                    break
        ctx.case_seen({"graph": gd, "config": cfgd, "kwargs": kw, "queries": qs}, nontrivial)
        ctx.count("directed" if not ic else "undirected")
        coq_cases.append(f"(Build_fp_case {G.coq_gdesc(gd, graph)} {P.inv_mats_lit(graph)} {graph.batch_size} {clist(qlits)})")
        metas.append({"graph": gd, "config": cfgd, "kwargs": kw, "queries": qs})
    ctx.sample(metas[0]); ctx.sample(metas[-1])
    bad = ctx.coq_failing("Base Bfs BfsRun GraphImpl Hash Tensor PathRun", "", "fp_case", coq_cases, "check_fp_case", "fp", shard=ctx.budget(8, 20))
    ctx.cov["disagreements_checked"] = sum(len(m["queries"]) for m in metas)
    for i in bad[:3]:
        ctx.violation("correspondence", "find_path model differs from the implementation", metas[i], False)


def replay(ctx, obj):
    import cayleypy
    case = obj.get("case", {})
    if obj.get("kind") == "property_fails" and case.get("finder") == "find_path":
        gd, cfgd, kws, qs = case["graph"], case["config"], case["kwargs_per_call"], case["queries"]
        graph = G.make_graph(gd, cfgd)
        if case.get("derived_from_central") is not None:
            base_ = G.make_graph(dict(gd, central=case["derived_from_central"]), cfgd)
            graph = base_.modified_copy(base_.definition.with_central_state(list(gd["central"])))
        ic = bool(graph.definition.generators_inverse_closed)
        if ic:
            layers, dist_to_c = G.ref_bfs(gd, [gd["central"]])
        else:
            rg = reverse_graph(gd) if gd["kind"] == "perm" else dict(gd, mats=[m.matrix.tolist() for m in graph.with_inverted_generators.definition.generators_matrices])
            layers, dist_to_c = G.ref_bfs(rg, [gd["central"]])
        sizes = [len(l) for l in layers]
        msg = None
        for qi_, (q, kw) in enumerate(zip(qs, kws)):
            cont = (case.get("containers") or ["list"] * len(qs))[qi_]
            deff = 0
            for i in range(1, (kw.get("max_diameter") or 50) + 1):
                if i >= len(sizes):
                    break
                deff = i
                if sizes[i] >= (kw.get("max_layer_size_to_explore") or 10**6):
                    break
            r, _ = P.res_path_lit(lambda: cayleypy.find_path(graph, G.in_container(cont, list(q)), **kw))
            msg = check_fp(gd, dist_to_c, deff, q, r)
            fr, _ = P.res_path_lit(lambda: cayleypy.find_path(G.make_graph(gd, cfgd), list(q), **kw))
            if msg is None and fr != r:
                msg = f"find_path answers {r} after earlier calls but {fr} on a fresh graph"
        return msg
    run(ctx)
    return "; ".join(v["what"] for v in ctx.violations[:3]) or None
