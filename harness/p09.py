"""C09 - an early-stopped BFS returns exactly the documented prefix of the full BFS."""
import graphs as G
import bfsrun
import p01
from common import TieBroken


def expected_prefix(sizes_true, kw, stopk, hash_layer_of=None):
    """Documented stopping rule evaluated on the TRUE layer sizes.
    Returns (completed, reported sizes, callback trace as list of sizes)."""
    maxd = kw.get("max_diameter", 1000000)
    explore = kw.get("max_layer_size_to_explore", 10**12)
    sizes = [sizes_true[0]]
    trace = []
    for k in range(1, maxd + 1):
        if k >= len(sizes_true):
            return True, sizes, trace
        sizes.append(sizes_true[k])
        if sizes_true[k] >= explore:
            return False, sizes, trace
        if stopk is not None:
            trace.append(sizes_true[k])
            kind, v = stopk
            fire = (kind == "at" and len(trace) == v) or (kind == "size" and sizes_true[k] >= v) or (kind == "hash" and hash_layer_of == k)
            if fire:
                return False, sizes, trace
    return False, sizes, trace


def oracle_prefix(graph, gd, starts, kw, stopk, obs, hash_layer_of):
    import torch
    layers, dist = G.ref_bfs(gd, starts)
    st = [len(l) for l in layers]
    if "err" in obs:
        return f"bfs raised {obs['exc']}"
    completed, sizes, trace = expected_prefix(st, kw, stopk, hash_layer_of)
    if obs["sizes"] != sizes:
        return f"reported layer sizes {obs['sizes']} are not the documented prefix {sizes} of the full BFS {st}"
    if obs["completed"] != completed:
        return f"bfs_completed = {obs['completed']} but the documented rule gives {completed}"
    store = kw.get("max_layer_size_to_store", 1000) or 10**15
    want_keys = sorted({0} | {i for i in range(len(sizes)) if sizes[i] <= store} | ({len(sizes) - 1} if completed else set()))
    if [k for k, _ in obs["layers"]] != want_keys:
        return f"stored layers {[k for k, _ in obs['layers']]} differ from the storage rule {want_keys}"
    for k, sts in obs["layers"]:
        got = [tuple(s) for s in sts]
        if len(set(got)) != len(got) or set(got) != layers[k]:
            return f"stored layer {k} is not the set of states at distance {k}"
    if kw.get("return_all_hashes"):
        if len(obs["hashes"]) != len(sizes):
            return f"{len(obs['hashes'])} hash layers for {len(sizes)} reported layers"
        for k, hs in enumerate(obs["hashes"]):
            want = sorted(int(h) for h in graph.hasher.make_hashes(graph.encode_states(torch.tensor(sorted(layers[k]), dtype=torch.int64))).tolist())
            if hs != want:
                return f"hashes of layer {k} are not the sorted hashes of the states at distance {k}"
    elif obs["hashes"]:
        return "hashes returned although not requested"
    if stopk is not None and obs["trace"] != trace:
        return f"the callback saw layers of sizes {obs['trace']}, the documented order gives {trace}"
    return None


def gen_limits(rng, sizes_true):
    ecc = len(sizes_true) - 1
    kw = {}
    r = rng.random()
    if r < 0.6:
        kw["max_diameter"] = rng.choice([1, 2, max(1, ecc), ecc + 1, ecc + 3, rng.randint(1, ecc + 2)])
    r = rng.random()
    if r < 0.5:
        kw["max_layer_size_to_explore"] = rng.choice([1, 2, max(sizes_true), max(sizes_true) + 1, rng.choice(sizes_true)])
    kw["max_layer_size_to_store"] = rng.choice([None, 1, 2, 3, 1000, rng.choice(sizes_true)])
    if rng.random() < 0.6:
        kw["return_all_hashes"] = True
    r = rng.random()
    if r < 0.2:
        kw["return_all_edges"] = True
    elif r < 0.4:
        kw["disable_batching"] = True
    r = rng.random()
    if r < 0.25:
        stopk = None
    elif r < 0.5:
        stopk = ("at", rng.randint(1, ecc + 2))
    elif r < 0.65:
        stopk = ("size", rng.choice(sizes_true + [max(sizes_true) + 1]))
    elif r < 0.85:
        stopk = ("hash", None)   # filled in by the caller (needs a hash of a state in some layer)
    else:
        stopk = ("never", 0)
    return kw, stopk


def accessor_msg(res, obs):
    """The accessors of a (possibly interrupted) result agree with its fields: diameter, get_layer(k) for stored and unstored k, last_layer."""
    if res is None or "err" in obs:
        return None
    stored = dict(obs["layers"])
    last = len(obs["sizes"]) - 1
    if res.diameter() != last:
        return f"diameter() = {res.diameter()}, the last reported layer is {last}"
    for k in list(range(last + 1)) + [last + 1, -1]:
        try:
            got = ("ok", [[int(v) for v in row] for row in res.get_layer(k).reshape((len(res.get_layer(k)), -1)).tolist()])
        except KeyError:
            got = ("KeyError",)
        except Exception as ex:  # pylint: disable=broad-except
            got = (type(ex).__name__,)
        want = ("ok", stored[k]) if k in stored else ("KeyError",)
        if got != want:
            return f"get_layer({k}) gives {str(got)[:80]}, expected {str(want)[:80]} (stored layers {sorted(stored)})"
    try:
        got = ("ok", [[int(v) for v in row] for row in res.last_layer().reshape((len(res.last_layer()), -1)).tolist()])
    except KeyError:
        got = ("KeyError",)
    except Exception as ex:  # pylint: disable=broad-except
        got = (type(ex).__name__,)
    want = ("ok", stored[last]) if last in stored else ("KeyError",)
    if got != want:
        return f"last_layer() gives {str(got)[:80]}, the last reported layer {last} is {'stored' if last in stored else 'not stored (KeyError expected)'}"
    return None


def quiet(fn):
    """Runs fn with stdout swallowed (graphs created with verbose > 0 print their progress)."""
    import contextlib, io
    with contextlib.redirect_stdout(io.StringIO()):
        return fn()


def run(ctx):
    import torch
    import translators
    translators.gen_all(strict=True)
    rng = ctx.rng
    ctx.cov["trusted_base"] = p01.TB
    ctx.cov["rule"] = ("case = (graph, start set, configuration, limits: max_diameter / max_layer_size_to_explore / max_layer_size_to_store / stop callback, optional outputs); "
                       "non-trivial when the full BFS has >= 3 layers and >= 4 vertices; distinct by canonical JSON; the evidence counts which stop rule actually fired")
    ctx.assumptions += ["NoColl (hash injective on the states of the run)",
                        "reading of 'the callback sees each new layer exactly once, in order': never twice, never out of order, every layer that does not end the search by the size rule"]
    ctx.prove(extra=["BfsRun"])
    coq_cases, metas = [], []
    with bfsrun.Monitors() as mon:
        for _ in range(ctx.budget(110, 900)):
            # every 7th graph: matrix entries far beyond 8 / 16 / 32 bits (stored layers must hold them as they are)
            gd = (G.gen_overflow_matrix_graph(rng, 400) if len(coq_cases) % 14 == 3 else G.gen_shear_matrix_graph(rng) if len(coq_cases) % 7 == 3 else G.gen_graph(rng, cap=ctx.budget(400, 3000)))
            layers, dist = G.ref_bfs(gd, [gd["central"]])
            starts = G.gen_starts(rng, gd, dist)
            layers, dist = G.ref_bfs(gd, starts)
            st = [len(l) for l in layers]
            cfgd = G.gen_config(rng, gd)
            if rng.random() < 0.25:
                cfgd["verbose"] = rng.choice([1, 2, 3])          # logging must not change what a search does (nor how often it consults the callback)
                ctx.count("verbose_graphs")
            graph = quiet(lambda: G.make_graph(gd, cfgd))
            kw, stopk = gen_limits(rng, st)
            hash_layer = None
            if stopk is not None and stopk[0] == "hash":
                hash_layer = rng.randint(0, len(layers) - 1)
                s = rng.choice(sorted(layers[hash_layer]))
                h = int(graph.hasher.make_hashes(graph.encode_states(torch.tensor([list(s)], dtype=torch.int64)))[0])
                stopk = ("hash", h)
                if hash_layer == 0:
                    hash_layer = None     # the callback never sees layer 0
            obs, res_obj = quiet(lambda: bfsrun.observe(graph, starts, kw, stopk))
            case = {"graph": gd, "config": cfgd, "starts": starts, "bfs": kw, "stop": list(stopk) if stopk else None, "hash_layer": hash_layer}
            amsg = accessor_msg(res_obj, obs)
            if amsg:
                ctx.violation("property_fails", amsg, dict(case, claim="accessors"), True)
            ctx.case_seen(case, len(dist) >= 4 and len(layers) >= 3)
            comp, sizes, _ = expected_prefix(st, kw, stopk, hash_layer)
            if comp:
                ctx.count("stop_completed")
            elif len(sizes) - 1 == kw.get("max_diameter", 10**6) and not (sizes[-1] >= kw.get("max_layer_size_to_explore", 10**12)):
                ctx.count("stop_by_depth_or_callback_at_depth")
            elif sizes[-1] >= kw.get("max_layer_size_to_explore", 10**12):
                ctx.count("stop_by_layer_size")
            else:
                ctx.count("stop_by_callback")
            msg = oracle_prefix(graph, gd, starts, kw, stopk, obs, hash_layer)
            if msg:
                persists = True
                for s in (11, 222, 3333):
                    g2 = quiet(lambda: G.make_graph(gd, dict(cfgd, random_seed=s)))
                    sk = stopk
                    if stopk is not None and stopk[0] == "hash" and hash_layer is not None:
                        s0 = sorted(layers[hash_layer])[0]
                        sk = ("hash", int(g2.hasher.make_hashes(g2.encode_states(torch.tensor([list(s0)], dtype=torch.int64)))[0]))
                    elif stopk is not None and stopk[0] == "hash":
                        sk = ("never", 0)
                    o2, _ = quiet(lambda: bfsrun.observe(g2, starts, kw, sk))
                    if oracle_prefix(g2, gd, starts, kw, sk, o2, hash_layer) is None:
                        persists = False
                        break
                if persists:
                    ctx.violation("property_fails", msg, case, True)
                else:
                    ctx.count("seed_specific_failures")
                    ctx.violation("property_fails", msg + f" [only under random_seed={cfgd.get('random_seed')}; three other seeds give the right answer]",
                                  dict(case, seed_specific=True), True)
            coq_cases.append(bfsrun.coq_case(gd, graph, starts, kw, stopk, obs))
            metas.append(case)
    ctx.sample(metas[0]); ctx.sample(metas[len(metas) // 2])
    ctx.cov["correspondence"]["isin_calls_monitored"] = mon.calls
    for site, ln in mon.unsorted[:3]:
        ctx.violation("monitor", f"isin_via_searchsorted called with an unsorted haystack at {site}", {"site": site, "len": ln}, False)
    bad = ctx.coq_failing("Base Bfs BfsRun GraphImpl Hash Tensor", "", "bfs_case", coq_cases, "check_case", "bfslim", shard=ctx.budget(12, 25))
    ctx.cov["disagreements_checked"] = len(coq_cases)
    for i in bad[:3]:
        ctx.violation("correspondence", "BFS model and implementation differ on a limited run (sizes/layers/hashes/edges/flag/callback trace)", metas[i], False)


def replay(ctx, obj):
    import torch
    case = obj.get("case", {})
    if obj.get("kind") == "property_fails" and "bfs" in case:
        gd, cfgd, starts, kw = case["graph"], case["config"], case["starts"], case["bfs"]
        stopk = tuple(case["stop"]) if case.get("stop") else None
        layers, dist = G.ref_bfs(gd, starts)
        msg = None
        for s in ((cfgd.get("random_seed"),) if case.get("seed_specific") else (cfgd.get("random_seed"), 11, 222)):
            g2 = quiet(lambda: G.make_graph(gd, dict(cfgd, random_seed=s)))
            sk = stopk
            hl = case.get("hash_layer")
            if stopk is not None and stopk[0] == "hash":
                if hl is not None:
                    s0 = sorted(layers[hl])[0]
                    sk = ("hash", int(g2.hasher.make_hashes(g2.encode_states(torch.tensor([list(s0)], dtype=torch.int64)))[0]))
                else:
                    sk = ("never", 0)
            o2, _ = quiet(lambda: bfsrun.observe(g2, starts, kw, sk))
            msg = oracle_prefix(g2, gd, starts, kw, sk, o2, hl)
            if msg is None:
                return None
        return msg
    run(ctx)
    return "; ".join(v["what"] for v in ctx.violations[:3]) or None
