"""C16 - puzzle definitions are faithful to their sources and to the physical puzzle.

(a) correspondence : models Gap.v / Puzzles.v evaluated in Coq on what the implementation ran on (checkers of PuzzlesRun.v):
                     every shipped .gap file, synthetic GAP texts (valid stream + malformed stream, error classes compared),
                     _cycle_str_to_list, _central_state_from_ip, cube move generator and all metrics, ring helpers and generators,
                     globe generators, exhaustively over bounded parameter domains;
(b) property oracle: independent pure-Python readers/checkers written from the property text (a hand-written cycle scanner, not the
                     regular expression; structural checks of cube layers, ring cycles, globe generators; inverse-closedness);
(c) evidence.
"""
import glob
import itertools
import json
import os
import random as pyrandom

import common
from common import cz, czl, czll, clist, cstr, TieBroken

ERR = {"AssertionError": "AssertionErr", "ValueError": "ValueErr", "IndexError": "IndexErr", "KeyError": "KeyErr",
       "TypeError": "TypeErr", "RuntimeError": "RuntimeErr", "JSONDecodeError": "ValueErr"}


def Z(v):
    return cz(v) + "%Z"


def observe(f):
    """('ok', value) or ('err', class name)"""
    try:
        return ("ok", f())
    except Exception as ex:  # pylint: disable=broad-except
        name = type(ex).__name__
        if name not in ERR:
            for base in type(ex).__mro__:
                if base.__name__ in ERR:
                    name = base.__name__
                    break
        return ("err", name)


def res_lit(obs, f):
    if obs[0] == "ok":
        return f"(Ok {f(obs[1])})"
    if obs[1] not in ERR:
        raise TieBroken(f"exception class {obs[1]} has no counterpart in the model")
    return f"(Err {ERR[obs[1]]})"


def zl(l):
    return "(" + czl([int(v) for v in l]) + ")"


def zll(ll):
    return "(" + czll([[int(v) for v in l] for l in ll]) + ")"


def strl(l):
    return "(" + clist(l, cstr) + ")"


def xpuzzle_lit(d):
    return (f"(mk_xpuzzle {zll(d.generators_permutations)} {strl(d.generator_names)} {zl(d.central_state)} {cstr(d.name)})")


# ================================================================================================
# independent oracle helpers (pure Python; nothing from cayleypy)
# ================================================================================================
def is_perm(p):
    return sorted(p) == list(range(len(p)))


def compose(p, q):
    """apply q first then p in the library's action convention new[i] = old[p[i]]: (p after q)[i] = q[p[i]]; only used symmetrically"""
    return [q[p[i]] for i in range(len(p))]


def inverse(p):
    r = [0] * len(p)
    for i, v in enumerate(p):
        r[v] = i
    return r


def support(p):
    return {i for i, v in enumerate(p) if v != i}


def cycles_of(p):
    seen, out = set(), []
    for i in range(len(p)):
        if i in seen or p[i] == i:
            continue
        c, j = [], i
        while j not in seen:
            seen.add(j)
            c.append(j)
            j = p[j]
        out.append(c)
    return out


def scan_gap_text(text):
    """Hand-written reader of the GAP format (no regular expressions): {name: [cycles]}, names in order, ip or None.
    A generator line is KEY:=VALUE with KEY starting with M_; cycles are maximal '(' digits-and-commas ')' groups."""
    names, gens, ip = [], {}, None
    for line in text.split("\n"):
        pos = line.find(":=")
        if pos < 0:
            continue
        key, value = line[:pos], line[pos + 2:]
        value = "".join(ch for ch in value if ch != ";")
        if key[:2] == "M_":
            name = key.replace("M_", "")
            cyc = []
            i = 0
            while i < len(value):
                if value[i] == "(":
                    j = i + 1
                    while j < len(value) and (value[j] in "0123456789,"):
                        j += 1
                    if j < len(value) and value[j] == ")" and j > i + 1:
                        body = value[i + 1:j]
                        cyc.append([int(t) for t in body.split(",")])
                        i = j + 1
                        continue
                i += 1
            if name not in gens:
                names.append(name)
            else:
                names.append(name)
            gens[name] = cyc
        elif key == "ip":
            ip = json.loads(value)
    return names, gens, ip


def oracle_gap(text, d):
    """The loaded definition against the text, from the property: exactly the written permutations on max-index points; colouring."""
    msgs = []
    names, gens, ip = scan_gap_text(text)
    n = max(max(c) for g in gens.values() for c in g)
    if list(d.generator_names) != names:
        msgs.append(f"generator names {list(d.generator_names)[:4]}... differ from the file's {names[:4]}...")
        return msgs
    if d.state_size != n:
        msgs.append(f"acts on {d.state_size} points, the largest index in the file is {n}")
        return msgs
    for name, p in zip(d.generator_names, d.generators_permutations):
        want = list(range(n))
        for c in gens[name]:
            for a, b in zip(c, c[1:] + c[:1]):
                want[a - 1] = b - 1
        if list(p) != want:
            bad = next(i for i in range(n) if p[i] != want[i])
            msgs.append(f"generator {name}: point {bad + 1} is mapped to {p[bad] + 1}, the file's cycles map it to {want[bad] + 1}")
            break
    cs = [int(v) for v in d.central_state]
    if ip is None:
        if cs != list(range(n)):
            msgs.append("no identical pieces declared but the central state is not 0..n-1")
    else:
        cls = {}
        for k, grp in enumerate(ip):
            for pos in grp:
                cls[pos - 1] = k
        for i in range(n):
            for j in (i + 1, (i * 7 + 3) % n, n - 1 - i):
                if 0 <= j < n and j != i:
                    same = i in cls and j in cls and cls[i] == cls[j]
                    if (cs[i] == cs[j]) != same:
                        msgs.append(f"points {i + 1} and {j + 1}: equal colour = {cs[i] == cs[j]}, declared identical = {same}")
                        return msgs
        # full check through colour classes
        by_col = {}
        for i, c in enumerate(cs):
            by_col.setdefault(c, []).append(i)
        for members in by_col.values():
            if len(members) > 1:
                k = cls.get(members[0])
                if k is None or any(cls.get(m) != k for m in members):
                    msgs.append(f"points {[m + 1 for m in members[:4]]} share a colour but are not one declared class")
                    break
        for grp in ip:
            if len({cs[p - 1] for p in grp}) != 1:
                msgs.append(f"declared class {grp[:4]} does not get one colour")
                break
    return msgs


def oracle_cube(n, moves):
    """moves: dict name -> one-line permutation (list). Structure from the property text."""
    msgs = []
    N = 6 * n * n
    if len(moves) != 3 * n:
        return [f"{len(moves)} layer turns, expected {3 * n}"]
    ident = list(range(N))
    axes = {"f": [], "r": [], "d": []}
    for name, p in moves.items():
        if len(p) != N or not is_perm(p):
            return [f"{name} is not a permutation of {N} stickers"]
        p2 = compose(p, p)
        if p2 == ident or compose(p2, p2) != ident:
            msgs.append(f"{name} does not have order 4")
        s = int(name[1:])
        outer = s in (0, n - 1)
        want = 4 * n + (n * n - (n % 2) if outer else 0)
        if len(support(p)) != want:
            msgs.append(f"{name} moves {len(support(p))} stickers, a{'n outer' if outer else 'n inner'} layer has {want}")
        axes[name[0]].append((name, p))
    for ax, lst in axes.items():
        if len(lst) != n:
            msgs.append(f"axis {ax} has {len(lst)} layers")
        for (n1, p), (n2, q) in itertools.combinations(lst, 2):
            if compose(p, q) != compose(q, p):
                msgs.append(f"{n1} and {n2} (same axis) do not commute")
            if support(p) & support(q):
                msgs.append(f"{n1} and {n2} (same axis) move a common sticker")
        union = set()
        for _, p in lst:
            union |= support(p)
        if len(union) != N - (2 if n % 2 else 0):
            msgs.append(f"the layers of axis {ax} move {len(union)} stickers in total, expected {N - (2 if n % 2 else 0)}")
        # every layer meets exactly 4 faces in a full line of n stickers (plus one whole face when outer)
        for name, p in lst:
            per_face = [len([i for i in support(p) if i // (n * n) == f]) for f in range(6)]
            lines = sorted(per_face)
            s = int(name[1:])
            exp = sorted([0, 0, n, n, n, n]) if s not in (0, n - 1) else sorted([0, n, n, n, n, n * n - (n % 2)])
            if n == 1:
                continue
            if lines != exp:
                msgs.append(f"{name} moves {per_face} stickers per face, expected a line of {n} on four faces" + (" and one whole face" if s in (0, n - 1) else ""))
    return msgs[:4]


def oracle_inverse_closed(d, what):
    gens = [list(p) for p in d.generators_permutations]
    msgs = []
    for i, p in enumerate(gens):
        if not is_perm(p):
            return [f"{what}: generator {d.generator_names[i]} is not a permutation"]
    have = {tuple(p) for p in gens}
    for i, p in enumerate(gens):
        if tuple(inverse(p)) not in have:
            msgs.append(f"{what}: the inverse of generator {d.generator_names[i]} is not a generator")
            break
    if not d.generators_inverse_closed and not msgs:
        msgs.append(f"{what}: the definition reports generators_inverse_closed = False although the set is inverse-closed")
    return msgs


def ring_distance(p, a, b):
    """number of steps from a to b along the cycle of p containing a (successor of x in the cycle = the y with p[y] = x, i.e. where x moves)"""
    x, k = a, 0
    while True:
        if x == b:
            return k
        x = p.index(x)
        k += 1
        if x == a:
            return None


def oracle_rings(ls, li, rs, ri, fwd, back):
    msgs = []
    lrot, rrot = fwd
    inter = 1 if (li == 0 and ri == 0) else 2
    N = ls + rs - inter
    for nm, p, size in (("left", lrot, ls), ("right", rrot, rs)):
        if len(p) != N or not is_perm(p):
            return [f"{nm} rotation is not a permutation of {N} points"]
        cyc = cycles_of(p)
        if size == 1:
            if cyc:
                msgs.append(f"{nm} rotation of a ring of one element moves points")
        elif len(cyc) != 1 or len(cyc[0]) != size:
            msgs.append(f"{nm} rotation has cycles of lengths {[len(c) for c in cyc]}, expected one cycle of length {size}")
    if msgs:
        return msgs
    sl, sr = (support(lrot) if ls > 1 else {0}), (support(rrot) if rs > 1 else {0})
    want = {0} if inter == 1 else {0, li}
    if ls > 1 and rs > 1 and sl & sr != want:
        msgs.append(f"the rings share points {sorted(sl & sr)}, expected {sorted(want)}")
    if inter == 2 and ls > 1 and rs > 1 and not msgs:
        dl = ring_distance(lrot, 0, li)
        dr = ring_distance(rrot, 0, li)
        if dl is None or li not in (dl, ls - dl):
            msgs.append(f"on the left ring the intersections are {dl} apart, stated spacing {li}")
        if dr is None or ri not in (dr, rs - dr):
            msgs.append(f"on the right ring the intersections are {dr} apart, stated spacing {ri}")
    bl, br = back
    if inverse(lrot) != list(bl) or inverse(rrot) != list(br):
        msgs.append("step = -1 is not the inverse of step = +1")
    return msgs


def oracle_globe(a, b, gens):
    msgs = []
    N = 2 * (a + 1) * b
    rs = [k for k in gens if k.startswith("r")]
    fs = [k for k in gens if k.startswith("f")]
    if len(rs) != a + 1 or len(fs) != 2 * b:
        msgs.append(f"{len(rs)} r-generators and {len(fs)} f-generators, expected {a + 1} and {2 * b}")
    for k, p in gens.items():
        if len(p) != N or not is_perm(p):
            return [f"{k} is not a permutation of {N} points"]
        if k.startswith("r"):
            cyc = cycles_of(p)
            if 2 * b >= 2 and (len(cyc) != 1 or len(cyc[0]) != 2 * b):
                msgs.append(f"{k} has cycles {[len(c) for c in cyc]}, expected one cycle of length {2 * b}")
        else:
            if compose(p, p) != list(range(N)):
                msgs.append(f"{k} is not an involution")
    return msgs[:3]


# ================================================================================================
# GAP text generation
# ================================================================================================
def rand_cycles(rng, n, must_use_n):
    pts = list(range(1, n + 1))
    rng.shuffle(pts)
    k = rng.randint(0 if not must_use_n else 1, n)
    pts = pts[:k]
    if must_use_n and n not in pts:
        pts[0] = n
    cycles = []
    while pts:
        ln = rng.randint(1, min(len(pts), 5))
        cycles.append(pts[:ln])
        pts = pts[ln:]
    return cycles


NAME_CHARS = "abcxyzFRUD'_+-2 0"


def synth_gap(rng, malformed):
    """(text, description). Valid texts follow the shipped format; malformed ones break it in one place."""
    n = rng.randint(1, 14)
    k = rng.randint(1, 4)
    names = []
    while len(names) < k:
        nm = "".join(rng.choice(NAME_CHARS) for _ in range(rng.randint(1, 4)))
        if nm not in names and "M_" not in nm:
            names.append(nm)
    gens = []
    for i in range(k):
        gens.append(rand_cycles(rng, n, must_use_n=(i == 0)))
    lines = []
    if rng.random() < 0.5:
        lines.append("# a comment line (no assignment)")
    for nm, cyc in zip(names, gens):
        lines.append("M_" + nm + ":=" + "".join("(" + ",".join(str(v) for v in c) + ")" for c in cyc) + ";")
        if rng.random() < 0.2:
            lines.append("")
    ip = None
    if rng.random() < 0.6:
        pts = list(range(1, n + 1))
        rng.shuffle(pts)
        ip = []
        while pts and rng.random() < 0.7:
            ln = rng.randint(1, min(len(pts), 4))
            ip.append(pts[:ln])
            pts = pts[ln:]
        sp = rng.choice(["", " "])
        lines.append("ip:=" + "[" + ("," + sp).join("[" + ("," + sp).join(str(v) for v in g) + "]" for g in ip) + "];")
    lines.append("Gen:=[" + ",".join("M_" + nm for nm in names[:0]) + "];" if rng.random() < 0.3 else "# end")
    if malformed:
        kind = rng.choice(["two_assign", "bad_char", "empty_group", "dup_point", "zero_index", "ip_bad_json", "ip_out_of_range", "no_gens",
                           "unequal", "dup_name", "crlf", "spaces_in_cycle", "ip_overlap", "trailing_comma", "nested_parens"])
        i = next((j for j, l in enumerate(lines) if l.startswith("M_")), 0)
        if kind == "two_assign":
            lines[i] = lines[i] + "x:=1"
        elif kind == "bad_char":
            lines[i] = lines[i].replace("(", "(a", 1)
        elif kind == "empty_group":
            lines[i] = lines[i][:-1] + "();"
        elif kind == "dup_point":
            lines[i] = lines[i][:-1] + f"({n},{n});"
        elif kind == "zero_index":
            lines[i] = lines[i][:-1] + "(0);"
        elif kind == "ip_bad_json":
            lines.append("ip:=[[1,2],;")
        elif kind == "ip_out_of_range":
            lines.append(f"ip:=[[1,{n + 3}]];")
        elif kind == "no_gens":
            lines = [l for l in lines if not l.startswith("M_")]
        elif kind == "unequal":
            lines.append(f"M_zz9:=({n + 2},1);")
        elif kind == "dup_name":
            lines.append("M_" + names[0] + ":=(1);")
        elif kind == "crlf":
            lines = [l + "\r" for l in lines]
        elif kind == "spaces_in_cycle":
            lines[i] = lines[i].replace(",", ", ", 1)
        elif kind == "ip_overlap":
            lines.append(f"ip:=[[1,{n}],[{n},1]];")
        elif kind == "trailing_comma":
            lines[i] = lines[i].replace(")", ",)", 1)
        elif kind == "nested_parens":
            lines[i] = lines[i][:-1] + f"(({n}));"
        desc = kind
    else:
        desc = "valid"
    return "\n".join(lines), desc


def gap_expect_lit(d):
    n = d.state_size
    moved = [[(i, int(v)) for i, v in enumerate(p) if int(v) != i] for p in d.generators_permutations]
    ml = "[" + "; ".join("[" + "; ".join(f"({Z(a)}, {Z(b)})" for a, b in m) + "]" for m in moved) + "]"
    return f"(mk_gap_expect {strl(d.generator_names)} {Z(n)} {ml} {zl(d.central_state)})"


# ================================================================================================
def run(ctx):
    import translators
    import cayleypy
    from cayleypy import GapPuzzles, Puzzles
    import cayleypy.puzzles.gap_puzzles as gp
    import cayleypy.puzzles.cube as cube
    import cayleypy.puzzles.hungarian_rings as hr
    import cayleypy.puzzles.globe as globe
    for mod, names in ((gp, ["_cycle_str_to_list", "_central_state_from_ip", "_parse_gap_file"]),
                       (cube, ["generate_cube_permutations_oneline", "get_qtm_metric_moves", "get_htm_metric_moves", "get_atm_metric_moves"]),
                       (hr, ["_circular_shift", "_create_right_ring", "hungarian_rings_permutations", "hungarian_rings_generators", "get_santa_parameters_from_n"]),
                       (globe, ["globe_gens", "globe_puzzle"])):
        for nm in names:
            if not hasattr(mod, nm):
                raise TieBroken(f"{mod.__name__}.{nm} no longer exists")
    translators.gen_all(strict=True)
    rng = ctx.rng
    ctx.cov["trusted_base"] = ["Coq 8.16.1 kernel (vm_compute)", "models Gap.v / Puzzles.v (validated here, exhaustively on the bounded domains)",
                               "Python re / json / str semantics as modelled in Gap.v (ASCII digits; JSON subset: lists of lists of non-negative integers)",
                               "independent Python oracle (hand-written cycle scanner, structural checkers)"]
    ctx.cov["rule"] = "case = a GAP text (by hash) or (puzzle, parameters); non-trivial when >= 2 generators or n >= 4; distinct by text hash / tuple"
    if os.environ.get("VERIF_SKIP_PROVE") != "1":
        ctx.prove(extra=["PuzzlesRun", "MoveTablesProofs"])

    def report(kind, what, case, found=True):
        ctx.violation(kind, what, case, found)

    # ------------------------------------------------------------------ shipped GAP files
    gdir = os.path.join(common.REPO, "cayleypy", "puzzles", "gap_files")
    files = sorted(glob.glob(os.path.join(gdir, "**", "*.gap"), recursive=True))
    if len(files) < 10:
        raise TieBroken("shipped GAP files not found")
    big = ctx.budget(70000, 10**9)
    gcases, gmeta = [], []
    for f in files:
        text = open(f, "r", encoding="utf-8").read()
        rel = os.path.relpath(f, gdir)
        case = {"kind": "gap_file", "file": rel}
        obs = observe(lambda f=f: GapPuzzles.load_puzzle_from_file(f))
        if obs[0] == "err":
            report("property_fails", f"shipped file {rel} does not load: {obs[1]}", case)
            continue
        d = obs[1]
        ctx.case_seen(case, True)
        ctx.count("gap_files_loaded")
        for m in oracle_gap(text, d)[:1]:
            report("property_fails", f"{rel}: {m}", case)
        if len(text) <= big and all(ord(ch) < 128 for ch in text):
            gcases.append(f"(mk_gap_case {cstr(f)} {cstr(text)} {res_lit(obs, gap_expect_lit)})")
            gmeta.append(case)
            ctx.count("gap_files_model_compared")
        else:
            ctx.count("gap_files_oracle_only_too_large_for_quick_tier")
    names = GapPuzzles.list_puzzles()
    for nm in names:
        case = {"kind": "gap_named", "name": nm}
        obs = observe(lambda nm=nm: GapPuzzles.puzzle(nm))
        if obs[0] == "err":
            report("property_fails", f"GapPuzzles.puzzle({nm!r}) raises {obs[1]}", case)
            continue
        d = obs[1]
        ctx.count("gap_named_loaded")
        raw = GapPuzzles.load_puzzle_from_file(os.path.join(gdir, "defaults", nm + ".gap"))
        k = len(raw.generators_permutations)
        if [list(p) for p in d.generators_permutations[:k]] != [list(p) for p in raw.generators_permutations] or list(d.central_state) != list(raw.central_state):
            report("property_fails", f"GapPuzzles.puzzle({nm!r}) does not start with the file's generators / central state", case)
        for m in oracle_inverse_closed(d, f"GapPuzzles.puzzle({nm!r})"):
            report("property_fails", m, case)
        d2 = GapPuzzles.puzzle(nm, make_inverse_closed=False)
        if [list(p) for p in d2.generators_permutations] != [list(p) for p in raw.generators_permutations]:
            report("property_fails", f"GapPuzzles.puzzle({nm!r}, make_inverse_closed=False) differs from the file", case)

    # ------------------------------------------------------------------ synthetic GAP texts
    seen_txt = set()
    tmp = os.path.join(ctx.work, "synth")
    os.makedirs(tmp, exist_ok=True)
    nsyn = ctx.budget(260, 2500)
    for t in range(nsyn):
        malformed = t % 3 == 2
        text, desc = synth_gap(rng, malformed)
        if text in seen_txt:
            continue
        seen_txt.add(text)
        fn = os.path.join(tmp, f"s{t}.gap" if rng.random() < 0.97 else f"s{t}.txt")
        with open(fn, "w", encoding="utf-8", newline="") as fh:
            fh.write(text)
        text_read = open(fn, "r", encoding="utf-8").read()          # what Python's text mode hands to the parser
        case = {"kind": "gap_synthetic", "text": text, "variant": desc, "file_suffix": fn[-4:]}
        obs = observe(lambda fn=fn: GapPuzzles.load_puzzle_from_file(fn))
        ctx.case_seen(case, True)
        ctx.count("synthetic_" + ("malformed" if malformed else "valid") + ":" + (obs[0] if obs[0] == "ok" else obs[1]))
        if not malformed and fn.endswith(".gap"):
            if obs[0] == "err":
                report("property_fails", f"a well-formed GAP text is rejected with {obs[1]}", case)
                continue
            for m in oracle_gap(text, obs[1])[:1]:
                report("property_fails", f"synthetic GAP text: {m}", case)
        elif obs[0] == "ok" and desc in ("crlf", "spaces_in_cycle", "dup_name", "ip_overlap", "nested_parens", "valid"):
            pass                                                         # accepted variants: the model must agree on what they mean
        gcases.append(f"(mk_gap_case {cstr(fn)} {cstr(text_read)} {res_lit(obs, gap_expect_lit)})")
        gmeta.append(case)
    bad = ctx.coq_failing("Base Perm Gap Puzzles PuzzlesRun", "", "gap_case", gcases, "check_gap", "gap", shard=max(1, len(gcases) // (common.NPROC * 2) + 1),
                          timeout=ctx.budget(900, 3000))
    for i in bad[:4]:
        report("correspondence", "GAP loader model differs from the implementation on " + (gmeta[i].get("file") or "a synthetic text"), gmeta[i], False)
    ctx.cov["disagreements_checked"] += len(gcases)

    # _cycle_str_to_list / _central_state_from_ip directly (including inputs the file format never produces)
    ccases, cmeta = [], []
    alphabet = "(),0123456789 ;a"
    for t in range(ctx.budget(300, 3000)):
        s = "".join(rng.choice(alphabet) for _ in range(rng.randint(0, 14))) if t % 2 else \
            "".join("(" + ",".join(str(rng.randint(0, 30)) for _ in range(rng.randint(1, 4))) + ")" for _ in range(rng.randint(0, 4)))
        obs = observe(lambda s=s: gp._cycle_str_to_list(s))
        ccases.append(f"({cstr(s)}, {res_lit(obs, zll)})")
        cmeta.append({"kind": "cycle_str", "text": s})
        ctx.count("cycle_str:" + (obs[0] if obs[0] == "ok" else obs[1]))
    bad = ctx.coq_failing("Base Perm Gap Puzzles PuzzlesRun", "", "string * result (list (list Z))", ccases, "check_cycle_str", "cyclestr")
    for i in bad[:3]:
        report("correspondence", "_cycle_str_to_list model differs from the implementation", cmeta[i], False)
    icases, imeta = [], []
    for t in range(ctx.budget(300, 3000)):
        n = rng.randint(0, 9)
        ip = [[rng.randint(-1 if rng.random() < 0.1 else 1, max(1, n + (1 if rng.random() < 0.1 else 0))) for _ in range(rng.randint(0, 3))] for _ in range(rng.randint(0, 3))]
        obs = observe(lambda n=n, ip=ip: gp._central_state_from_ip(n, [list(g) for g in ip]))
        icases.append(f"({Z(n)}, {zll(ip)}, {res_lit(obs, zl)})")
        imeta.append({"kind": "central_from_ip", "n": n, "ip": ip})
        ctx.count("central_from_ip:" + (obs[0] if obs[0] == "ok" else obs[1]))
    bad = ctx.coq_failing("Base Perm Gap Puzzles PuzzlesRun", "", "Z * list (list Z) * result (list Z)", icases, "check_central", "central")
    for i in bad[:3]:
        report("correspondence", "_central_state_from_ip model differs from the implementation", imeta[i], False)
    ctx.cov["disagreements_checked"] += len(ccases) + len(icases)

    # ------------------------------------------------------------------ cube
    NC = ctx.budget(5, 7)
    mcases, mmeta = [], []
    for n in list(range(-1, NC + 1)) + [10, 11] + ([] if ctx.quick() else [12, 13]):        # 10+: layer indexes with two digits
        obs = observe(lambda n=n: cube.generate_cube_permutations_oneline(n))
        case = {"kind": "cube_moves", "n": n}
        if obs[0] == "ok":
            moves = {k: [int(x) for x in v.split()] for k, v in obs[1].items()}
            for m in oracle_cube(n, moves):
                report("property_fails", f"cube {n}x{n}x{n}: {m}", case)
            ctx.case_seen(case, True)
            lit = res_lit(("ok", moves), lambda mv: "[" + "; ".join(f"({cstr(k)}, {zl(p)})" for k, p in mv.items()) + "]")
        else:
            if n >= 2:
                report("property_fails", f"generate_cube_permutations_oneline({n}) raises {obs[1]}", case)
            lit = res_lit(obs, None)
        mcases.append(f"({Z(n)}, {lit})")
        mmeta.append(case)
    bad = ctx.coq_failing("Base Perm Gap Puzzles PuzzlesRun", "", "Z * result (list (string * list Z))", mcases, "check_cube_moves", "cubemoves", shard=1, timeout=1500)
    for i in bad[:3]:
        report("correspondence", "cube move generator model differs from the implementation", mmeta[i], False)
    cc, cm = [], []
    for metric in ["QSTM", "QTM", "HTM", "ATM", "fixed_QTM", "fixed_HTM", "qtm", ""]:
        for n in list(range(0, NC + 1)) + [11]:
            if metric == "ATM" and n > ctx.budget(4, 5):
                continue
            obs = observe(lambda n=n, metric=metric: Puzzles.rubik_cube(n, metric))
            case = {"kind": "rubik_cube", "n": n, "metric": metric}
            ctx.count(f"rubik_cube:{metric}:" + (obs[0] if obs[0] == "ok" else obs[1]))
            if obs[0] == "ok":
                ctx.case_seen(case, True)
                for m in oracle_inverse_closed(obs[1], f"rubik_cube({n}, {metric!r})"):
                    report("property_fails", m, case)
                d = obs[1]
                if metric in ("QSTM", "QTM", "HTM", "ATM") and list(d.central_state) != [c for c in range(6) for _ in range(n * n)]:
                    report("property_fails", f"rubik_cube({n}, {metric!r}): central state is not 6 faces of {n * n} equal stickers", case)
            elif metric in ("QSTM", "QTM", "HTM", "ATM") and n >= 2:
                report("property_fails", f"rubik_cube({n}, {metric!r}) raises {obs[1]}", case)
            cc.append(f"({Z(n)}, {cstr(metric)}, {res_lit(obs, xpuzzle_lit)})")
            cm.append(case)
    bad = ctx.coq_failing("Base Perm Gap Puzzles PuzzlesRun", "", "Z * string * result xpuzzle", cc, "check_cube", "cube", shard=2, timeout=2400)
    for i in bad[:3]:
        report("correspondence", "rubik_cube model differs from the implementation", cm[i], False)
    ctx.cov["disagreements_checked"] += len(cc) + len(mcases)

    # ------------------------------------------------------------------ Hungarian rings
    NR = ctx.budget(8, 12)
    rc, rm, gc, gm, pc, pm = [], [], [], [], [], []
    for ls in range(-1, NR + 1):
        for rs in range(-1, NR + 1):
            for li in range(-1, max(ls, 0) + 1):
                for ri in range(-1, max(rs, 0) + 1):
                    if (ls <= 0 or rs <= 0 or li < 0 or ri < 0) and rng.random() > ctx.budget(0.12, 0.5):
                        continue
                    steps = [1, -1] + ([rng.choice([0, 2, 3, -2, 5, -7, ls, rs + 1])] if rng.random() < 0.25 else [])
                    res = {}
                    for st in steps:
                        obs = observe(lambda st=st: hr.hungarian_rings_permutations(ls, li, rs, ri, st))
                        res[st] = obs
                        rc.append(f"({Z(ls)}, {Z(li)}, {Z(rs)}, {Z(ri)}, {Z(st)}, {res_lit(obs, lambda v: '(' + zl(v[0]) + ', ' + zl(v[1]) + ')')})")
                        rm.append({"kind": "ring_perms", "args": [ls, li, rs, ri, st]})
                        ctx.count("ring_perms:" + (obs[0] if obs[0] == "ok" else obs[1]))
                    admissible = ls >= 1 and rs >= 1 and ((li == 0 and ri == 0) or (1 <= li < ls and 1 <= ri < rs))
                    case = {"kind": "rings", "args": [ls, li, rs, ri]}
                    if admissible:
                        ctx.case_seen(case, ls + rs >= 4)
                        if res[1][0] == "err" or res[-1][0] == "err":
                            # the library may reject tuples whose right ring cannot be laid out; those are assertion errors of _create_right_ring
                            ctx.count("ring_admissible_rejected:" + str(res[1][1] if res[1][0] == "err" else res[-1][1]))
                        else:
                            for m in oracle_rings(ls, li, rs, ri, res[1][1], res[-1][1])[:2]:
                                report("property_fails", f"hungarian_rings_permutations({ls}, {li}, {rs}, {ri}): {m}", case)
                            for st in steps[2:]:
                                if res[st][0] == "ok":
                                    lp, rp = res[1][1]
                                    k = st
                                    wl, wr = list(range(len(lp))), list(range(len(rp)))
                                    base_l, base_r = (lp, rp) if k >= 0 else res[-1][1]
                                    for _ in range(abs(k)):
                                        wl, wr = compose(base_l, wl), compose(base_r, wr)
                                    if list(res[st][1][0]) != wl or list(res[st][1][1]) != wr:
                                        report("property_fails", f"hungarian_rings_permutations({ls}, {li}, {rs}, {ri}, step={st}) is not the {st}-th power of a unit rotation", case)
                    obs = observe(lambda: hr.hungarian_rings_generators(ls, li, rs, ri))
                    gc.append(f"({Z(ls)}, {Z(li)}, {Z(rs)}, {Z(ri)}, {res_lit(obs, lambda v: '(' + zll(v[0]) + ', ' + strl(v[1]) + ')')})")
                    gm.append({"kind": "ring_gens", "args": [ls, li, rs, ri]})
                    obs = observe(lambda: Puzzles.hungarian_rings(ls, li, rs, ri))
                    pc.append(f"({Z(ls)}, {Z(li)}, {Z(rs)}, {Z(ri)}, {res_lit(obs, xpuzzle_lit)})")
                    pm.append({"kind": "ring_puzzle", "args": [ls, li, rs, ri]})
                    ctx.count("hungarian_rings:" + (obs[0] if obs[0] == "ok" else obs[1]))
                    if obs[0] == "ok":
                        for m in oracle_inverse_closed(obs[1], f"hungarian_rings({ls}, {li}, {rs}, {ri})"):
                            report("property_fails", m, case)
                        if obs[1].name != f"hungarian_rings-{ls}-{li}-{rs}-{ri}":
                            report("property_fails", f"hungarian_rings({ls}, {li}, {rs}, {ri}) is named {obs[1].name!r}", case)
    for label, cases, metas, typ, chk in (("ringperms", rc, rm, "Z * Z * Z * Z * Z * result (list Z * list Z)", "check_ring_perms"),
                                          ("ringgens", gc, gm, "Z * Z * Z * Z * result (list (list Z) * list string)", "check_ring_gens"),
                                          ("ringpuzzle", pc, pm, "Z * Z * Z * Z * result xpuzzle", "check_ring_puzzle")):
        bad = ctx.coq_failing("Base Perm Gap Puzzles PuzzlesRun", "", typ, cases, chk, label, shard=max(50, len(cases) // (common.NPROC * 2) + 1), timeout=1500)
        for i in bad[:3]:
            report("correspondence", f"{chk[6:]} model differs from the implementation", metas[i], False)
        ctx.cov["disagreements_checked"] += len(cases)
    hc, hm = [], []
    for _ in range(ctx.budget(120, 800)):
        ls, rs = rng.randint(-1, 9), rng.randint(-1, 9)
        li, ri = rng.randint(-1, 5), rng.randint(-1, 5)
        full = ls + rs - rng.choice([1, 2, 2, 0])
        obs = observe(lambda: hr._create_right_ring(ls, li, rs, ri, full))
        hc.append(f"({Z(ls)}, {Z(li)}, {Z(rs)}, {Z(ri)}, {Z(full)}, {res_lit(obs, zl)})")
        hm.append({"kind": "right_ring", "args": [ls, li, rs, ri, full]})
    bad = ctx.coq_failing("Base Perm Gap Puzzles PuzzlesRun", "", "Z * Z * Z * Z * Z * result (list Z)", hc, "check_right_ring", "rightring")
    for i in bad[:3]:
        report("correspondence", "_create_right_ring model differs from the implementation", hm[i], False)
    sc, sm = [], []
    for _ in range(ctx.budget(120, 800)):
        items = [rng.randint(0, 9) for _ in range(rng.randint(0, 8))]
        step = rng.randint(-20, 20)
        got = hr._circular_shift(list(items), step)
        if items and got != [items[(i + step) % len(items)] for i in range(len(items))]:
            report("property_fails", f"_circular_shift({items}, {step}) = {got} is not the rotation by {step}", {"kind": "shift", "items": items, "step": step})
        sc.append(f"({zl(items)}, {Z(step)}, {zl(got)})")
        sm.append({"kind": "shift", "items": items, "step": step})
    bad = ctx.coq_failing("Base Perm Gap Puzzles PuzzlesRun", "", "list Z * Z * list Z", sc, "check_shift", "shift")
    for i in bad[:3]:
        report("correspondence", "_circular_shift model differs from the implementation", sm[i], False)
    tc = []
    for n in range(-2, ctx.budget(30, 80)):
        obs = observe(lambda n=n: hr.get_santa_parameters_from_n(n))
        tc.append(f"({Z(n)}, {res_lit(obs, lambda v: '(' + ', '.join(Z(x) for x in v) + ')')})")
    bad = ctx.coq_failing("Base Perm Gap Puzzles PuzzlesRun", "", "Z * result (Z * Z * Z * Z)", tc, "check_santa", "santa")
    for i in bad[:3]:
        report("correspondence", "get_santa_parameters_from_n model differs from the implementation", {"kind": "santa", "index": i}, False)
    ctx.cov["disagreements_checked"] += len(hc) + len(sc) + len(tc)

    # ------------------------------------------------------------------ globe
    NG = ctx.budget(5, 7)
    bc, bm, ec, em = [], [], [], []
    for a in range(0, NG + 1):
        for b in range(0, NG + 1):
            case = {"kind": "globe", "a": a, "b": b}
            obs = observe(lambda: globe.globe_gens(a, b))
            if obs[0] == "ok":
                gens = {k: [int(x) for x in v] for k, v in obs[1].items()}
                if a >= 1 and b >= 1:
                    ctx.case_seen(case, True)
                    for m in oracle_globe(a, b, gens):
                        report("property_fails", f"globe_gens({a}, {b}): {m}", case)
                ec.append(f"({Z(a)}, {Z(b)}, " + "[" + "; ".join(f"({cstr(k)}, {zl(p)})" for k, p in gens.items()) + "])")
                em.append(case)
            elif a >= 1 and b >= 1:
                report("property_fails", f"globe_gens({a}, {b}) raises {obs[1]}", case)
            obs = observe(lambda: Puzzles.globe_puzzle(a, b))
            ctx.count("globe_puzzle:" + (obs[0] if obs[0] == "ok" else obs[1]))
            if obs[0] == "ok":
                for m in oracle_inverse_closed(obs[1], f"globe_puzzle({a}, {b})"):
                    report("property_fails", m, case)
            elif a >= 1 and b >= 1:
                report("property_fails", f"globe_puzzle({a}, {b}) raises {obs[1]}", case)
            bc.append(f"({Z(a)}, {Z(b)}, {res_lit(obs, xpuzzle_lit)})")
            bm.append(case)
    bad = ctx.coq_failing("Base Perm Gap Puzzles PuzzlesRun", "", "Z * Z * result xpuzzle", bc, "check_globe", "globe", shard=6)
    for i in bad[:3]:
        report("correspondence", "globe_puzzle model differs from the implementation", bm[i], False)
    bad = ctx.coq_failing("Base Perm Gap Puzzles PuzzlesRun", "", "Z * Z * list (string * list Z)", ec, "check_globe_gens", "globegens", shard=6)
    for i in bad[:3]:
        report("correspondence", "globe_gens model differs from the implementation", em[i], False)
    ctx.cov["disagreements_checked"] += len(bc) + len(ec)

    # ------------------------------------------------------------------ table-driven puzzles against the model built from the REGENERATED tables
    import translators as _tr
    _tr.gen_all(strict=True, which=("MoveTables",))
    tcases, tmetas = [], []
    for nm, model in (("mini_pyramorphix", "table_perms tbl_mini_pyramorphix_allowed_moves"), ("picture_cube333", "table_perms tbl_picture_cube_333_allowed_moves"),
                      ("pyraminx", "Ok pyraminx_gens"), ("megaminx", "Ok megaminx_gens")):
        obs = observe(getattr(Puzzles, nm))
        if obs[0] == "ok":
            d = obs[1]
            lit = "[" + "; ".join(f"({cstr(n_)}, " + clist([int(v) for v in p_], str) + "%nat)" for n_, p_ in zip(d.generator_names, d.generators_permutations)) + "]"
            tcases.append(f"({model}, {lit})")
            tmetas.append({"kind": "table_puzzle_model", "name": nm})
    for metric, model in (("fixed_QTM", "Ok cube222_quarter_gens"), ("fixed_HTM", "Ok cube222_half_gens")):
        d = Puzzles.rubik_cube(2, metric)
        lit = "[" + "; ".join(f"({cstr(n_)}, " + clist([int(v) for v in p_], str) + "%nat)" for n_, p_ in zip(d.generator_names, d.generators_permutations)) + "]"
        tcases.append(f"({model}, {lit})")
        tmetas.append({"kind": "table_puzzle_model", "name": "rubik_cube(2, " + metric + ")"})
    bad = ctx.coq_failing("Base Perm MoveTablesDefs MoveTablesProofs", "From V.gen Require Import MoveTables.", "result (list (string * list nat)) * list (string * list nat)",
                          tcases, "check_table_puzzle", "tables", shard=3)
    for i in bad[:3]:
        report("correspondence", f"{tmetas[i]['name']}: the generators / names the library builds from its move table differ from the model built from the regenerated table", tmetas[i], False)
    ctx.cov["disagreements_checked"] += len(tcases)
    ctx.count("table_puzzles_compared_with_model", len(tcases))
    # ------------------------------------------------------------------ table-driven puzzles: valid and inverse-closed
    for nm in ("mini_pyramorphix", "pyraminx", "megaminx", "picture_cube333", "starminx", "starminx_2"):
        obs = observe(getattr(Puzzles, nm))
        case = {"kind": "table_puzzle", "name": nm}
        if obs[0] == "err":
            report("property_fails", f"Puzzles.{nm}() raises {obs[1]}", case)
            continue
        ctx.case_seen(case, True)
        d = obs[1]
        if not all(is_perm([int(v) for v in p]) for p in d.generators_permutations):
            report("property_fails", f"Puzzles.{nm}(): a generator is not a permutation", case)
        elif nm != "picture_cube333":
            for m in oracle_inverse_closed(d, f"Puzzles.{nm}()"):
                report("property_fails", m, case)
    ctx.sample({"kind": "gap_file", "file": os.path.relpath(files[0], gdir)})
    ctx.sample(cm[5] if len(cm) > 5 else {})
    ctx.sample(pm[len(pm) // 2] if pm else {})
    ctx.sample(bm[-1] if bm else {})


def replay(ctx, obj):
    case = obj.get("case", {})
    kind = case.get("kind")
    from cayleypy import GapPuzzles, Puzzles
    import cayleypy.puzzles.cube as cube
    import cayleypy.puzzles.hungarian_rings as hr
    import cayleypy.puzzles.globe as globe
    if obj.get("kind") == "property_fails":
        if kind == "gap_file":
            gdir = os.path.join(common.REPO, "cayleypy", "puzzles", "gap_files")
            f = os.path.join(gdir, case["file"])
            ms = oracle_gap(open(f, encoding="utf-8").read(), GapPuzzles.load_puzzle_from_file(f))
            return ms[0] if ms else None
        if kind == "gap_synthetic":
            fn = os.path.join(ctx.work, "replay.gap")
            with open(fn, "w", encoding="utf-8", newline="") as fh:
                fh.write(case["text"])
            obs = observe(lambda: GapPuzzles.load_puzzle_from_file(fn))
            if obs[0] == "err":
                return f"rejected with {obs[1]}" if case.get("variant") == "valid" else None
            ms = oracle_gap(case["text"], obs[1]) if case.get("variant") == "valid" else []
            return ms[0] if ms else None
        if kind == "cube_moves":
            n = case["n"]
            moves = {k: [int(x) for x in v.split()] for k, v in cube.generate_cube_permutations_oneline(n).items()}
            ms = oracle_cube(n, moves)
            return ms[0] if ms else None
        if kind == "rubik_cube":
            ms = oracle_inverse_closed(Puzzles.rubik_cube(case["n"], case["metric"]), "rubik_cube")
            return ms[0] if ms else None
        if kind == "rings":
            ls, li, rs, ri = case["args"]
            ms = oracle_rings(ls, li, rs, ri, hr.hungarian_rings_permutations(ls, li, rs, ri, 1), hr.hungarian_rings_permutations(ls, li, rs, ri, -1))
            if not ms and li <= ls / 2 and ri <= rs / 2 and ls > 1 and rs > 1:
                ms = oracle_inverse_closed(Puzzles.hungarian_rings(ls, li, rs, ri), "hungarian_rings")
            return ms[0] if ms else None
        if kind == "globe":
            a, b = case["a"], case["b"]
            ms = oracle_globe(a, b, {k: list(v) for k, v in globe.globe_gens(a, b).items()}) or oracle_inverse_closed(Puzzles.globe_puzzle(a, b), "globe_puzzle")
            return ms[0] if ms else None
    run(ctx)
    return "; ".join(v["what"] for v in ctx.violations[:3]) or None
