"""C14 - a graph object answers each query as a fresh one would, whatever came before."""
import graphs as G
import pathrun as P
import p07
import p06
from common import TieBroken


def canon(x):
    import numpy as np
    import torch
    if isinstance(x, torch.Tensor):
        return x.tolist()
    if isinstance(x, np.ndarray):
        return x.tolist()
    if isinstance(x, (list, tuple)):
        return [canon(v) for v in x]
    if isinstance(x, dict):
        return {str(k): canon(v) for k, v in sorted(x.items())}
    return x


def bfs_summary(r):
    return {"completed": bool(r.bfs_completed), "sizes": list(r.layer_sizes), "layers": {int(k): v.tolist() for k, v in r.layers.items()},
            "hashes": [h.tolist() for h in r.layers_hashes], "edges": None if r.edges_list_hashes is None else r.edges_list_hashes.tolist()}


def gen_op(rng, gd, dist, layers, ic):
    """One public operation with arbitrary arguments: (name, args dict)."""
    verts = sorted(dist)
    st = list(rng.choice(verts))
    k = rng.random()
    if k < 0.2:
        return ("bfs", {"max_diameter": rng.choice([1, 2, 1000000]), "return_all_hashes": rng.random() < 0.5, "return_all_edges": rng.random() < 0.3,
                        "max_layer_size_to_store": rng.choice([None, 1, 1000]), "start_states": rng.choice([None, [st]]),
                        "scribble": rng.random() < 0.5, "start_as_tensor": rng.random() < 0.4})
    if k < 0.3:
        return ("find_path_to", {"depth": rng.randint(0, 3), "state": st})
    if k < 0.38:
        return ("find_path_from", {"depth": rng.randint(0, 3), "state": st})
    if k < 0.5:
        return ("beam_search", {"start_state": st, "beam_width": rng.choice([1, 3, 10**6]), "max_steps": rng.choice([2, 6]), "beam_mode": rng.choice(["simple", "advanced"]),
                                "history_depth": rng.choice([0, 2]), "return_path": rng.random() < 0.5})
    if k < 0.62:
        return ("random_walks", {"width": rng.choice([1, 3]), "length": rng.choice([2, 4]), "mode": rng.choice(["classic", "bfs", "nbt"]), "seed": rng.randrange(1000),
                                 "start_state": rng.choice([None, st]), "scribble": rng.random() < 0.5})
    if k < 0.7:
        return ("inverted_neighbors", {"state": st})
    if k < 0.78:
        return ("find_path", {"state": st, "max_diameter": rng.choice([None, 1, 2, 3]), "max_layer_size_to_explore": rng.choice([None, None, 10**7, 5, 50])})
    if k < 0.84:
        return ("apply_path", {"state": st, "path": [rng.randrange(G.n_gens(gd)) for _ in range(rng.randint(0, 4))],
                               "as": rng.choice(["list", "tensor", "ndarray", "central_state_of_the_graph"])})
    if k < 0.9:
        order = ["edges_list", "vertex_names", "adjacency_matrix", "adjacency_matrix_sparse", "named_undirected_edges", "networkx_directed", "networkx_undirected"]
        rng.shuffle(order)
        return ("export", {"order": order})
    if k < 0.915:
        dmax = max(dist.values())
        dep = rng.randint(0, max(0, dmax - 1))
        outside = [v for v in verts if dist[v] == dep + 1]
        inside = [v for v in verts if dist[v] <= dep]
        if outside and inside:
            return ("restore_path_direct", {"depth": dep, "target": list(rng.choice(outside)), "inside": list(rng.choice(inside))})
        return ("derive_definitions", {"order": rng.sample(["closed", "inverted", "central"], 3), "central": st})
    if k < 0.93:
        if rng.random() < 0.5:
            return ("derive_definitions", {"order": rng.sample(["closed", "inverted", "central"], 3), "central": st})
        return ("modified_copy_bfs", {"central": st})
    if k < 0.97:
        return ("copy_queries", {"central": st, "start": list(rng.choice(verts)), "which": rng.choice(["modified_copy", "inverted"]), "mode": rng.choice(["simple", "advanced"])})
    return ("mitm_between", {"a": [st], "b": [list(rng.choice(verts))], "max_diameter": rng.choice([1, 3])})


def do_op(graph, gd, op, args):
    """Executes one operation; returns a canonical observable (deterministic ops) or a checked summary (randomised ops)."""
    import torch
    import cayleypy
    from cayleypy import CayleyGraph
    from cayleypy.algo import MeetInTheMiddle
    try:
        if op == "bfs":
            kw = {k: v for k, v in args.items() if k not in ("scribble", "start_as_tensor")}
            buf = None
            if args.get("start_as_tensor") and kw.get("start_states") is not None:
                buf = torch.tensor(kw["start_states"], dtype=torch.int64)
                kw["start_states"] = buf
            r = graph.bfs(**kw)
            out = bfs_summary(r)
            if args.get("scribble"):
                # the caller owns what it was given and what it got back: writing into them must not reach the graph object
                for t in r.layers.values():
                    if isinstance(t, torch.Tensor) and t.numel():
                        t.fill_(-3)
                if buf is not None:
                    buf.fill_(-5)
            return ("ok", out)
        if op in ("find_path_to", "find_path_from"):
            ball = graph.bfs(max_diameter=args["depth"], return_all_hashes=True)
            f = graph.find_path_to if op == "find_path_to" else graph.find_path_from
            return ("ok", canon(f(args["state"], ball)))
        if op == "beam_search":
            kw = dict(args)
            if kw["beam_mode"] == "simple":
                kw.pop("history_depth")
            else:
                kw.pop("return_path")
            r = graph.beam_search(**kw)
            return ("ok", [bool(r.path_found), int(r.path_length), canon(r.path)])
        if op == "random_walks":
            kw = {k: v for k, v in args.items() if k not in ("seed", "scribble")}
            torch.manual_seed(args["seed"])
            x, y = graph.random_walks(**kw)
            out = [canon(x), canon(y)]
            if args.get("scribble"):
                x.fill_(-3)
                y.fill_(-3)
            return ("ok", out)
        if op == "inverted_neighbors":
            gi = graph.with_inverted_generators
            return ("ok", [canon(gi.get_neighbors_decoded(torch.tensor([args["state"]]))), canon(gi.hasher.make_hashes(gi.encode_states(args["state"])))])
        if op == "find_path":
            kw = {} if args["max_diameter"] is None else {"max_diameter": args["max_diameter"]}
            if args.get("max_layer_size_to_explore") is not None:
                kw["max_layer_size_to_explore"] = args["max_layer_size_to_explore"]
            return ("ok", canon(cayleypy.find_path(graph, args["state"], **kw)))
        if op == "apply_path":
            import numpy as np
            form = args.get("as", "list")
            if form == "central_state_of_the_graph":
                # the caller hands the graph its own central-state tensor: neither it nor the argument may change
                return ("ok", [canon(graph.apply_path(graph.central_state, args["path"])), canon(graph.central_state)])
            obj = {"list": list(args["state"]), "tensor": torch.tensor(args["state"], dtype=torch.int64), "ndarray": np.array(args["state"], dtype=np.int64)}[form]
            out = canon(graph.apply_path(obj, args["path"]))
            return ("ok", [out, canon(obj) == canon(list(args["state"])), canon(graph.apply_path(obj, args["path"])) == out])
        if op == "export":
            import numpy as np
            kwb = dict(return_all_edges=True, return_all_hashes=True, max_layer_size_to_store=None, max_diameter=3)
            r = graph.bfs(**kwb)
            exports = {
                "edges_list": lambda x: canon(x.edges_list),
                "vertex_names": lambda x: x.vertex_names if gd["kind"] == "perm" else len(x.vertex_names),
                "adjacency_matrix": lambda x: canon(x.adjacency_matrix()),
                "adjacency_matrix_sparse": lambda x: sorted(zip(x.adjacency_matrix_sparse().row.tolist(), x.adjacency_matrix_sparse().col.tolist())),
                "named_undirected_edges": lambda x: sorted(map(list, x.named_undirected_edges())),
                "networkx_directed": lambda x: sorted((str(u), str(v), str(d_)) for u, v, d_ in x.to_networkx_graph(directed=True).edges(data="label")),
            }
            if graph.definition.generators_inverse_closed:
                exports["networkx_undirected"] = lambda x: sorted(tuple(sorted((str(u), str(v)))) for u, v in x.to_networkx_graph().edges())
            order = list(args.get("order") or sorted(exports))
            out = []
            for nm in order:
                if nm not in exports:
                    continue
                # each export of the long-lived result object equals the same export of a result nobody has touched yet
                a_ = exports[nm](r)
                b_ = exports[nm](graph.bfs(**kwb))
                out.append([nm, a_ == b_])
            return ("ok", [canon(r.edges_list), out])
        if op == "restore_path_direct":
            # the public restore_path on the WHOLE list of layer hashes of a ball (target one step outside it): the caller's result must come back untouched
            ball = graph.bfs(max_diameter=args["depth"], return_all_hashes=True)
            before = [canon(h) for h in ball.layers_hashes]
            try:
                pth = canon(graph.restore_path(ball.layers_hashes, args["target"]))
            except AssertionError:
                pth = "AssertionError"
            untouched = [canon(h) for h in ball.layers_hashes] == before
            return ("ok", [pth, untouched, canon(graph.find_path_to(args["inside"], ball))])
        if op == "derive_definitions":
            # definitions derived from the graph's definition are NEW objects: the definition of the graph stays what it was
            d0 = graph.definition
            outs = []
            for nm in args["order"]:
                try:
                    dd = d0.make_inverse_closed() if nm == "closed" else d0.with_inverted_generators() if nm == "inverted" else d0.with_central_state(args["central"])
                    outs.append([nm, len(dd.generators), list(dd.generator_names)[:3]])
                except AssertionError:
                    outs.append([nm, "AssertionError"])
            return ("ok", [outs, int(d0.n_generators), len(d0.generators), len(d0.generator_names)])
        if op == "modified_copy_bfs":
            g2 = graph.modified_copy(graph.definition.with_central_state(args["central"]))
            same_hash = canon(g2.hasher.make_hashes(g2.encode_states(args["central"]))) == canon(graph.hasher.make_hashes(graph.encode_states(args["central"])))
            return ("ok", [g2.bfs(max_diameter=3).layer_sizes, same_hash])
        if op == "copy_queries":
            # a derived copy answers as a graph constructed directly from the same definition and configuration would
            if args["which"] == "modified_copy":
                d2 = graph.definition.with_central_state(args["central"])
                g2 = graph.modified_copy(d2)
            else:
                d2 = graph.definition.with_inverted_generators()
                g2 = graph.with_inverted_generators
            g3 = CayleyGraph(d2, device="cpu", **args["cfgd"])
            out = []
            for g in (g2, g3):
                kw = {"start_state": args["start"], "beam_width": 10**6, "max_steps": 7, "beam_mode": args["mode"]}
                r = g.beam_search(**kw)
                own = canon(g.hasher.make_hashes(g.encode_states(g.central_state)).reshape(-1))
                rec = canon(torch.as_tensor(g.central_state_hash).reshape(-1))
                out.append([bool(r.path_found), int(r.path_length), own == rec])
            return ("ok", out)
        if op == "mitm_between":
            r = MeetInTheMiddle.find_path_between(graph, args["a"], args["b"], max_diameter=args["max_diameter"])
            return ("ok", None if r is None else [canon(r.start_state), list(r.edges)])
    except Exception as ex:  # pylint: disable=broad-except
        return ("err", type(ex).__name__, str(ex)[:80])
    raise ValueError(op)


def snapshot(graph):
    """What later operations read: definition, central state, encoding, hashing."""
    import torch
    d = graph.definition
    probe = torch.as_tensor(d.central_state).reshape((1, -1))
    return canon([d.generators_permutations, [m.matrix.tolist() for m in d.generators_matrices], list(d.generator_names), list(d.central_state), d.name,
                  graph.central_state, graph.bit_encoding_width, graph.batch_size, graph.encoded_state_size,
                  None if graph.string_encoder is None else [graph.string_encoder.w, graph.string_encoder.n],
                  graph.hasher.is_identity, getattr(graph.hasher, "seed", None), graph.hasher.make_hashes(graph.encode_states(probe)), graph.central_state_hash])


def run(ctx):
    import torch
    import translators
    translators.gen_all(strict=True, which=("Consts", "Effects"))
    rng = ctx.rng
    ctx.cov["trusted_base"] = ["Coq 8.16.1 kernel (vm_compute)", "translator T2 (attribute writes of the library, fail-closed on dynamic forms) and the decision rule EffectsDefs.effect_ok",
                               "the abstract object model ObjectModel.v (PARTIAL: aliasing of returned tensors and what a user callback does to them are outside the model)",
                               "differential histories on the real object; global RNG state is re-seeded per randomised operation"]
    ctx.cov["rule"] = ("case = a sequence of public operations with arbitrary arguments on ONE graph object; non-trivial when it has >= 3 operations of >= 2 kinds and at least one "
                       "cache-filling operation (inverted copy / find_path); distinct by canonical JSON")
    ctx.prove()
    nseq = ctx.budget(40, 300)
    maxlen = ctx.budget(12, 40)
    for si in range(nseq):
        gd = P.gen_invertible_graph(rng, 150)
        if gd["kind"] == "matrix" and gd["modulo"] > 0 and rng.random() < 0.5:
            # a central state given with entries outside [0, m) (e.g. -1 for m - 1): a legitimate way to write it; the object must keep it as given
            m_ = gd["modulo"]
            unred = [v + rng.choice([0, 0, m_, -m_]) for v in gd["central"]]
            if unred != list(gd["central"]) and max(abs(v) for v in unred) < 2**62 and G.ref_bfs(dict(gd, central=unred), [unred], 400) is not None:
                gd = dict(gd, central=unred)
                ctx.count("unreduced_central_states")
        cfgd = G.gen_config(rng, gd)
        layers, dist = G.ref_bfs(gd, [gd["central"]])
        ic = G.is_inverse_closed_ref(gd)
        ops = [gen_op(rng, gd, dist, layers, ic) for _ in range(rng.randint(3, maxlen))]
        verts_ = sorted(dist)
        # every sequence queries find_path at least twice with different limits (the cached ball must follow the arguments of the call) and
        # applies a path to the graph's own central-state tensor once
        far_ = list(max(verts_, key=lambda v_: dist[v_]))
        fp1 = ("find_path", {"state": list(rng.choice(verts_)), "max_diameter": rng.choice([1, 2]), "max_layer_size_to_explore": rng.choice([10**7, None, 50])})
        fp2 = ("find_path", {"state": far_, "max_diameter": rng.choice([None, 3, 1]), "max_layer_size_to_explore": rng.choice([None, 5, None])})
        i1 = rng.randint(0, len(ops))
        ops.insert(i1, fp1)
        ops.insert(rng.randint(i1 + 1, len(ops)), fp2)
        order_ = ["networkx_undirected", "named_undirected_edges", "networkx_directed", "adjacency_matrix", "edges_list", "adjacency_matrix_sparse", "vertex_names"]
        rng.shuffle(order_)
        ops.insert(rng.randint(0, len(ops)), ("export", {"order": order_}))
        ops.insert(rng.randint(0, len(ops)), ("apply_path", {"state": far_, "path": [rng.randrange(G.n_gens(gd)) for _ in range(rng.randint(2, 4))],
                                                             "as": rng.choice(["central_state_of_the_graph", "tensor", "ndarray"])}))
        ops.insert(rng.randint(1, len(ops)), ("copy_queries", {"central": list(rng.choice(verts_)), "start": list(rng.choice(verts_)),
                                                              "which": rng.choice(["modified_copy", "inverted"]), "mode": rng.choice(["simple", "advanced"])}))
        # every sequence derives new definitions from the graph's own definition once and calls the public restore_path on a whole ball once
        ops.insert(rng.randint(0, len(ops)), ("derive_definitions", {"order": rng.sample(["closed", "inverted", "central"], 3), "central": list(rng.choice(verts_))}))
        dmax_ = max(dist.values())
        if dmax_ >= 1:
            dep_ = rng.randint(0, dmax_ - 1)
            ops.insert(rng.randint(0, len(ops)), ("restore_path_direct", {"depth": dep_, "target": list(rng.choice([v for v in verts_ if dist[v] == dep_ + 1])),
                                                                         "inside": list(rng.choice([v for v in verts_ if dist[v] <= dep_]))}))
        graph = G.make_graph(gd, cfgd)
        snap0 = snapshot(graph)
        kinds = {o for o, _ in ops}
        fills = bool(kinds & {"inverted_neighbors", "find_path", "find_path_to", "find_path_from", "mitm_between", "beam_search"})
        case = {"graph": gd, "config": cfgd, "ops": [[o, a] for o, a in ops]}
        ctx.case_seen(case, len(ops) >= 3 and len(kinds) >= 2 and fills)
        for j, (op, args) in enumerate(ops):
            ctx.count("op_" + op)
            if rng.random() < 0.2:
                G.make_graph(gd, dict(cfgd, random_seed=rng.randrange(1, 99)))   # interleaved construction reseeds the global RNG
            if op == "copy_queries":
                args["cfgd"] = cfgd
            got = do_op(graph, gd, op, args)
            fresh = do_op(G.make_graph(gd, cfgd), gd, op, args)
            if op == "copy_queries" and got[0] == "ok" and (got[1][0] != got[1][1] or not got[1][0][2]):
                ctx.violation("property_fails", f"operation #{j}: a derived copy ({args['which']}) answers a beam search / records its central hash differently from a graph "
                              f"constructed directly from the same definition: copy {got[1][0]}, direct {got[1][1]} ([found, length, recorded hash = own hash])",
                              dict(case, failing_index=j, got=str(got)[:300]), True)
                break
            if op == "apply_path" and got[0] == "ok" and args.get("as") in ("list", "tensor", "ndarray") and (got[1][1] is not True or got[1][2] is not True):
                ctx.violation("property_fails", f"operation #{j} (apply_path with a {args['as']} argument) modified its argument or answers differently when repeated: {str(got)[:160]}",
                              dict(case, failing_index=j, got=str(got)[:300]), True)
                break
            if op == "restore_path_direct" and got[0] == "ok" and got[1][1] is not True:
                ctx.violation("property_fails", f"operation #{j} (restore_path on the layer hashes of a BFS result) changed the result it was given (later queries on it go wrong)",
                              dict(case, failing_index=j, got=str(got)[:300]), True)
                break
            if op == "export" and got[0] == "ok" and not all(ok_ for _nm, ok_ in got[1][1]):
                ctx.violation("property_fails", f"operation #{j}: exports of one BfsResult object asked in the order {[nm for nm, _ in got[1][1]]} - "
                              f"{[nm for nm, ok_ in got[1][1] if not ok_]} differ from the same export of an untouched result",
                              dict(case, failing_index=j, got=str(got[1][1])[:300]), True)
                break
            if got != fresh:
                ctx.violation("property_fails", f"operation #{j} ({op}) returns something else after the earlier operations than on a fresh graph",
                              dict(case, failing_index=j, got=str(got)[:300], fresh=str(fresh)[:300]), True)
                break
            snap = snapshot(graph)
            if snap != snap0:
                ctx.violation("property_fails", f"operation #{j} ({op}) changed the definition, central state, encoding or hashing seen by later operations",
                              dict(case, failing_index=j), True)
                break
        if si < 2:
            ctx.sample(case)
    ctx.cov["disagreements_checked"] = ctx.cov["evaluations"]


def replay(ctx, obj):
    case = obj.get("case", {})
    if obj.get("kind") == "property_fails" and "ops" in case:
        gd, cfgd = case["graph"], case["config"]
        graph = G.make_graph(gd, cfgd)
        snap0 = snapshot(graph)
        for j, (op, args) in enumerate(case["ops"]):
            got = do_op(graph, gd, op, args)
            fresh = do_op(G.make_graph(gd, cfgd), gd, op, args)
            if op == "copy_queries" and got[0] == "ok" and (got[1][0] != got[1][1] or not got[1][0][2]):
                return f"operation #{j}: derived copy answers {got[1][0]}, a directly constructed graph {got[1][1]}"
            if op == "restore_path_direct" and got[0] == "ok" and got[1][1] is not True:
                return f"operation #{j}: restore_path changed the BFS result it was given"
            if got != fresh:
                return f"operation #{j} ({op}) differs from a fresh graph: {str(got)[:150]} vs {str(fresh)[:150]}"
            if snapshot(graph) != snap0:
                return f"operation #{j} ({op}) changed the object's definition/encoding/hashing"
        return None
    run(ctx)
    return "; ".join(v["what"] for v in ctx.violations[:3]) or None
