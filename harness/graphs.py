"""Graph zoo, naive reference oracle (pure Python, tuples and ints), and Coq literals for graph descriptions."""
import itertools
import math

from common import cz, czl, czll, cnl, cnll, clist, cbool, copt, TieBroken

M64 = 1 << 64
H63 = 1 << 63


def wrap(z):
    return (z + H63) % M64 - H63


# ------------------------------------------------------------------------------------------------
# graph descriptions (plain dicts, JSON-able): {"kind": "perm", "gens": [[...]], "central": [...]}
#                                              {"kind": "matrix", "mats": [[[...]]], "modulo": m, "n": n, "m": cols, "central": [...]}
# ------------------------------------------------------------------------------------------------
def act(gd, i, s):
    """Reference action of generator i on state s (tuple)."""
    if gd["kind"] == "perm":
        p = gd["gens"][i]
        return tuple(s[p[j]] for j in range(len(p)))
    n, m, mod = gd["n"], gd["m"], gd["modulo"]
    M = gd["mats"][i]
    out = []
    for r in range(n):
        for c in range(m):
            v = sum(M[r][j] * s[j * m + c] for j in range(n))          # exact (Python integers)
            v = v % mod if mod > 0 else wrap(v)                           # modulo m, or int64 wrap-around when there is no modulus
            out.append(v)
    return tuple(out)


def n_gens(gd):
    return len(gd["gens"]) if gd["kind"] == "perm" else len(gd["mats"])


def ref_bfs(gd, starts, cap=200000):
    """Textbook BFS. Returns (layers: list of sets, dist: dict) or None when the orbit exceeds cap."""
    k = n_gens(gd)
    layer = set(tuple(s) for s in starts)
    dist = {s: 0 for s in layer}
    layers = [layer]
    while True:
        nxt = set()
        for s in layers[-1]:
            for i in range(k):
                t = act(gd, i, s)
                if t not in dist:
                    dist[t] = len(layers)
                    nxt.add(t)
        if not nxt:
            break
        layers.append(nxt)
        if len(dist) > cap:
            return None
    return layers, dist


def run_path(gd, s, path):
    s = tuple(s)
    for i in path:
        if not 0 <= i < n_gens(gd):
            return None
        s = act(gd, i, s)
    return s


def inverse_perm(p):
    q = [0] * len(p)
    for i, v in enumerate(p):
        q[v] = i
    return q


def is_inverse_closed_ref(gd):
    if gd["kind"] == "perm":
        gs = {tuple(g) for g in gd["gens"]}
        return all(tuple(inverse_perm(g)) in gs for g in gd["gens"])
    n, mod = gd["n"], gd["modulo"]

    def mul(a, b):
        out = [[sum(a[i][j] * b[j][k] for j in range(n)) for k in range(n)] for i in range(n)]
        return [[(v % mod if mod > 0 else wrap(v)) for v in r] for r in out]
    eye = [[1 if i == j else 0 for j in range(n)] for i in range(n)]
    return all(any(mul(a, b) == eye and mul(b, a) == eye for b in gd["mats"]) for a in gd["mats"])


# ------------------------------------------------------------------------------------------------
# zoo
# ------------------------------------------------------------------------------------------------
def rand_perm(rng, n):
    p = list(range(n))
    rng.shuffle(p)
    return p


def rand_small_support_perm(rng, n, support):
    idx = rng.sample(range(n), min(support, n))
    sh = idx[:]
    rng.shuffle(sh)
    p = list(range(n))
    for a, b in zip(idx, sh):
        p[a] = b
    return p


def gen_perm_graph(rng, cap=1500, multiword=False):
    for _ in range(200):
        if multiword:
            n = rng.randint(9, 70)
            k = rng.randint(1, 3)
            gens = [rand_small_support_perm(rng, n, rng.randint(2, 5)) for _ in range(k)]
            colours = rng.randint(2, 3)
            central = [rng.randrange(colours) for _ in range(n)]
            if rng.random() < 0.3:
                central[-1] = rng.choice([colours - 1, rng.randint(colours, 7)])
        else:
            n = rng.randint(2, 7)
            k = rng.randint(1, 4)
            gens = []
            for _ in range(k):
                r = rng.random()
                if r < 0.1:
                    gens.append(list(range(n)))
                elif r < 0.3:
                    p = list(range(n))
                    a, b = rng.sample(range(n), 2)
                    p[a], p[b] = p[b], p[a]
                    gens.append(p)
                elif r < 0.4 and gens:
                    gens.append(list(rng.choice(gens)))
                else:
                    gens.append(rand_perm(rng, n))
            r = rng.random()
            if r < 0.4:
                central = list(range(n))
            elif r < 0.7:
                colours = rng.randint(1, min(3, n))
                central = [rng.randrange(colours) for _ in range(n)]
            else:
                central = [rng.randrange(n) for _ in range(n)]
        if rng.random() < 0.45:
            have = {tuple(g) for g in gens}
            for g in list(gens):
                ig = inverse_perm(g)
                if tuple(ig) not in have:
                    gens.append(ig)
                    have.add(tuple(ig))
        gd = {"kind": "perm", "gens": gens, "central": central}
        r = ref_bfs(gd, [central], cap)
        if r is not None:
            return gd
    raise RuntimeError("zoo: could not generate a small permutation graph")


def gen_shear_matrix_graph(rng):
    """SMALL central state, LARGE reachable entries (beyond 8 / 16 / 31 bits): shears x -> x + a*y modulo m on 2-vectors or 2x2 states; small orbits."""
    mod, a = rng.choice([(200, 37), (251, 100), (300, 7), (256, 129), (70000, 17500), (2**20, 2**18), (65536, 49152), (2**31, 2**29)])          # every orbit has at most 300 states
    mats = [[[1, a], [0, 1]]] + ([[[1, mod - a], [0, 1]]] if rng.random() < 0.6 else []) + ([[[1, 0], [0, mod - 1]]] if rng.random() < 0.3 else [])
    m = rng.choice([1, 1, 2])
    return {"kind": "matrix", "mats": mats, "modulo": mod, "n": 2, "m": m, "central": [0, 1] if m == 1 else [1, 0, 0, 1]}


def gen_matrix_graph(rng, cap=1500):
    for _ in range(500):
        n = rng.randint(1, 3)
        m = rng.choice([1, 1, n, 2])
        r = rng.random()
        if r < 0.7:
            mod = rng.choice([2, 3, 4, 5, 7, 2, 3])
            k = rng.randint(1, 3)
            mats = [[[rng.randrange(mod) for _ in range(n)] for _ in range(n)] for _ in range(k)]
            if rng.random() < 0.6:  # make them invertible-ish: unitriangular / permutation matrices
                mats = []
                for _ in range(k):
                    if rng.random() < 0.5:
                        p = rand_perm(rng, n)
                        mats.append([[1 if p[i] == j else 0 for j in range(n)] for i in range(n)])
                    else:
                        M = [[1 if i == j else 0 for j in range(n)] for i in range(n)]
                        if n > 1:
                            a, b = rng.sample(range(n), 2)
                            M[a][b] = rng.randrange(mod)
                        mats.append(M)
            central = [rng.randrange(mod) for _ in range(n * m)]
            if rng.random() < 0.25:
                # a PARTIALLY inverse-closed set: a shear, its inverse, and another shear whose inverse is missing (the graph is directed)
                n = 2
                a_ = rng.randrange(1, mod)
                mats = [[[1, a_], [0, 1]], [[1, (mod - a_) % mod], [0, 1]], [[1, 0], [rng.randrange(1, mod), 1]]]
                if rng.random() < 0.5:
                    mats = [mats[2], mats[0], mats[1]]
                m = rng.choice([1, 2])
                central = [0, 1] if m == 1 else [1, 0, 0, 1]
        elif r < 0.82:
            # finite-order integer matrices with entries -1, 0, 1 under moduli at every threshold where a float / narrow-integer shortcut
            # stops being exact; residues m-1, m-2 in generators AND states, so that sums of several near-m^2 products occur
            import math as _m
            mod = rng.choice([2**24 - 3, 2**24 + 1, 2**26 - 5, 2**26, 6 * 10**7, 8 * 10**7, 9 * 10**7, 94906266, 94906266, 94906267, int(_m.isqrt(2**53 // 2)) + 3,
                              int(_m.isqrt(2**53 // 3)) + 2, 10**8 + 7, 2**30 + 3, 2**31 - 1, 2**31])
            base2 = [[[-1, -1], [1, 0]], [[0, 1], [-1, -1]], [[-1, -1], [0, 1]], [[1, 0], [-1, -1]], [[-1, -1], [1, 0]], [[0, 1], [1, 0]], [[0, -1], [1, 0]],
                     [[1, 1], [-1, 0]], [[-1, 0], [0, -1]], [[0, -1], [-1, 0]]]          # finite order; several have two entries -1 in one row
            n = rng.choice([2, 2, 3])
            k = rng.randint(1, 3)
            mats = []
            for _ in range(k):
                B = rng.choice(base2)
                if n == 2:
                    M = [list(row) for row in B]
                else:
                    pos = rng.choice([0, 1])
                    M = [[0] * 3 for _ in range(3)]
                    idx = [pos, pos + 1]
                    other = 3 - sum(idx)
                    for a in range(2):
                        for b in range(2):
                            M[idx[a]][idx[b]] = B[a][b]
                    M[other][other] = rng.choice([1, -1])
                mats.append([[v % mod for v in row] for row in M])
            m = rng.choice([1, 1, 2])
            central = [rng.choice([mod - 1, mod - 2, mod - 3, mod - 1, 2, rng.randrange(mod)]) for _ in range(n * m)]
        elif r < 0.85:
            # SMALL central state, LARGE reachable entries (beyond 8 / 16 bits): shears x -> x + a*y modulo m; what a search stores or returns must hold
            # every reachable entry, not only the symbols of the central state
            sh = gen_shear_matrix_graph(rng)
            mod, n, m, mats, central = sh["modulo"], sh["n"], sh["m"], sh["mats"], sh["central"]
        elif r < 0.88:
            mod = rng.choice([2**31 - 1, 2**31])
            k = rng.randint(1, 2)
            mats = []
            for _ in range(k):
                p = rand_perm(rng, n)
                sign = [rng.choice([1, mod - 1]) for _ in range(n)]
                mats.append([[sign[i] if p[i] == j else 0 for j in range(n)] for i in range(n)])
            central = [rng.choice([0, 1, mod - 1, rng.randrange(mod)]) for _ in range(n * m)]
        else:
            mod = 0
            k = rng.randint(1, 2)
            mats = []
            for _ in range(k):
                p = rand_perm(rng, n)
                sign = [rng.choice([1, -1]) for _ in range(n)]
                mats.append([[sign[i] if p[i] == j else 0 for j in range(n)] for i in range(n)])
            central = [rng.randint(-5, 5) for _ in range(n * m)]
        if rng.random() < 0.3 and mod != 0:
            pass
        gd = {"kind": "matrix", "mats": mats, "modulo": mod, "n": n, "m": m, "central": central}
        r = ref_bfs(gd, [central], cap)
        if r is not None and len(r[1]) >= 1:
            return gd
    raise RuntimeError("zoo: could not generate a small matrix graph")


def gen_deep_directed(rng, cap=1500, min_layers=20):
    """Directed (not inverse-closed) permutation graphs with MANY thin layers: a cyclic shift plus a swap (an involution: every use of it
    creates an edge back to the previous layer) or a second shift, acting on a coloured sequence with one or two marked positions.
    20-140 layers, small orbits, 1-5 code words."""
    for _ in range(200):
        n = rng.randint(24, 70)
        shift = [(i + 1) % n for i in range(n)]
        kind = rng.random()
        if kind < 0.5:
            gens = [shift, [1, 0] + list(range(2, n))]                       # LX
        elif kind < 0.8:
            a, b = rng.sample(range(n), 2)
            x = list(range(n)); x[a], x[b] = x[b], x[a]
            gens = [shift, x]
        elif kind < 0.9:
            k = rng.randint(2, 5)
            gens = [shift, [(i + k) % n for i in range(n)]]                  # two shifts
        else:
            gens = [shift]                                                   # a directed cycle
        central = [0] * n
        marks = 2 if rng.random() < 0.7 else 1
        for c, pos in enumerate(rng.sample(range(n), marks)):
            central[pos] = c + 1 if rng.random() < 0.5 else 1
        gd = {"kind": "perm", "gens": gens, "central": central}
        r = ref_bfs(gd, [central], cap)
        if r is not None and len(r[0]) >= min_layers:
            return gd
    return gen_perm_graph(rng, cap, multiword=True)


def gen_repeated_closed(rng, cap=1500):
    """Inverse-closed permutation generator LISTS in which a non-involution occurs more often than its inverse (and in odd orders):
    [p, p, p^-1, ...] - the inverse map must pair every copy with an index holding the inverse."""
    for _ in range(200):
        n = rng.randint(3, 7)
        p = rand_perm(rng, n)
        if p == inverse_perm(p):
            continue
        gens = [p] * rng.randint(2, 3) + [inverse_perm(p)] * rng.randint(1, 2)
        for _ in range(rng.randint(0, 2)):
            q = rand_perm(rng, n)
            gens += [q, inverse_perm(q)] if rng.random() < 0.7 else [q, q, inverse_perm(q)]
        if rng.random() < 0.3:
            a, b = rng.sample(range(n), 2)
            x = list(range(n)); x[a], x[b] = x[b], x[a]
            gens.append(x)
        rng.shuffle(gens)
        central = list(range(n)) if rng.random() < 0.6 else [rng.randrange(min(3, n)) for _ in range(n)]
        gd = {"kind": "perm", "gens": gens, "central": central}
        if ref_bfs(gd, [central], cap) is not None:
            return gd
    return gen_perm_graph(rng, cap)


def gen_colliding_coset(rng, cap=1500):
    """Coset graphs with repeated colours under MANY generators (all transpositions / prefix reversals / adjacent swaps): several generators
    send a state to the same neighbour (or fix it), and layers have dozens of states."""
    for _ in range(100):
        n = rng.randint(6, 8)
        kind = rng.random()
        if kind < 0.5:
            gens = []
            for a in range(n):
                for b in range(a + 1, n):
                    x = list(range(n)); x[a], x[b] = x[b], x[a]
                    gens.append(x)
        elif kind < 0.8:
            gens = [list(range(k - 1, -1, -1)) + list(range(k, n)) for k in range(2, n + 1)]
        else:
            gens = []
            for a in range(n - 1):
                x = list(range(n)); x[a], x[a + 1] = x[a + 1], x[a]
                gens.append(x)
            gens.append([(i + 1) % n for i in range(n)])
            gens.append([(i - 1) % n for i in range(n)])
        colours = rng.randint(2, 3)
        central = sorted(rng.randrange(colours) for _ in range(n))
        if len(set(central)) < 2:
            continue
        gd = {"kind": "perm", "gens": gens, "central": central}
        r = ref_bfs(gd, [central], cap)
        if r is not None and len(r[1]) >= 30:
            return gd
    return gen_perm_graph(rng, cap)


def gen_label_boundary(rng, cap=1500):
    """Sequences whose largest label is 9, 10 or 11 (one- and two-digit labels meet): a marked element of that value and a second mark,
    under shift / swap generators; orbits of about n^2 states."""
    for _ in range(50):
        top = rng.choice([9, 10, 10, 11, 12])
        n = top + 1 + rng.randint(0, 2)
        gens = [[(i + 1) % n for i in range(n)], [(i - 1) % n for i in range(n)], [1, 0] + list(range(2, n))]
        central = [0] * n
        a, b = rng.sample(range(n), 2)
        central[a], central[b] = top, rng.choice([1, 1, 10, 9])
        central[b] = min(central[b], top)
        gd = {"kind": "perm", "gens": gens, "central": central}
        if ref_bfs(gd, [central], cap) is not None:
            return gd
    return gen_perm_graph(rng, cap)


def gen_extreme_codes(rng, cap=1500):
    """Single-word codes that use all 64 bits (n*w = 64): orbits containing the code words 2^63-1 (INT64_MAX), -2^63 (INT64_MIN), -2, 1 ... -
    the values at which sentinels, sign tests and 'diff > 0' tricks on sorted hashes break.  The identity hash makes them deterministic.
    Use with bit_encoding_width 'auto' (= w) so that the code is one word."""
    n, w = rng.choice([(64, 1), (32, 2), (16, 4), (64, 1)])
    top = 2**w - 1
    kind = rng.choice(["one_low", "one_high", "two"])
    if kind == "one_low":        # all symbols maximal except one 'top >> 1': when it sits in the last place the word is 2^63 - 1
        central = [top] * n
        central[rng.randrange(n)] = top >> 1
    elif kind == "one_high":     # all zero except one 2^(w-1): in the last place the word is -2^63
        central = [0] * n
        central[rng.randrange(n)] = 2**(w - 1)
    else:
        central = [top] * n
        a, b = rng.sample(range(n), 2)
        central[a], central[b] = top >> 1, 0
    shift = [(i + 1) % n for i in range(n)]
    gens = [shift]
    r = rng.random()
    if r < 0.35:
        gens.append([(i - 1) % n for i in range(n)])
    if r < 0.2 or r > 0.7:
        gens.append([1, 0] + list(range(2, n)))
    if r > 0.9:
        gens.append(list(range(n - 2)) + [n - 1, n - 2])
    gd = {"kind": "perm", "gens": gens, "central": central}
    if ref_bfs(gd, [central], cap) is not None:
        return gd
    return {"kind": "perm", "gens": [shift], "central": central}


def gen_overflow_matrix_graph(rng, cap=1500):
    """Matrix graphs built so that an exact dot product exceeds 2^53 (and, for the largest moduli, 2^63 before reduction): a modulus just
    below / above sqrt(2^53/n) ... sqrt(2^63/n), a finite-order generator with a row of several -1 (= m-1), states made of m-1, m-2, m-3."""
    import math as _m
    for _ in range(200):
        n = rng.choice([2, 2, 3])
        window = [int(_m.isqrt(2**53 // n)) + rng.randint(1, 10**6), 8 * 10**7, 9 * 10**7, 94906266, 94906265, 94906266 - rng.randint(0, 40), 2**26 + rng.randint(0, 5),
                  int(_m.isqrt(2**63 // n)) - rng.randint(1, 9), 2**31 - 1, 2**31]
        mod = rng.choice(window[:7] if rng.random() < 0.65 else window[7:])
        A = [[-1, -1], [1, 0]]
        others = [[[0, 1], [-1, -1]], [[-1, -1], [0, 1]], [[1, 0], [-1, -1]], [[0, 1], [1, 0]], [[0, -1], [1, 0]], [[-1, 0], [0, -1]]]
        base = [A] + [rng.choice(others) for _ in range(rng.randint(0, 2))]
        mats = []
        for B in base:
            if n == 2:
                M = [list(r_) for r_ in B]
            else:
                M = [[-1, -1, -1], [1, 0, 0], [0, 1, 0]] if B is A and rng.random() < 0.5 else [[B[0][0], B[0][1], 0], [B[1][0], B[1][1], 0], [0, 0, rng.choice([1, -1])]]
            mats.append([[v % mod for v in row] for row in M])
        m = rng.choice([1, 2])
        central = [mod - rng.choice([1, 2, 3]) for _ in range(n * m)]
        gd = {"kind": "matrix", "mats": mats, "modulo": mod, "n": n, "m": m, "central": central}
        r = ref_bfs(gd, [central], cap)
        if r is None:
            continue
        # keep the graph only when some reachable (state, generator) pair has an exact row sum that float64 cannot represent or that leaves int64
        cols = [[list(s[i * m + j] for i in range(n)) for j in range(m)] for layer in r[0] for s in layer]
        def _inexact(x):
            return x >= 2**63 or (x >= 2**53 and int(float(x)) != x)
        if any(_inexact(sum(a * b for a, b in zip(row, col))) for M in mats for row in M for cs in cols for col in cs):
            return gd
    return gen_matrix_graph(rng, cap)


def gen_graph(rng, cap=1500):
    """Mostly graphs with a non-trivial orbit (>= 12 vertices, >= 4 layers); a quarter are unconstrained (tiny orbits included)."""
    want_big = rng.random() < 0.75
    best = None
    for _ in range(40):
        r = rng.random()
        if r < 0.5:
            gd = gen_perm_graph(rng, cap)
        elif r < 0.68:
            gd = gen_perm_graph(rng, cap, multiword=True)
        elif r < 0.74:
            gd = gen_deep_directed(rng, cap)
        elif r < 0.77:
            gd = gen_repeated_closed(rng, cap)
        elif r < 0.79:
            gd = gen_label_boundary(rng, cap)
        else:
            gd = gen_matrix_graph(rng, cap)
        if not want_big:
            return gd
        layers, dist = ref_bfs(gd, [gd["central"]], cap)
        if len(dist) >= 12 and len(layers) >= 4:
            return gd
        if best is None or len(dist) > best[0]:
            best = (len(dist), gd)
    return best[1]


CONTAINERS = {"np.int8": 7, "np.uint8": 8, "np.int16": 15, "np.int32": 31, "np.int64": 63, "torch.uint8": 8, "torch.int16": 15, "torch.int32": 31, "torch.int64": 63}


def pick_container(rng, values, p_list=0.6):
    """Name of a container in which the (non-negative) values fit: 'list', 'np.<dtype>' or 'torch.<dtype>' (C13 quantifies over them; other checks sample them)."""
    if rng.random() < p_list:
        return "list"
    mx, mn = max(values, default=0), min(values, default=0)
    ok = sorted(k for k, b in CONTAINERS.items() if mx < 2**b and (mn >= 0 or ("uint" not in k and -mn <= 2**b)))
    return rng.choice(ok) if ok else "list"


def in_container(name, states):
    """`states` (nested lists) in the named container."""
    if name == "list" or name is None:
        return states
    import numpy as np
    import torch
    lib, dt = name.split(".")
    return np.array(states, dtype=getattr(np, dt)) if lib == "np" else torch.tensor(states, dtype=getattr(torch, dt))


def gen_starts(rng, gd, dist):
    """A non-empty start list drawn from the orbit (sometimes several states, duplicates, unsorted)."""
    verts = sorted(dist)
    r = rng.random()
    if r < 0.5:
        return [list(gd["central"])]
    k = rng.randint(1, 6)
    out = [list(rng.choice(verts)) for _ in range(k)]
    if rng.random() < 0.4:
        out.append(list(out[0]))
    return out


def gen_config(rng, gd):
    """Internal configuration of the CayleyGraph object."""
    cfgd = {}
    if gd["kind"] == "perm":
        mx = max(gd["central"])
        need = max(1, mx.bit_length())
        r = rng.random()
        if r < 0.4:
            cfgd["bit_encoding_width"] = "auto"
        elif r < 0.6:
            cfgd["bit_encoding_width"] = None
        else:
            cfgd["bit_encoding_width"] = rng.choice([need, need + 1, need + rng.randint(0, 6), rng.choice([8, 16, 21, 31, 32, 33, 62])])
    else:
        cfgd["bit_encoding_width"] = rng.choice(["auto", None])
    cfgd["batch_size"] = rng.choice([1, 2, 3, 7, 2**20, 2**20])
    cfgd["hash_chunk_size"] = rng.choice([1, 3, 2**25, 2**25])
    cfgd["random_seed"] = rng.choice([0, 0, -1, -2, 1, 7, 12345, rng.randrange(1, 2**40)])      # 0 and negative numbers are seeds like any other
    return cfgd


# ------------------------------------------------------------------------------------------------
# building the real objects
# ------------------------------------------------------------------------------------------------
def make_def(gd):
    import numpy as np
    from cayleypy import CayleyGraphDef, MatrixGenerator
    if gd["kind"] == "perm":
        # zoo graphs are NAMED, and graphs of one size share a name (as a library graph and its cosets do): nothing may be keyed by the name alone
        return CayleyGraphDef.create([list(g) for g in gd["gens"]], central_state=list(gd["central"]), name=f"zoo-{len(gd['central'])}")
    gens = [MatrixGenerator.create(np.array(M, dtype=np.int64), modulo=gd["modulo"]) for M in gd["mats"]]
    return CayleyGraphDef.for_matrix_group(generators=gens, central_state=list(gd["central"]), name=f"zoo-matrix-{gd['n']}x{gd['m']}")


def make_graph(gd, cfgd):
    from cayleypy import CayleyGraph
    return CayleyGraph(make_def(gd), device="cpu", **cfgd)


# ------------------------------------------------------------------------------------------------
# Coq literals
# ------------------------------------------------------------------------------------------------
def coq_hasher(graph):
    h = graph.hasher
    if h.is_identity:
        return "HIdentity"
    if graph.string_encoder is not None:
        return f"(HSplitmix {cz(int(h.seed))})"
    return "(HDot " + czl([int(v) for v in h.vec_hasher.reshape(-1).tolist()]) + ")"


def coq_gdesc(gd, graph):
    if gd["kind"] == "perm":
        kind = "(GPerm " + cnll(gd["gens"]) + ")"
    else:
        kind = f"(GMatrix {cz(gd['modulo'])} {gd['n']}%nat {gd['m']}%nat " + clist(gd["mats"], lambda M: clist(M, lambda r: clist(r, cz))) + "%Z)"
    w = None if graph.string_encoder is None else int(graph.string_encoder.w)
    return ("{| g_kind := " + kind + "; g_central := " + czl(gd["central"]) + "; g_width := " + copt(w, lambda x: f"{x}%nat")
            + "; g_hasher := " + coq_hasher(graph) + "; g_inv_closed := " + cbool(bool(graph.definition.generators_inverse_closed)) + " |}")


def flat_states(t):
    """torch tensor of decoded states (B, n) or (B, n, m) -> list of flat int lists."""
    return [[int(v) for v in row] for row in t.reshape((t.shape[0], -1)).tolist()]
