"""C04 - paths restored from a BFS result are valid and shortest."""
import graphs as G
import pathrun as P
import bfsrun
from common import cz, czl, czll, cnl, clist, TieBroken

TB = ["Coq 8.16.1 kernel (vm_compute)", "models Paths.v/Bfs.v/GraphImpl.v/Def.v validated by this correspondence",
      "translator T1 for hash constants", "torch.isin / searchsorted / nonzero as modelled in Tensor.v",
      "np.linalg.inv results enter the model as data and must pass the model's two-sided product check",
      "harness generators; naive Python BFS/path replay oracle (finding and replaying failing inputs only)"]


def check_to(gd, dist, D, q, r, central):
    """Property for find_path_to. r: python result."""
    inside = tuple(q) in dist and dist[tuple(q)] <= D
    if isinstance(r, tuple):
        return f"find_path_to raised {r[2]}"
    if r is None:
        return "find_path_to returned no path for a state inside layers 0..D" if inside else None
    if not inside:
        return "find_path_to returned a path for a state outside layers 0..D"
    end = G.run_path(gd, central, r)
    if end != tuple(q):
        return f"path {r} replayed from the central state does not end at the query state"
    if len(r) != dist[tuple(q)]:
        return f"path length {len(r)} != true distance {dist[tuple(q)]}"
    return None


def check_from(gd, dist, D, q, r, central):
    inside = tuple(q) in dist and dist[tuple(q)] <= D
    if isinstance(r, tuple):
        return f"find_path_from raised {r[2]}"
    if r is None:
        return "find_path_from returned no path for a state inside layers 0..D" if inside else None
    if not inside:
        return "find_path_from returned a path for a state outside layers 0..D"
    end = G.run_path(gd, q, r)
    if end != tuple(central):
        return f"path {r} replayed from the query state does not end at the central state"
    if len(r) != dist[tuple(q)]:
        return f"path length {len(r)} != true distance {dist[tuple(q)]}"
    return None


def make_ball(graph, D, cut):
    """The BFS result with hashes for layers 0..D, obtained the way `cut` says: by max_diameter, by the layer-size limit, or by a stop condition."""
    if cut and cut[-1] == "saved_and_loaded":
        import os, tempfile
        from cayleypy.algo.bfs_result import BfsResult
        b = make_ball(graph, D, cut[:-1])
        fd, fn_ = tempfile.mkstemp(suffix=".h5")
        os.close(fd)
        try:
            b.save(fn_)
            return BfsResult.load(fn_)
        finally:
            os.unlink(fn_)
    if not cut or cut[0] == "diameter":
        return graph.bfs(max_diameter=D, return_all_hashes=True)
    if cut[0] == "explore":
        return graph.bfs(max_layer_size_to_explore=cut[1], return_all_hashes=True)
    seen = []

    def stop(layer, hashes):
        seen.append(len(hashes))
        return len(seen) >= cut[1]
    return graph.bfs(stop_condition=stop, return_all_hashes=True)


def run(ctx):
    import translators
    translators.gen_all(strict=True)
    rng = ctx.rng
    ctx.cov["trusted_base"] = TB
    ctx.cov["rule"] = ("case = (graph, configuration, ball depth D, query state, which finder); non-trivial when the true distance is >= 2 or the query lies "
                       "outside the ball; distinct by canonical JSON")
    ctx.assumptions += ["NoColl on ball, query and candidates (the exception the property grants)"]
    ctx.prove(extra=["PathRun"])
    coq_cases, metas = [], []
    with bfsrun.Monitors() as mon:
        for _ in range(ctx.budget(60, 500)):
            deep = len(coq_cases) % 7 == 6
            gd = (G.gen_deep_directed(rng, 800, min_layers=12) if deep else
                  G.gen_repeated_closed(rng, ctx.budget(300, 2500)) if len(coq_cases) % 5 == 4 else G.gen_colliding_coset(rng, 800) if len(coq_cases) % 5 == 2
                  else P.gen_invertible_graph(rng, ctx.budget(300, 2500)))
            cfgd = G.gen_config(rng, gd)
            graph = G.make_graph(gd, cfgd)
            layers, dist = G.ref_bfs(gd, [gd["central"]])
            ecc = len(layers) - 1
            D = rng.choice([0, 1, 2, ecc, ecc + 2, rng.randint(0, ecc + 1)])
            cut = ["diameter", D]
            r0 = rng.random()
            sizes = [len(l) for l in layers]
            if ecc >= 2 and r0 < 0.3:
                # the same ball obtained through the layer-size limit: BFS stops after the first layer (index >= 1) with at least L states
                L = sizes[rng.randint(1, ecc)]
                D = next(i for i in range(1, ecc + 1) if sizes[i] >= L)
                cut = ["explore", L]
            elif ecc >= 2 and r0 < 0.4:
                D = rng.randint(1, ecc)
                cut = ["stop", D]
            reload = (rng.random() < 0.2 or deep) and gd["kind"] == "perm"       # saving is defined for permutation graphs only (C18)
            if reload and ecc >= 11:
                D = rng.randint(11, ecc + 1)            # eleven or more layers in the file: "layer 10" sorts before "layer 2" as a string
                cut = ["diameter", D]
            ctx.count("ball_cut_by_" + cut[0])
            ball = make_ball(graph, D, cut)
            if reload:
                # the same ball after a round trip through a file: a loaded result "kept hashes for layers 0..D" too
                import os, tempfile
                from cayleypy.algo.bfs_result import BfsResult
                fd, fn_ = tempfile.mkstemp(suffix=".h5", dir=ctx.work)
                os.close(fd)
                try:
                    ball.save(fn_)
                    ball = BfsResult.load(fn_)
                finally:
                    os.unlink(fn_)
                cut = cut + ["saved_and_loaded"]
                ctx.count("ball_saved_and_loaded" + ("_11plus_layers" if len(ball.layer_sizes) >= 11 else ""))
            Deff = len(ball.layer_sizes) - 1
            if cut[0] != "diameter" and Deff != D:
                ctx.violation("property_fails", f"BFS cut by {cut} kept layers 0..{Deff}, the reference says 0..{D}", {"graph": gd, "config": cfgd, "depth": D, "cut": cut, "query": list(gd["central"]), "finder": "to"}, True)
            qs = P.query_states(rng, gd, layers, dist, Deff, ctx.budget(5, 8))
            qlits = []
            ic = bool(graph.definition.generators_inverse_closed)
            for q in qs:
                r, lit = P.res_path_lit(lambda: graph.find_path_to(list(q), ball))
                qlits.append(f"(QTo {czl(q)}, {lit})")
                case = {"graph": gd, "config": cfgd, "depth": D, "cut": cut, "query": q, "finder": "to"}
                d = dist.get(tuple(q))
                ctx.case_seen(case, d is None or d >= 2)
                ctx.count("query_" + ("outside_orbit" if d is None else "inside_ball" if d <= Deff else "outside_ball"))
                msg = check_to(gd, dist, Deff, q, r, tuple(gd["central"]))
                if msg:
                    ctx.violation("property_fails", msg, case, True)
                if msg is None and isinstance(r, list):
                    # the way a user replays it: from the graph's own central state, with the library's apply_path - twice, and the central state must survive
                    for rep_ in range(2):
                        end_ = G.flat_states(graph.apply_path(graph.central_state, r))
                        if end_ != [list(q)]:
                            ctx.violation("property_fails", f"apply_path(graph.central_state, path) ends at {end_} instead of the query state (replay {rep_ + 1})", case, True)
                            break
                    if G.flat_states(graph.central_state.reshape(1, -1)) != [list(gd["central"])]:
                        ctx.violation("property_fails", "replaying a path from graph.central_state changed the graph's central state", case, True)
                if ic or rng.random() < 0.2:
                    r, lit = P.res_path_lit(lambda: graph.find_path_from(list(q), ball))
                    qlits.append(f"(QFrom {czl(q)}, {lit})")
                    case = dict(case, finder="from")
                    ctx.case_seen(case, d is None or d >= 2)
                    if ic:
                        msg = check_from(gd, dist, Deff, q, r, tuple(gd["central"]))
                        if msg:
                            ctx.violation("property_fails", msg, case, True)
                        if msg is None and isinstance(r, list):
                            # the library's own replay (validate_path) must accept what find_path_from returned - from lists, tensors, and twice in a row
                            for rep_ in range(2):
                                try:
                                    graph.validate_path(list(q) if rep_ == 0 else __import__("torch").tensor(q, dtype=__import__("torch").int64), r)
                                except AssertionError:
                                    ctx.violation("property_fails", "validate_path rejects the valid path returned by find_path_from", case, True)
                                    break
                            if G.flat_states(graph.central_state.reshape(1, -1)) != [list(gd["central"])]:
                                ctx.violation("property_fails", "replaying a path changed the graph's central state", case, True)
                    elif not (isinstance(r, tuple) and r[1] == "AssertionErr"):
                        ctx.violation("property_fails", "find_path_from on a non-inverse-closed graph did not refuse", case, True)
                # revert_path: valid path A->B reverted is a valid path B->A of the same length
                if ic and tuple(q) in dist:
                    pth = [rng.randrange(G.n_gens(gd)) for _ in range(rng.randint(0, 6))]
                    end = G.run_path(gd, q, pth)
                    rv = graph.definition.revert_path(pth)
                    if len(rv) != len(pth) or G.run_path(gd, end, rv) != tuple(q):
                        ctx.violation("property_fails", "revert_path does not lead back", {"graph": gd, "path": pth, "state": q, "finder": "revert"}, True)
            # a modified copy with OTHER generators (the same ones in reversed order), taken AFTER this object answered path queries: it must restore paths with
            # ITS generators, not with anything cached on the object it was copied from
            if gd["kind"] == "perm" and len(gd["gens"]) >= 2 and len(coq_cases) % 4 == 1:
                from cayleypy import CayleyGraphDef
                gd_r = dict(gd, gens=list(reversed(gd["gens"])))
                gcopy = graph.modified_copy(CayleyGraphDef.create([list(p_) for p_ in gd_r["gens"]], central_state=list(gd["central"])))
                ball_r = gcopy.bfs(max_diameter=max(1, min(D, 3)), return_all_hashes=True)
                Dr = len(ball_r.layer_sizes) - 1
                for q in [list(rng.choice(sorted(dist))) for _ in range(3)]:
                    r, _ = P.res_path_lit(lambda: gcopy.find_path_to(list(q), ball_r))
                    ctx.count("queries_on_copy_with_other_generators")
                    msg = check_to(gd_r, dist, Dr, q, r, tuple(gd["central"]))
                    if msg:
                        ctx.violation("property_fails", "on a modified copy with the generators in another order, taken after path queries on the source: " + msg,
                                      {"graph": gd_r, "config": cfgd, "depth": Dr, "cut": ["diameter", Dr], "query": q, "finder": "to", "derived": "modified_copy_other_generators"}, True)
                        break
            # query states that are not states of the graph at all: a symbol just outside the code alphabet (2^w exactly, 2^w + 1, max + 1).  The answer must be
            # "no path" or a refusal - never a generator sequence (oracle only: the model's states are in range by construction)
            if gd["kind"] == "perm":
                w_ = int(graph.string_encoder.w) if graph.string_encoder is not None else max(1, max(gd["central"]).bit_length())
                for _k in range(2):
                    alien = list(rng.choice(sorted(dist)))
                    alien[rng.randrange(len(alien))] = rng.choice([2 ** w_, 2 ** w_, 2 ** w_ + 1, max(gd["central"]) + 1]) if w_ < 62 else max(gd["central"]) + 1
                    if tuple(alien) in dist:
                        continue
                    r, _ = P.res_path_lit(lambda: graph.find_path_to(list(alien), ball))
                    ctx.count("alien_symbol_queries")
                    if r is not None and not isinstance(r, tuple):
                        ctx.violation("property_fails", f"find_path_to returned the path {r} for {alien}, which is not a state of the graph (symbol outside the alphabet)",
                                      {"graph": gd, "config": cfgd, "depth": D, "cut": cut, "query": alien, "finder": "to"}, True)
            coq_cases.append(f"(Build_path_case {G.coq_gdesc(gd, graph)} {P.inv_mats_lit(graph)} {graph.batch_size} {D}%N {clist(qlits)})")
            metas.append({"graph": gd, "config": cfgd, "depth": D, "cut": cut, "queries": qs})
            ctx.count("kind_" + gd["kind"]); ctx.count("directed" if not ic else "undirected")
    ctx.sample(metas[0]); ctx.sample(metas[-1])
    ctx.cov["correspondence"]["isin_calls_monitored"] = mon.calls
    for site, ln in mon.unsorted[:3]:
        ctx.violation("monitor", f"isin_via_searchsorted called with an unsorted haystack at {site}", {"site": site, "len": ln}, False)
    bad = ctx.coq_failing("Base Bfs BfsRun GraphImpl Hash Tensor PathRun", "", "path_case", coq_cases, "check_path_case", "paths", shard=ctx.budget(8, 20))
    ctx.cov["disagreements_checked"] = sum(len(m["queries"]) for m in metas)
    for i in bad[:3]:
        ctx.violation("correspondence", "path model (find_path_to/from, restore_path, inverse map) differs from the implementation", metas[i], False)


def replay(ctx, obj):
    case = obj.get("case", {})
    if obj.get("kind") == "property_fails" and case.get("finder") in ("to", "from"):
        gd, cfgd, D, q = case["graph"], case["config"], case["depth"], case["query"]
        layers, dist = G.ref_bfs(gd, [gd["central"]])
        msgs = []
        for s in (cfgd.get("random_seed"), 11, 222):
            graph = G.make_graph(gd, dict(cfgd, random_seed=s))
            ball = make_ball(graph, D, case.get("cut"))
            Deff = len(ball.layer_sizes) - 1
            if case.get("cut") and case["cut"][0] != "diameter" and Deff != D:
                msgs.append(f"BFS cut by {case['cut']} kept layers 0..{Deff}, the reference says 0..{D}")
                continue
            if case["finder"] == "to":
                r, _ = P.res_path_lit(lambda: graph.find_path_to(list(q), ball))
                m = check_to(gd, dist, Deff, q, r, tuple(gd["central"]))
            else:
                r, _ = P.res_path_lit(lambda: graph.find_path_from(list(q), ball))
                m = check_from(gd, dist, Deff, q, r, tuple(gd["central"]))
            if m is None:
                return None
            msgs.append(m)
        return msgs[0]
    run(ctx)
    return "; ".join(v["what"] for v in ctx.violations[:3]) or None
