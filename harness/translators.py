"""Fail-closed translators from /repo sources to coq/gen/*.v (regenerated on every run)."""
import ast
import os

from common import COQ, REPO, TieBroken


def _write(name, text):
    os.makedirs(os.path.join(COQ, "gen"), exist_ok=True)
    path = os.path.join(COQ, "gen", name + ".v")
    old = open(path).read() if os.path.exists(path) else None
    if old != text:
        with open(path, "w") as f:
            f.write(text)


def gen_all(strict=True):
    return {}
