"""C10 - inverted and inverse-closed definitions are exact group-theoretic inverses."""
import graphs as G
from common import cz, czl, czll, cnl, cnll, clist, cbool, copt, cstr, TieBroken

ERR = {"AssertionError": "AssertionErr", "ValueError": "ValueErr", "IndexError": "IndexErr", "KeyError": "KeyErr",
       "TypeError": "TypeErr", "RuntimeError": "RuntimeErr"}


def mat_lit(M):
    return clist(M, lambda r: clist(r, cz)) + "%Z"


def mats_lit(Ms):
    return clist(Ms, lambda M: clist(M, lambda r: clist(r, cz))) + "%Z"


def gen_perm_list(rng):
    n = rng.randint(1, 7)
    k = rng.randint(1, 6)
    gens = []
    if rng.random() < 0.15:
        # long permutations that move only a few positions - at the head, anywhere, or at the very tail (keys or sums over positions that overflow lose the tail)
        n = rng.choice([24, 32, 33, 40, 48, 64, 100, 128])
        for _ in range(k):
            r = rng.random()
            if r < 0.25 and gens:
                gens.append(G.inverse_perm(rng.choice(gens)))
                continue
            if r < 0.35 and gens:
                gens.append(list(rng.choice(gens)))
                continue
            supp_len = rng.choice([2, 3, 3, 4, 5])
            where = rng.choice(["tail", "tail", "head", "any"])
            pos = (list(range(n - supp_len, n)) if where == "tail" else list(range(supp_len)) if where == "head" else sorted(rng.sample(range(n), supp_len)))
            p = list(range(n))
            rot = pos[1:] + pos[:1]
            for a, b in zip(pos, rot):
                p[a] = b
            gens.append(p)
        return n, gens
    for _ in range(k):
        r = rng.random()
        if r < 0.12:
            gens.append(list(range(n)))
        elif r < 0.3 and n >= 2:
            p = list(range(n)); a, b = rng.sample(range(n), 2); p[a], p[b] = p[b], p[a]; gens.append(p)
        elif r < 0.45 and gens:
            gens.append(list(rng.choice(gens)))                   # repeat
        elif r < 0.6 and gens:
            gens.append(G.inverse_perm(rng.choice(gens)))          # an inverse already present
        else:
            gens.append(G.rand_perm(rng, n))
    return n, gens


def unimodular(rng, n, steps, big):
    M = [[1 if i == j else 0 for j in range(n)] for i in range(n)]
    for _ in range(steps):
        r = rng.random()
        if n >= 2 and r < 0.6:
            a, b = rng.sample(range(n), 2)
            c = rng.choice([1, -1, 2, -3, big])
            M[a] = [x + c * y for x, y in zip(M[a], M[b])]
        elif n >= 2 and r < 0.8:
            a, b = rng.sample(range(n), 2)
            M[a], M[b] = M[b], M[a]
        else:
            a = rng.randrange(n)
            M[a] = [-x for x in M[a]]
    return M


def exact_integer_inverse(M):
    """Oracle: the inverse over the rationals by Gauss-Jordan elimination with Python Fractions; None unless it exists and is an integer matrix."""
    from fractions import Fraction
    n = len(M)
    A = [[Fraction(v) for v in row] + [Fraction(1 if i == j else 0) for j in range(n)] for i, row in enumerate(M)]
    for c in range(n):
        piv = next((r for r in range(c, n) if A[r][c] != 0), None)
        if piv is None:
            return None
        A[c], A[piv] = A[piv], A[c]
        pv = A[c][c]
        A[c] = [v / pv for v in A[c]]
        for r in range(n):
            if r != c and A[r][c] != 0:
                f = A[r][c]
                A[r] = [x - f * y for x, y in zip(A[r], A[c])]
    inv = [row[n:] for row in A]
    if any(v.denominator != 1 for row in inv for v in row):
        return None
    return [[int(v) for v in row] for row in inv]


def mat_mul_exact(A, B):
    n = len(A)
    return [[sum(A[i][j] * B[j][k] for j in range(n)) for k in range(n)] for i in range(n)]


def run(ctx):
    import numpy as np
    import torch
    from cayleypy import CayleyGraphDef, MatrixGenerator
    import cayleypy.cayley_graph_def as cgd
    rng = ctx.rng
    ctx.cov["trusted_base"] = ["Coq 8.16.1 kernel (vm_compute)", "model Def.v/Perm.v/Matrix.v validated here",
                               "np.linalg.inv (LAPACK) is an oracle: its rounded result is recorded and fed to the model, which re-checks the product",
                               "harness generators; exact Python integer matrix arithmetic as oracle"]
    ctx.cov["rule"] = ("case = a permutation generator list (with names, a path) or a list of integer matrices with a modulus; non-trivial when not every generator is an involution "
                       "or the identity; distinct by canonical JSON")
    ctx.assumptions += ["completeness of MatrixGenerator.inv rests on LAPACK returning the inverse within 1/2 of the integer inverse (validated by exploration only: the partial part)"]
    ctx.prove(extra=["IntInverse", "DefRun"])

    # ---------------- permutations ----------------
    cases, metas = [], []
    for _ in range(ctx.budget(250, 2500)):
        n, gens = gen_perm_list(rng)
        names = None if rng.random() < 0.5 else [rng.choice(["a", "b", "L", "R", "X", "g'", "é", ""]) + str(i) for i in range(len(gens))]
        name = rng.choice(["", "", "zoo", "lrx-5"])
        central = [rng.randrange(n) for _ in range(n)] if rng.random() < 0.5 else None
        d = CayleyGraphDef.create([list(g) for g in gens], generator_names=names, central_state=central, name=name)
        invmap = d.generators_inverse_map
        flag = d.generators_inverse_closed
        inverted = d.with_inverted_generators()
        mic = d.make_inverse_closed()
        mic2 = mic.make_inverse_closed()
        # the same request through create_graph with EXPLICIT generators: make_inverse_closed=True must give the same generators as the method
        if len(metas) % 5 == 0:
            import cayleypy
            gcg = cayleypy.create_graph(generators_permutations=[list(g) for g in gens], make_inverse_closed=True)
            ctx.count("create_graph_make_inverse_closed")
            if [list(map(int, p_)) for p_ in gcg.definition.generators_permutations] != [list(map(int, p_)) for p_ in mic.generators_permutations] \
                    or not gcg.definition.generators_inverse_closed:
                ctx.violation("property_fails", "create_graph(generators_permutations=..., make_inverse_closed=True) does not return the inverse-closed definition",
                              {"class": "perm_def", "gens": gens, "names": None, "name": "", "central": None, "path": [], "claim": "create_graph"}, True)
        path = [rng.randrange(len(gens)) for _ in range(rng.randint(0, 6))]
        try:
            rv = "(Ok " + cnl(d.revert_path(path)) + ")"
        except Exception as ex:  # pylint: disable=broad-except
            rv = "(Err " + ERR.get(type(ex).__name__, "RuntimeErr") + ")"
        case = {"class": "perm_def", "gens": gens, "names": names, "name": name, "central": central, "path": path}
        ctx.case_seen(case, any(g != G.inverse_perm(g) for g in gens))
        ctx.count("perm_closed" if flag else "perm_not_closed")
        # ---- the property itself (independent oracle) ----
        msg = None
        gd = {"kind": "perm", "gens": gens, "central": d.central_state}
        gdi = {"kind": "perm", "gens": inverted.generators_permutations, "central": d.central_state}
        x = tuple(rng.randrange(50) for _ in range(n))
        for i in range(len(gens)):
            if G.act(gdi, i, G.act(gd, i, x)) != x or G.act(gd, i, G.act(gdi, i, x)) != x:
                msg = f"generator {i} of the inverted definition does not undo generator {i}"
        closed_ref = G.is_inverse_closed_ref(gd)
        if flag != closed_ref:
            msg = f"generators_inverse_closed = {flag}, truth is {closed_ref}"
        if (invmap is None) != (not closed_ref):
            msg = "inverse map is None although inverse-closed (or conversely)"
        if invmap is not None:
            for i in range(len(gens)):
                if G.act(gd, invmap[i], G.act(gd, i, x)) != x:
                    msg = f"generator {i} followed by generator map[{i}]={invmap[i]} is not the identity"
        mg = mic.generators_permutations
        have = {tuple(g) for g in gens}
        missing = [i for i in range(len(gens)) if tuple(G.inverse_perm(gens[i])) not in have]
        if mg[: len(gens)] != gens or mic.generator_names[: len(gens)] != d.generator_names or mic.central_state != d.central_state:
            msg = "make_inverse_closed does not keep generators, names, order or central state"
        elif not closed_ref and mg[len(gens):] != [G.inverse_perm(gens[i]) for i in missing]:
            msg = "make_inverse_closed does not add exactly the missing inverses"
        elif not closed_ref and mic.generator_names[len(gens):] != [d.generator_names[i] + "'" for i in missing]:
            msg = "make_inverse_closed names the added inverses wrongly"
        elif not mic.generators_inverse_closed:
            msg = "the result of make_inverse_closed does not report itself inverse-closed"
        elif mic2.generators_permutations != mg or mic2.generator_names != mic.generator_names or mic2.name != mic.name:
            msg = "make_inverse_closed is not idempotent"
        elif closed_ref and mic is not d:
            msg = "make_inverse_closed of a closed definition does not return it"
        if msg:
            ctx.violation("property_fails", msg, case, True)
        cases.append("(Build_perm_def_case " + " ".join([
            cnll(gens), clist(d.generator_names, cstr), cstr(name), copt(invmap, cnl), cbool(flag), cnll(inverted.generators_permutations),
            cnll(mg), clist(mic.generator_names, cstr), cstr(mic.name), cnl(path), rv]) + ")")
        metas.append(case)
    ctx.sample(metas[0]); ctx.sample(metas[1])
    bad = ctx.coq_failing("Base Perm Def DefRun", "", "perm_def_case", cases, "check_perm_def", "permdef", shard=300)
    ctx.cov["disagreements_checked"] += len(cases)
    for i in bad[:3]:
        ctx.violation("correspondence", "definition model (inverse map / inverted / inverse closure / revert_path) differs from the implementation", metas[i], False)

    # ---------------- matrices ----------------
    recorded = []
    orig_inv = np.linalg.inv

    def rec_inv(a):
        try:
            r = orig_inv(a)
        except np.linalg.LinAlgError:
            # numerically singular for LAPACK: the library then has NO floating-point candidate (fix F27); the model gets a candidate that fails its product check
            recorded.append([[0] * len(a) for _ in range(len(a))])
            raise
        recorded.append(np.array(np.rint(r), dtype=np.int64).tolist())
        return r
    cases, metas = [], []
    if not hasattr(cgd.np.linalg, "inv"):
        raise TieBroken("np.linalg.inv not reachable from cayley_graph_def")
    cgd.np.linalg.inv = rec_inv
    # the exact rational fallback of MatrixGenerator.inv (fix F24) is a second oracle: what it returned is recorded and fed to the model
    recorded_exact = []
    orig_exact = getattr(cgd, "_integer_inverse", None)
    if orig_exact is not None:
        exact_calls = []

        def rec_exact(a):
            r = orig_exact(a)
            recorded_exact.append(None if r is None else np.asarray(r).tolist())
            exact_calls.append((np.asarray(a).tolist(), recorded_exact[-1]))
            return r
        cgd._integer_inverse = rec_exact
    try:
        for it in range(ctx.budget(150, 1500)):
            n = rng.randint(1, 4)
            r = rng.random()
            if it % 6 == 5:
                # ill-conditioned unimodular matrices: the rounded floating-point inverse is off by more than 1/2 (finding F24)
                n, modulo = 4, 0
                mats = [unimodular(rng, 4, rng.randint(9, 14), rng.choice([2**10, 2**11, 2**12])) for _ in range(rng.randint(1, 2))]
                if it % 12 == 5:
                    # small entries, HUGE exact inverse (beyond 2^53, below 2^62): identity + c on the superdiagonal; anything that passes through float64 loses digits
                    c_, n = rng.choice([(3, rng.randint(35, 39)), (10, rng.randint(17, 18)), (2, rng.randint(55, 61)), (-3, 36), (7, rng.randint(20, 22))])
                    mats = [[[1 if i == j else c_ if j == i + 1 else 0 for j in range(n)] for i in range(n)]]
                    ctx.count("huge_inverse_cases")
                if it % 12 == 11:
                    # Fibonacci blocks [[F(k+1), F(k)], [F(k), F(k-1)]] (determinant +-1): from k = 40 LAPACK reports "Singular matrix" (finding F27)
                    n = rng.randint(2, 4)
                    mats = []
                    for _ in range(rng.randint(1, 2)):
                        k = rng.randint(34, 45)
                        f = [0, 1]
                        while len(f) < k + 2:
                            f.append(f[-1] + f[-2])
                        M = [[rng.choice([1, -1]) if i == j else 0 for j in range(n)] for i in range(n)]
                        M[0][0], M[0][1], M[1][0], M[1][1] = f[k + 1], f[k], f[k], f[k - 1]
                        rows = list(range(n))
                        rng.shuffle(rows)
                        mats.append([M[i] for i in rows])
                    ctx.count("fibonacci_block_cases")
            elif r < 0.6:
                modulo = 0
                big = rng.choice([3, 10, 2**10, 2**20])
                k = rng.randint(1, 4)
                mats = [unimodular(rng, n, rng.randint(1, 3 * n), big) for _ in range(k)]
                if rng.random() < 0.3:
                    mats.append([[rng.randint(-3, 3) for _ in range(n)] for _ in range(n)])      # maybe not invertible
            else:
                modulo = rng.choice([2, 3, 5, 7, 10, 2**31 - 1, 2**31, 2 * 10**9, 2**31 - 1, 2**26 - 5, 94906267, 3037000507 % 2**31])
                k = rng.randint(1, 3)
                if modulo > 2**20:
                    # many residues near the modulus in one row/column: sums of >= 3 products of such residues exceed int64 unless reduced first
                    n = rng.randint(3, 6)
                    mats = []
                    for _ in range(k):
                        M = [[1 if i == j else 0 for j in range(n)] for i in range(n)]
                        if rng.random() < 0.5:
                            for j in range(1, n):
                                M[0][j] = -1
                            for i in range(0, n - 1):
                                M[i][n - 1] = 1 if i else M[i][n - 1]
                        else:
                            M = unimodular(rng, n, rng.randint(n, 3 * n), 2)
                        mats.append([[v % modulo for v in row] for row in M])
                else:
                    mats = [[[v % modulo for v in row] for row in unimodular(rng, n, rng.randint(1, 2 * n), 2)] for _ in range(k)]
            if it % 6 == 2:
                # modular generators whose REDUCED representative is itself unimodular and has residues above m/2 (the representative the library stores
                # and must invert is the one in [0, m), not a centred one): products of elementary matrices with non-negative entries
                n = rng.randint(2, 4)
                mats = []
                for _ in range(rng.randint(1, 2)):
                    M = [[1 if i == j else 0 for j in range(n)] for i in range(n)]
                    for _s in range(rng.randint(2, 6)):
                        a, b = rng.sample(range(n), 2)
                        M[a] = [x + rng.choice([1, 1, 2]) * y for x, y in zip(M[a], M[b])]
                    mats.append(M)
                top = max(v for M in mats for row in M for v in row)
                modulo = rng.randint(top + 1, 2 * top + 1)
                ctx.count("modular_large_residue_cases")
            if rng.random() < 0.4:
                # add true inverses of some (computed exactly) so that closed sets occur
                for M in list(mats):
                    if rng.random() < 0.7:
                        try:
                            Mi = np.array(np.rint(orig_inv(np.array(M, dtype=np.int64))), dtype=np.int64).tolist()
                            if mat_mul_exact(M, Mi) == [[1 if i == j else 0 for j in range(n)] for i in range(n)]:
                                mats.append([[v % modulo for v in row] for row in Mi] if modulo else Mi)
                        except Exception:  # pylint: disable=broad-except
                            pass
            if max(abs(v) for M in mats for row in M for v in row) >= 2**40:
                continue
            gens = [MatrixGenerator.create(np.array(M, dtype=np.int64), modulo=modulo) for M in mats]
            mats = [g.matrix.tolist() for g in gens]
            d = CayleyGraphDef.for_matrix_group(generators=gens)
            invmap = d.generators_inverse_map
            flag = d.generators_inverse_closed
            cands, invs, exacts = [], [], []
            case = {"class": "matrix_def", "mats": mats, "modulo": modulo}
            eye = [[1 if i == j else 0 for j in range(n)] for i in range(n)]
            for gi, g in enumerate(gens):
                recorded.clear()
                recorded_exact.clear()
                try:
                    mi = g.inv
                    invs.append("(Ok " + mat_lit(mi.matrix.tolist()) + ")")
                    # property: the inverse undoes the generator on states, both ways (exact integers / mod m)
                    A, B = mats[gi], mi.matrix.tolist()
                    for P_, Q_ in ((A, B), (B, A)):
                        prod = mat_mul_exact(P_, Q_)
                        prod = [[(v % modulo) if modulo else G.wrap(v) for v in row] for row in prod]
                        if prod != eye:
                            ctx.violation("property_fails", "MatrixGenerator.inv returned a matrix that is not the two-sided inverse", dict(case, index=gi), True)
                except AssertionError:
                    invs.append("(Err AssertionErr)")
                    # completeness: an integer matrix with determinant +-1 must be invertible (modulo 0: the matrix; modulo m: its reduced representative)
                    if True:
                        ei = exact_integer_inverse(mats[gi])
                        if ei is not None and max(abs(v) for row in ei for v in row) < 2**62 and max(abs(v) for row in mats[gi] for v in row) < 2**31:
                            ctx.violation("property_fails", "MatrixGenerator.inv rejects an integer matrix whose inverse is an integer matrix (determinant +-1)",
                                          dict(case, index=gi), True)
                except Exception as ex:  # pylint: disable=broad-except
                    invs.append("(Err " + ERR.get(type(ex).__name__, "RuntimeErr") + ")")
                    if True:
                        ei = exact_integer_inverse(mats[gi])
                        if ei is not None and max(abs(v) for row in ei for v in row) < 2**62 and max(abs(v) for row in mats[gi] for v in row) < 2**31:
                            ctx.violation("property_fails", f"MatrixGenerator.inv raised {type(ex).__name__} for an integer matrix whose inverse is an integer matrix "
                                          "(determinant +-1)", dict(case, index=gi), True)
                cands.append(recorded[0] if recorded else [[0] * n for _ in range(n)])
                exacts.append(recorded_exact[0] if recorded_exact else None)
                if recorded_exact:
                    ctx.count("exact_fallback_used" + ("" if recorded_exact[0] is not None else "_no_integer_inverse"))
                if not recorded and "Ok" in invs[-1]:
                    raise TieBroken("MatrixGenerator.inv did not call np.linalg.inv (oracle not observable)")
            # singular matrices raise LinAlgError inside numpy before the assertion: model has no candidate; skip such cases for the model
            if any("RuntimeErr" in s for s in invs):
                ctx.count("matrix_singular_skipped")
                continue
            missing = []
            try:
                mic = d.make_inverse_closed()
                missing = [i for i in range(len(gens)) if not any(gens[i].is_inverse_to(h) for h in gens)] if not flag else []
                if mic.generators_matrices[: len(gens)] != gens:
                    ctx.violation("property_fails", "make_inverse_closed does not keep the matrix generators", case, True)
                if not mic.generators_inverse_closed:
                    ctx.violation("property_fails", "the result of make_inverse_closed (matrices) does not report itself inverse-closed", case, True)
                if mic.make_inverse_closed() is not mic:
                    ctx.violation("property_fails", "make_inverse_closed (matrices) is not idempotent", case, True)
                if len(mic.generators_matrices) != len(gens) + len(missing):
                    ctx.violation("property_fails", "make_inverse_closed (matrices) does not add exactly the missing inverses", case, True)
            except AssertionError:
                ctx.count("matrix_mic_not_invertible")
                missing = None
            ref_closed = G.is_inverse_closed_ref({"kind": "matrix", "mats": mats, "modulo": modulo, "n": n, "m": 1, "central": [0] * n})
            if flag != ref_closed:
                ctx.violation("property_fails", f"generators_inverse_closed = {flag} for matrices, truth is {ref_closed}", case, True)
            ctx.case_seen(case, True)
            # the same generators with a NON-SQUARE central state (n x 1 vector, n x 2 ...): inverting / closing the definition keeps it
            if rng.random() < 0.35:
                m_ = rng.choice([1, 2, n + 1])
                cs_ = [[(rng.randrange(modulo) if modulo else rng.randint(-3, 3)) for _ in range(m_)] for _ in range(n)]
                ctx.count("matrix_non_square_central")
                try:
                    d_ns = CayleyGraphDef.for_matrix_group(generators=gens, central_state=cs_)
                    flat_ = [v for row in cs_ for v in row]
                    outs_ = []
                    try:
                        outs_.append(("with_inverted_generators", d_ns.with_inverted_generators()))
                    except AssertionError:
                        pass                                  # a generator without an integer inverse: outside the guaranteed domain
                    try:
                        outs_.append(("make_inverse_closed", d_ns.make_inverse_closed()))
                    except AssertionError:
                        pass
                    for nm_, dd_ in outs_:
                        if [int(v) for v in dd_.central_state] != flat_:
                            ctx.violation("property_fails", f"{nm_} changed the (non-square) central state of a matrix definition",
                                          {"class": "matrix_def", "mats": mats, "modulo": modulo, "central": cs_}, True)
                except AssertionError:
                    raise
                except Exception as ex:  # pylint: disable=broad-except
                    ctx.violation("property_fails", f"a matrix definition with a {n}x{m_} central state cannot be inverted / closed: {type(ex).__name__}: {str(ex)[:80]}",
                                  {"class": "matrix_def", "mats": mats, "modulo": modulo, "central": cs_}, True)
            ctx.count("matrix_mod0" if modulo == 0 else "matrix_modular")
            if missing is None:
                missing_lit = cnl([i for i in range(len(gens)) if not any(gens[i].is_inverse_to(h) for h in gens)] if not flag else [])
            else:
                missing_lit = cnl(missing)
            cases.append("(Build_mat_def_case " + " ".join([cz(modulo), f"{n}%nat", mats_lit(mats), copt(invmap, cnl), cbool(flag),
                                                          mats_lit(cands), clist(exacts, lambda e: copt(e, mat_lit)), clist(invs), missing_lit]) + ")")
            metas.append(case)
    finally:
        cgd.np.linalg.inv = orig_inv
        if orig_exact is not None:
            cgd._integer_inverse = orig_exact
    # the exact fallback itself: model IntInverse.integer_inverse (proved sound and complete) = implementation, on every call the run made
    # plus direct calls on matrices of every kind (singular, non-integral inverse, unimodular with large entries)
    if orig_exact is not None:
        direct = []
        for _ in range(ctx.budget(120, 1200)):
            n = rng.randint(1, 5)
            r = rng.random()
            if r < 0.5:
                M = unimodular(rng, n, rng.randint(1, 4 * n), rng.choice([2, 3, 2**10, 2**20, 2**40]))
            elif r < 0.8:
                M = [[rng.randint(-4, 4) for _ in range(n)] for _ in range(n)]
            else:
                M = unimodular(rng, n, rng.randint(1, 6), 3)
                i = rng.randrange(n)
                M[i] = [2 * v for v in M[i]]                       # determinant +-2: the inverse is not integral
            if max(abs(v) for row in M for v in row) >= 2**62:
                continue
            out = orig_exact(np.array(M, dtype=np.int64))
            direct.append((M, None if out is None else np.asarray(out).tolist()))
            ei = exact_integer_inverse(M) if n <= 4 else None
            if n <= 4 and (ei is not None and max(abs(v) for row in ei for v in row) < 2**63) != (out is not None):
                ctx.violation("property_fails", "_integer_inverse disagrees with the adjugate oracle on whether an integer inverse exists", {"class": "exact_inverse", "matrix": M}, True)
        allc = exact_calls + direct
        ic = ["(" + mat_lit(M) + ", " + copt(r, mat_lit) + ")" for M, r in allc]
        bad = ctx.coq_failing("Base Matrix IntInverse", "", "list (list Z) * option (list (list Z))", ic, "check_integer_inverse", "intinv", shard=150)
        ctx.cov["disagreements_checked"] += len(ic)
        ctx.count("exact_inverse_calls_compared", len(ic))
        for i in bad[:3]:
            ctx.violation("correspondence", "model of the exact integer inverse differs from _integer_inverse", {"class": "exact_inverse", "matrix": allc[i][0]}, False)
    else:
        raise TieBroken("cayley_graph_def._integer_inverse (the exact fallback of MatrixGenerator.inv) no longer exists")
    ctx.sample(metas[0])
    bad = ctx.coq_failing("Base Matrix Def DefRun", "", "mat_def_case", cases, "check_mat_def", "matdef", shard=200)
    ctx.cov["disagreements_checked"] += len(cases)
    for i in bad[:3]:
        ctx.violation("correspondence", "matrix definition model (inverse map / inv / closure) differs from the implementation", metas[i], False)


def replay(ctx, obj):
    run(ctx)
    return "; ".join(v["what"] for v in ctx.violations[:3]) or None
