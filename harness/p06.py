"""C06 - beam search never reports a path that does not exist, and is exact when unpruned."""
import graphs as G
import pathrun as P
import p07
from common import cz, czl, czll, cnl, cnll, clist, cbool, copt, TieBroken


class TorchProxy:
    """Stands in for torch inside cayleypy.algo.beam_search: records scores and the full argsort of every pruning step."""

    def __init__(self, real, rec):
        self._real = real
        self._rec = rec

    def __getattr__(self, name):
        return getattr(self._real, name)

    def argsort(self, scores, *a, **k):
        r = self._real.argsort(scores, *a, **k)
        self._rec.append(([int(v) for v in scores.tolist()], [int(v) for v in r.tolist()]))
        return r


def scorer(kind, gd, salt):
    import torch
    c = torch.tensor(gd["central"], dtype=torch.int64)

    def flat(x):
        return x.reshape((x.shape[0], -1))
    if kind == "exact":
        # a perfect heuristic (true distance from the central state = distance to it on inverse-closed graphs): narrow beams succeed AND prune
        _, table = G.ref_bfs(gd, [gd["central"]])
        return lambda x: torch.tensor([table.get(tuple(int(v) for v in row), 99) for row in flat(x).tolist()], dtype=torch.int64)
    if kind == "far":
        return lambda x: -(flat(x) != c).sum(dim=1)
    if kind == "const":
        return lambda x: torch.full((x.shape[0],), 5, dtype=torch.int64)
    if kind == "table":
        return lambda x: ((flat(x) * torch.arange(1, flat(x).shape[1] + 1) * 2654435761 + salt).sum(dim=1) % 17)
    raise ValueError(kind)


def check_beam(gd, start, res, dist_from_start, unpruned, max_steps, ic, has_ball, return_path):
    """res: ('err', name, msg) or (found, length, path). Returns (message or None, class)."""
    central = tuple(gd["central"])
    d = dist_from_start.get(central)
    cls = "simple_mitm_ball_on_non_inverse_closed_graph" if (has_ball and not ic) else "beam"
    if res[0] == "err":
        return f"beam_search raised {res[2]}", cls
    found, length, path = res
    if found:
        if d is None:
            return "success reported for an unreachable target", cls
        reach = p07.exact_reach_sets(gd, start, length)
        if central not in reach[length]:
            return f"reported length {length} is not the length of any walk from the start state to the target (true distance {d})", cls
        if path is not None:
            if len(path) != length:
                return f"returned path has {len(path)} edges, reported length is {length}", cls
            if G.run_path(gd, start, path) != central:
                return "the returned path replayed from the start state does not end at the central state", cls
        elif return_path:
            return "return_path=True but no path returned", cls
    if unpruned and d is not None and max_steps >= d:
        if not found:
            return f"unpruned beam with budget {max_steps} >= distance {d} did not find the target", cls
        if length != d:
            return f"unpruned beam reported length {length}, the shortest distance is {d}", cls
    return None, cls


def run(ctx):
    import torch
    import translators
    import cayleypy.algo.beam_search as bs
    from cayleypy import Predictor
    translators.gen_all(strict=True)
    rng = ctx.rng
    ctx.cov["trusted_base"] = ["Coq 8.16.1 kernel (vm_compute)", "models Beam.v/Paths.v/Bfs.v validated here; torch.argsort (unstable) enters as a recorded oracle whose validity the model re-checks",
                               "translator T1 (hash constants)", "harness generators; exact-k reachability oracle in pure Python"]
    ctx.cov["rule"] = ("case = (graph, configuration, start, mode, beam width, step budget, history depth, return_path, ball depth, score function, recorded selections); "
                       "non-trivial when a pruning step actually dropped a state, or (unpruned) the distance is >= 2; distinct by canonical JSON")
    ctx.prove(extra=["AlgoRun"])
    if not hasattr(bs, "torch"):
        raise TieBroken("cayleypy.algo.beam_search no longer imports torch as a module attribute: argsort cannot be observed")
    rec = []
    real_torch = bs.torch
    bs.torch = TorchProxy(real_torch, rec)
    cases, metas = [], []
    try:
        for it_ in range(ctx.budget(160, 1500)):
            gd = P.gen_invertible_graph(rng, 300)
            if it_ % 8 == 5:
                # one directed generator (a cyclic shift of a marked necklace), or a shift and a swap: every unpruned layer of the single-generator graph
                # has ONE state - "the beam stopped growing" is not "the search space is exhausted" on directed graphs
                n_ = rng.randint(5, 9)
                c_ = [0] * n_
                c_[rng.randrange(n_)] = 1
                if rng.random() < 0.4:
                    c_[rng.randrange(n_)] = 2
                gens_ = [[(i + 1) % n_ for i in range(n_)]] + ([[1, 0] + list(range(2, n_))] if rng.random() < 0.3 else [])
                gd = {"kind": "perm", "gens": gens_, "central": c_}
                ctx.count("single_directed_generator_graphs")
            cfgd = G.gen_config(rng, gd)
            graph = G.make_graph(gd, cfgd)
            if gd["kind"] == "perm" and it_ % 3 == 2:
                # the searched object is a DERIVED copy (modified_copy from a graph with another central state): it must recognise its own central state
                _, d0_ = G.ref_bfs(gd, [gd["central"]])
                base_ = G.make_graph(dict(gd, central=list(rng.choice(sorted(d0_)))), cfgd)
                graph = base_.modified_copy(base_.definition.with_central_state(list(gd["central"])))
                ctx.count("searches_on_a_derived_copy")
            ic = bool(graph.definition.generators_inverse_closed)
            layers, dist = G.ref_bfs(gd, [gd["central"]])
            verts = sorted(dist)
            r = rng.random()
            start = list(rng.choice(verts)) if r < 0.9 else (P.outside_state(rng, gd, dist) or list(rng.choice(verts)))
            _, dist_from_start = G.ref_bfs(gd, [start])
            if len(dist_from_start) > max(400, 2 * len(dist)):
                # a start state outside the orbit whose own orbit is far larger than the graph the case was sized for (costly for the model, nothing new)
                start = list(rng.choice(verts))
                _, dist_from_start = G.ref_bfs(gd, [start])
            advanced = rng.random() < 0.4
            orbit = len(dist_from_start)
            width = rng.choice([1, 2, 3, 5, orbit * G.n_gens(gd) + 1, orbit * G.n_gens(gd) + 1])
            unpruned = width > orbit * G.n_gens(gd)
            steps = rng.choice([1, 2, 4, len(layers) + 1, 20])
            hist = rng.choice([0, 0, 1, 2, 3]) if advanced else 0
            return_path = (not advanced) and rng.random() < 0.5
            ball_depth = None
            if not advanced and rng.random() < 0.4 and (ic or rng.random() < 0.3):
                ball_depth = rng.randint(0, 3)
            sk = rng.choice([None, None, "zero", "far", "const", "table"])
            if it_ % 4 == 3 and ic and len(layers) >= 4:
                # guided narrow searches that SUCCEED after real pruning, with the path asked for, with and without a ball (pruned layers are kept in score
                # order, not hash order; the tail through the ball must use inverse generators)
                advanced, hist, sk, return_path = False, 0, "exact", True
                start = list(rng.choice([v for v in verts if dist[v] >= min(3, len(layers) - 1)]))
                _, dist_from_start = G.ref_bfs(gd, [start])
                width, steps = rng.choice([2, 3, 5, 8]), 30
                unpruned = False
                ball_depth = rng.choice([None, 1, 2])
                ctx.count("guided_narrow_searches")
            if it_ % 8 == 5:
                far_ = [v for v in verts if dist_from_start.get(tuple(gd["central"])) is not None]
                advanced, hist, return_path, ball_depth, sk = False, 0, rng.random() < 0.5, None, rng.choice([None, "zero", "const"])
                # a start state from which the central state is at distance >= 3 along the directed cycle
                cands_ = []
                for v_ in verts:
                    _, dfs_ = G.ref_bfs(gd, [list(v_)])
                    if dfs_.get(tuple(gd["central"]), 0) >= 3:
                        cands_.append(list(v_))
                if cands_:
                    start = rng.choice(cands_)
                    _, dist_from_start = G.ref_bfs(gd, [start])
                orbit = len(dist_from_start)
                width, steps = orbit * G.n_gens(gd) + 1, 3 * len(verts)
                unpruned = True
            pred = None if sk is None else (Predictor(graph, "zero") if sk == "zero" else Predictor(graph, scorer(sk, gd, rng.randrange(100))))
            kw = dict(start_state=start, beam_mode="advanced" if advanced else "simple", beam_width=width, max_steps=steps, predictor=pred)
            # the advanced mode can search for ANOTHER target than the central state (destination_state): everything the property says holds for that target
            dest = None
            if advanced and rng.random() < 0.35:
                dest = list(rng.choice(verts)) if rng.random() < 0.85 else (P.outside_state(rng, gd, dist) or list(rng.choice(verts)))
                kw["destination_state"] = dest
                ctx.count("advanced_with_destination_state")
            if advanced:
                kw["history_depth"] = hist
            else:
                kw["return_path"] = return_path
                if ball_depth is not None:
                    kw["bfs_result_for_mitm"] = graph.bfs(max_diameter=ball_depth, return_all_hashes=True)
            # history on the SAME object: an earlier search from another start state with the same options must leave nothing behind
            warm = None
            if rng.random() < 0.5:
                warm = list(rng.choice(verts))
                try:
                    graph.beam_search(**dict(kw, start_state=warm))
                except Exception:  # pylint: disable=broad-except
                    pass
                ctx.count("searches_on_a_used_object")
            # a ball computed around ANOTHER central state (same generators): it must be refused, or at least never make the search report a walk that does not exist
            foreign = None
            if ball_depth is not None and ic and rng.random() < 0.5 and len(verts) > 1:
                return_path = False
                kw["return_path"] = False
                foreign = list(rng.choice([v for v in verts if tuple(v) != tuple(gd["central"])]))
                kw["bfs_result_for_mitm"] = G.make_graph(dict(gd, central=foreign), cfgd).bfs(max_diameter=ball_depth, return_all_hashes=True)
                ctx.count("foreign_ball_cases")
            rec.clear()
            case = {"graph": gd, "config": cfgd, "start": start, "advanced": advanced, "width": width, "steps": steps, "history": hist,
                    "return_path": return_path, "ball_depth": ball_depth, "score": sk, "warmup_start": warm, "foreign_ball_central": foreign}
            try:
                r = graph.beam_search(**kw)
                res = (bool(r.path_found), int(r.path_length), None if r.path is None else [int(i) for i in r.path])
                lit = f"(Ok ({cbool(res[0])}, {res[1]}%nat, {copt(res[2], cnl)}))"
            except Exception as ex:  # pylint: disable=broad-except
                name = P.ERR.get(type(ex).__name__, "RuntimeErr")
                res = ("err", name, repr(ex)[:160])
                lit = f"(Err {name})"
            # default predictor (Hamming distance to THIS graph's central state): the best score reported for the first pruned step of a
            # simple search is the least number of mismatches over the exact frontier (the beam was never pruned before)
            if sk is None and not advanced and ball_depth is None and res[0] != "err":
                layer = {tuple(start)}
                for step in range(1, steps + 1):
                    layer = {G.act(gd, gi_, s_) for s_ in layer for gi_ in range(G.n_gens(gd))}
                    if tuple(gd["central"]) in layer or len(layer) > 4000:
                        break
                    if len(layer) >= width:                                   # the code scores a layer as soon as it has beam_width states
                        want_best = min(sum(1 for a_, b_ in zip(gd["central"], s_) if a_ != b_) for s_ in layer)
                        got_best = r.debug_scores.get(step - 1)                  # iteration numbers are zero-based
                        ctx.count("default_predictor_best_score_checked")
                        if got_best is not None and int(got_best) != want_best:
                            ctx.violation("property_fails", f"default (Hamming) predictor: best score at the first pruned step {step} is {got_best}, the least number of "
                                          f"mismatches with this graph's central state over the frontier is {want_best}", dict(case, claim="default_predictor_score"), True)
                        break
            sels = [(sc, idx[:width]) for sc, idx in rec]
            dropped = any(len(sc) > width for sc, _ in rec)
            d = dist_from_start.get(tuple(gd["central"]))
            if dest is not None:
                # oracle only (the model of the harness searches for the central state): the same claims with the destination as target
                gd_t = dict(gd, central=dest)
                msg, _cls = check_beam(gd_t, start, res, dist_from_start, unpruned, steps, ic, False, False)
                if msg:
                    ctx.violation("property_fails", f"advanced search with destination_state {dest}: " + msg, dict(case, destination=dest), True)
                continue
            if foreign is not None:
                # oracle only (the model builds its own ball): a refusal is fine, a reported success must still be a real walk to THIS graph's central state
                if res[0] != "err":
                    msg, cls = check_beam(gd, start, res, dist_from_start, False, steps, ic, True, return_path)
                    if msg:
                        ctx.violation("property_fails", "with a ball computed around another central state: " + msg, case, True)
                continue
            msg, cls = check_beam(gd, start, res, dist_from_start, unpruned, steps, ic, ball_depth is not None, return_path)
            case["class"] = cls
            ctx.case_seen(case, dropped or (unpruned and d is not None and d >= 2))
            ctx.count("mode_" + ("advanced" if advanced else "simple") + ("_ball" if ball_depth is not None else "") + ("_path" if return_path else ""))
            if dropped:
                ctx.count("runs_with_real_pruning")
            if unpruned:
                ctx.count("unpruned_runs")
            if msg:
                ctx.violation("property_fails", msg, case, True)
            cases.append("(Build_beam_case " + " ".join([
                G.coq_gdesc(gd, graph), P.inv_mats_lit(graph), str(graph.batch_size), cbool(advanced), czl(start), f"{width}%nat", f"{steps}%N", f"{hist}%nat",
                cbool(return_path), copt(ball_depth, lambda v: f"{v}%N"), clist(sels, lambda s: f"({czl(s[0])}, {cnl(s[1])})"), lit]) + ")")
            metas.append(case)
    finally:
        bs.torch = real_torch
    # ---- a VERY deep ball (more than 255 layers): a marked bead on a necklace of 520 beads under both rotations; start just outside the ball ----
    from cayleypy import CayleyGraph, CayleyGraphDef
    nb_ = 520
    neck = CayleyGraphDef.create([[(i + 1) % nb_ for i in range(nb_)], [(i - 1) % nb_ for i in range(nb_)]], central_state=[1] + [0] * (nb_ - 1))
    gneck = CayleyGraph(neck, device="cpu")
    ball_ = gneck.bfs(max_diameter=257, return_all_hashes=True)
    for dist_ in (256, 257, 259):
        start_ = [0] * nb_
        start_[dist_] = 1                      # the mark sits dist_ rotations away from position 0
        r_ = gneck.beam_search(start_state=start_, beam_mode="simple", beam_width=8, max_steps=10, bfs_result_for_mitm=ball_, return_path=False)
        ctx.count("deep_ball_searches")
        if not r_.path_found or int(r_.path_length) != dist_:
            ctx.violation("property_fails", f"simple beam search with a ball of depth 257 on the 520-bead necklace reports found={r_.path_found}, length={r_.path_length} "
                          f"for a start state at distance {dist_}", {"graph": "necklace-520", "distance": dist_, "claim": "deep_ball"}, True)
    # ---- corpus: minimised failing cases (known findings) are replayed on every run ----
    import glob
    import json
    import os
    for fn in sorted(glob.glob(os.path.join(os.path.dirname(os.path.dirname(os.path.abspath(__file__))), "corpus", "C06", "*.json"))):
        c = json.load(open(fn))["case"]
        msg = replay({"kind": "property_fails", "case": c}, None) if False else replay(ctx, {"kind": "property_fails", "case": c})
        ctx.count("corpus_cases")
        if msg:
            ctx.violation("property_fails", msg, c, True)
    ctx.sample(metas[0]); ctx.sample(metas[-1])
    bad = ctx.coq_failing("Base GraphImpl Hash Beam AlgoRun BfsRun PathRun", "", "beam_case", cases, "check_beam_case", "beam", shard=ctx.budget(20, 40))
    ctx.cov["disagreements_checked"] = len(cases)
    for i in bad[:3]:
        ctx.violation("correspondence", "beam-search model (with the recorded selections) differs from the implementation", metas[i], False)


def replay(ctx, obj):
    from cayleypy import Predictor
    case = obj.get("case", {})
    if obj.get("kind") == "property_fails" and "width" in case:
        gd = case["graph"]
        graph = G.make_graph(gd, case["config"])
        ic = bool(graph.definition.generators_inverse_closed)
        sk = case.get("score")
        pred = None if sk is None else (Predictor(graph, "zero") if sk == "zero" else Predictor(graph, scorer(sk, gd, 1)))
        kw = dict(start_state=case["start"], beam_mode="advanced" if case["advanced"] else "simple", beam_width=case["width"], max_steps=case["steps"], predictor=pred)
        if case["advanced"]:
            kw["history_depth"] = case["history"]
            if case.get("destination") is not None:
                kw["destination_state"] = case["destination"]
        else:
            kw["return_path"] = case["return_path"]
            if case.get("ball_depth") is not None:
                kw["bfs_result_for_mitm"] = graph.bfs(max_diameter=case["ball_depth"], return_all_hashes=True)
                if case.get("foreign_ball_central") is not None:
                    kw["bfs_result_for_mitm"] = G.make_graph(dict(gd, central=case["foreign_ball_central"]), case["config"]).bfs(
                        max_diameter=case["ball_depth"], return_all_hashes=True)
        if case.get("warmup_start") is not None:
            try:
                graph.beam_search(**dict(kw, start_state=case["warmup_start"]))
            except Exception:  # pylint: disable=broad-except
                pass
        try:
            r = graph.beam_search(**kw)
            res = (bool(r.path_found), int(r.path_length), None if r.path is None else [int(i) for i in r.path])
        except Exception as ex:  # pylint: disable=broad-except
            res = ("err", type(ex).__name__, repr(ex)[:160])
        _, dfs = G.ref_bfs(gd, [case["start"]])
        unpruned = case["width"] > len(dfs) * G.n_gens(gd)
        gd_c = dict(gd, central=case["destination"]) if case.get("destination") is not None else gd
        msg, _ = check_beam(gd_c, case["start"], res, dfs, unpruned, case["steps"], ic, case.get("ball_depth") is not None, case["return_path"])
        return msg
    run(ctx)
    return "; ".join(v["what"] for v in ctx.violations[:3]) or None
