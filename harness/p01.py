"""C01 - BFS layers are exactly the distance classes of the Schreier graph."""
import graphs as G
import bfsrun
from common import TieBroken

TB = ["Coq 8.16.1 kernel (vm_compute; no native_compute)", "hand-written models Bfs.v/GraphImpl.v/Tensor.v/Hash.v/Codec.v validated by the correspondence",
      "translator T1 (harness/translators.py) for the hash constants", "PyTorch CPU semantics of sort/unique/searchsorted/tensor_split as modelled in Tensor.v",
      "harness generators, canonicalisation, naive Python BFS oracle (used only to find/replay failing inputs)"]


def gen_cases(ctx, n_graphs, cfgs_per_graph):
    rng = ctx.rng
    out = []
    for gi in range(n_graphs):
        # every 6th graph is directed with >= 36 thin layers (long runs of the "all seen layers" branch of the BFS)
        gd = (G.gen_deep_directed(rng, ctx.budget(1500, 3000), min_layers=36) if gi % 6 == 5 else
              G.gen_overflow_matrix_graph(rng, 400) if gi % 12 == 2 else G.gen_extreme_codes(rng, ctx.budget(400, 3000)) if gi % 12 == 8 else
              G.gen_graph(rng, cap=ctx.budget(400, 3000)))
        layers, dist = G.ref_bfs(gd, [gd["central"]])
        starts = G.gen_starts(rng, gd, dist)
        if gd["kind"] == "perm" and gi % 5 == 3 and len(set(gd["central"])) >= 2:
            # start states OUTSIDE the orbit of the central state (another multiset of the same colours): the search is about the start set, not the central state
            f_ = list(rng.choice(sorted(dist)))
            i_ = rng.randrange(len(f_))
            f_[i_] = rng.choice(sorted(set(gd["central"]) - {f_[i_]}))
            cand = rng.choice([[f_], [f_, list(gd["central"])], starts + [f_]])
            if tuple(f_) not in dist and G.ref_bfs(gd, cand, ctx.budget(500, 3000)) is not None:
                starts = cand
                ctx.count("start_sets_outside_the_central_orbit")
        for ci in range(cfgs_per_graph):
            cfgd = G.gen_config(rng, gd)
            if gi % 12 == 8 and ci == 0:
                cfgd["bit_encoding_width"] = "auto"      # one 64-bit word, identity hash
            kw = {}
            if rng.random() < 0.5:
                kw["return_all_hashes"] = True
            r = rng.random()
            if r < 0.25:
                kw["return_all_edges"] = True
            elif r < 0.45:
                kw["disable_batching"] = True
            kw["max_layer_size_to_store"] = rng.choice([None, 1, 3, 1000])
            out.append((gd, cfgd, starts, kw))
    return out


def run(ctx):
    import translators
    translators.gen_all(strict=True)
    ctx.cov["trusted_base"] = TB
    ctx.cov["rule"] = ("case = (graph definition, start set, object configuration, bfs options); non-trivial when the orbit has >= 4 vertices and >= 3 layers; "
                       "distinct by canonical JSON")
    ctx.assumptions += ["NoColl: the 64-bit hash is injective on the states a run touches (the exception the property grants); a mismatch is re-run under 3 other seeds before it counts",
                        "torch primitives behave as the list models in Tensor.v (validated on every run by this correspondence)"]
    ctx.prove(extra=["BfsRun"])
    cases = gen_cases(ctx, ctx.budget(70, 600), ctx.budget(3, 5))
    coq_cases, metas = [], []
    with bfsrun.Monitors() as mon:
        for gd, cfgd, starts, kw in cases:
            graph = G.make_graph(gd, cfgd)
            # start states are handed over as lists (mostly) or as NumPy arrays / tensors of any integer type that holds the symbols
            cont = G.pick_container(ctx.rng, [v for s_ in starts for v in s_], 0.7)
            ctx.count("starts_container_" + cont)
            obs, _ = bfsrun.observe(graph, starts, kw, None, cont)
            layers, dist = G.ref_bfs(gd, starts)
            nontrivial = len(dist) >= 4 and len(layers) >= 3
            case_json = {"graph": gd, "config": cfgd, "starts": starts, "bfs": kw, "container": cont}
            ctx.case_seen(case_json, nontrivial)
            ctx.count("kind_" + gd["kind"])
            if graph.encoded_state_size > 1 and graph.string_encoder is not None:
                ctx.count("multiword_encoded")
            if not graph.definition.generators_inverse_closed:
                ctx.count("directed")
            if not kw.get("return_all_edges") and not kw.get("disable_batching") and max(len(l) for l in layers) > graph.batch_size:
                ctx.count("batched_runs")
            ctx.count("orbit_states_total", len(dist))
            msg = bfsrun.oracle_full(gd, starts, obs)
            if msg and not known_input_defect(gd, cfgd, obs):
                # exclude a random hash collision: the property tolerates only seed-dependent ones
                persists = True
                for s in (11, 222, 3333):
                    c2 = dict(cfgd, random_seed=s)
                    o2, _ = bfsrun.observe(G.make_graph(gd, c2), starts, kw, None, cont)
                    if bfsrun.oracle_full(gd, starts, o2) is None:
                        persists = False
                        break
                if persists:
                    ctx.violation("property_fails", msg, case_json, True)
                else:
                    # the result is wrong under THIS seed only: not "a random collision" (probability about 10^-9 for orbits of this size) but a
                    # seed-dependent defect of the hashing (e.g. a seed that blanks a coordinate); reported with the seed as part of the replay
                    ctx.count("seed_specific_failures")
                    ctx.violation("property_fails", msg + f" [only under random_seed={cfgd.get('random_seed')}; three other seeds give the right answer]",
                                  dict(case_json, seed_specific=True), True)
            coq_cases.append(bfsrun.coq_case(gd, graph, starts, kw, None, obs))
            metas.append(case_json)
    ctx.sample(metas[0]); ctx.sample(metas[len(metas) // 2])
    ctx.cov["correspondence"]["isin_calls_monitored"] = mon.calls
    for site, ln in mon.unsorted[:3]:
        ctx.violation("monitor", f"isin_via_searchsorted called with an unsorted haystack at {site}", {"site": site, "len": ln}, False)
    bad = ctx.coq_failing("Base Bfs BfsRun GraphImpl Hash Tensor", "", "bfs_case", coq_cases, "check_case", "bfs", shard=ctx.budget(12, 25))
    ctx.cov["disagreements_checked"] = len(coq_cases)
    for i in bad[:3]:
        ctx.violation("correspondence", "BFS model and implementation differ (sizes/layers/hashes/edges/flag)", metas[i], False)
    # non-vacuity of the END-TO-END theorems (InstPerm.v / InstBfs.v) measured on this run's cases: how many permutation cases satisfy wf_perm_desc with
    # start sets inside Ustates (then C01_perm_completed_correct applies with NoColl only), and how many of those have a one-word identity-hash code
    # (then C01_perm_identity_hash_unconditional applies with no hash hypothesis at all)
    perm_idx = [i for i, m in enumerate(metas) if m["graph"]["kind"] == "perm"]
    perm_cases = [coq_cases[i] for i in perm_idx]
    not_wf = ctx.coq_failing("Base Bfs BfsRun GraphImpl Hash Tensor InstPerm", "", "bfs_case", perm_cases,
                             "fun c => wf_perm_descb (c_g c) && forallb (Ustatesb (c_g c)) (c_starts c)", "instwf", shard=200)
    not_unc = ctx.coq_failing("Base Bfs BfsRun GraphImpl Hash Tensor InstPerm", "", "bfs_case", perm_cases,
                              "fun c => wf_perm_descb (c_g c) && forallb (Ustatesb (c_g c)) (c_starts c) && "
                              "match g_hasher (c_g c) with HIdentity => single_wordb (c_g c) | _ => false end", "instunc", shard=200)
    ctx.cov["end_to_end_theorems_apply"] = {"permutation_cases": len(perm_cases), "hypotheses_of_C01_perm_completed_correct_hold": len(perm_cases) - len(not_wf),
                                            "unconditional_theorem_applies": len(perm_cases) - len(not_unc)}
    if perm_cases and len(not_wf) == len(perm_cases):
        ctx.violation("correspondence", "no permutation case of this run satisfies the hypotheses of the end-to-end theorems (wf_perm_desc): they would be vacuous for the harness's graphs",
                      metas[perm_idx[0]], False)


def known_input_defect(gd, cfgd, obs):
    return False


def replay_case(case):
    gd, cfgd, starts, kw = case["graph"], case["config"], case["starts"], case["bfs"]
    for s in ((cfgd.get("random_seed"),) if case.get("seed_specific") else (cfgd.get("random_seed"), 11, 222, 3333)):
        c2 = dict(cfgd, random_seed=s)
        obs, _ = bfsrun.observe(G.make_graph(gd, c2), starts, kw, None, case.get("container"))
        msg = bfsrun.oracle_full(gd, starts, obs)
        if msg is None:
            return None
    return msg


def replay(ctx, obj):
    if obj.get("kind") == "property_fails":
        return replay_case(obj["case"])
    run(ctx)
    return "; ".join(v["what"] for v in ctx.violations[:3]) or None
