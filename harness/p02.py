"""C02 - generator action and state codec match the mathematical definition."""
import builtins
import re

import graphs as G
from common import cz, czl, czll, cnl, clist, cbool, copt, TieBroken

M64 = 1 << 64
H63 = 1 << 63


def sgn(x):
    x &= M64 - 1
    return x - M64 if x >= H63 else x


LINE2D = re.compile(r" y\[:,(\d+)\] \|= \(x\[:,(\d+)\] & (-?\d+)\)(?:<<(\d+)|>>(\d+)(?:&(\d+))?)?")
TERM1D = re.compile(r"\(\(x&(-?\d+)\)(?:<<(\d+)|>>(\d+)(?:&(\d+))?)?\)")


def stmt_lit(d, s, mask, shl, sar, hz):
    if shl:
        sh = f"(Shl {shl})"
    elif sar:
        sh = f"(Sar {sar} {copt(hz)})"
    else:
        sh = "NoShift"
    return f"{{| dst:={d}%nat; src:={s}%nat; mask:={cz(int(mask))}; sh:={sh} |}}"


def parse2d(src):
    """Whitelist grammar of the generated 2-D routine -> Coq program literal (fail closed)."""
    lines = src.split("\n")
    if lines[0] != "def f_(x,y):":
        raise TieBroken("generated routine: unknown header " + lines[0][:60])
    out = []
    for line in lines[1:]:
        m = LINE2D.fullmatch(line)
        if not m:
            raise TieBroken("generated routine: statement outside the known grammar: " + line[:100])
        out.append(stmt_lit(*m.groups()))
    return "[" + "; ".join(out) + "]"


def parse1d(src):
    pre = "f_ = lambda x: "
    if not src.startswith(pre):
        raise TieBroken("generated 1-D routine: unknown header " + src[:60])
    out = []
    for term in src[len(pre):].split(" | "):
        m = TERM1D.fullmatch(term)
        if not m:
            raise TieBroken("generated 1-D routine: term outside the known grammar: " + term[:100])
        out.append(stmt_lit(0, 0, *m.groups()))
    return "[" + "; ".join(out) + "]"


def expected_words(p, w, n, L, xs):
    """Reference meaning of the routine on arbitrary words (pure Python big ints)."""
    big = 0
    for c, v in enumerate(xs):
        big |= (v & (M64 - 1)) << (64 * c)
    out = 0
    for e in range(n * w):
        sb = p[e // w] * w + e % w
        if (big >> sb) & 1:
            out |= 1 << e
    return [sgn(out >> (64 * c)) for c in range(L)]


def gen_pwn(ctx, count):
    rng = ctx.rng
    out = []
    widths = [1, 1, 2, 2, 3, 4, 5, 7, 8, 13, 16, 21, 31, 32, 33, 62, 63, 64]
    for _ in range(count):
        w = rng.choice(widths)
        r = rng.random()
        if r < 0.5:
            # n*w just below / at / above a multiple of 64
            mult = rng.choice([64, 128, 192])
            n = max(1, (mult + rng.choice([-2, -1, 0, 1, 2]) * w) // w)
            n = min(n, 200)
        else:
            n = rng.randint(1, max(1, min(24, 260 // w)))
        p = list(range(n))
        r = rng.random()
        if r < 0.7:
            rng.shuffle(p)
        elif r < 0.85:
            p = p[1:] + p[:1]
        elif r < 0.95 and n >= 2:
            p[0], p[-1] = p[-1], p[0]
        out.append((p, w, n))
    return out


def run(ctx):
    import numpy as np
    import torch
    import cayleypy.string_encoder as se
    import translators
    translators.gen_all(strict=True)
    rng = ctx.rng
    ctx.cov["trusted_base"] = ["Coq 8.16.1 kernel (vm_compute; no native_compute)", "hand-written model Codec.v/Matrix.v (validated here)",
                               "translator T1 (constants, _one_shifted, _mask_with_high_zeros, auto-width expression) and T3 (whitelist grammar of generated routines)",
                               "Python exec of the generated text means what the grammar says; torch/numpy int64 &,|,<<,>> as in W64.v",
                               "harness generators and comparison"]
    ctx.cov["rule"] = ("case = (permutation p, width w, length n) plus input words / states, or a matrix generator with states; non-trivial when p is not the identity "
                       "(matrices: not the identity matrix); distinct by (p,w,n) / canonical JSON")
    ctx.assumptions += ["each output bit of a generated routine is an OR of input bits, so one-hot, all-ones and random words exercise it; the universal claim is the theorem C02_emit_correct",
                        "float log2 in the automatic width is exact for central states below 2^52 (central-state entries are < n)"]
    ctx.prove(extra=["BfsRun", "CodecExtra"])

    captured = []

    def capture_exec(src, g=None, l=None):
        captured.append(src)
        return builtins.exec(src, g, l)  # pylint: disable=exec-used
    if not hasattr(se, "StringEncoder"):
        raise TieBroken("cayleypy.string_encoder.StringEncoder not found")
    se.exec = capture_exec
    try:
        pwns = gen_pwn(ctx, ctx.budget(260, 3000))
        if not ctx.quick():
            import itertools
            for n in range(1, 6):
                for p in itertools.permutations(range(n)):
                    for w in (1, 2, 3, 5, 13, 16):
                        pwns.append((list(p), w, n))
        cases = []
        metas = []
        for p, w, n in pwns:
            enc = se.StringEncoder(code_width=w, n=n)
            L = enc.encoded_length
            captured.clear()
            f = enc.implement_permutation(p)
            if len(captured) != 1:
                raise TieBroken("implement_permutation did not pass its routine through exec (cannot observe the generated text)")
            prog = parse2d(captured[0])
            # inputs: one-hot words (sampled), all ones, random
            xs = []
            hot = [(c, b) for c in range(L) for b in range(64)]
            for c, b in rng.sample(hot, min(len(hot), 6)) + [(L - 1, 63), (0, 0)]:
                v = [0] * L
                v[c] = sgn(1 << b)
                xs.append(v)
            xs.append([-1] * L)
            xs.append([rng.randrange(-H63, H63) for _ in range(L)])
            xt = torch.tensor(xs, dtype=torch.int64)
            yt = torch.zeros_like(xt)
            f(xt, yt)
            ys = yt.tolist()
            # the property itself, against the pure-Python meaning
            for xrow, yrow in zip(xs, ys):
                exp = expected_words(p, w, n, L, xrow)
                if exp != yrow:
                    ctx.violation("property_fails", "a generated routine does not implement its permutation on some input words",
                                  {"oracle": "routine", "p": p, "w": w, "n": n, "x": xrow, "got": yrow, "expected": exp}, True)
            # encode / decode / action on valid states
            hi = min(2 ** w, 2 ** 63)
            sts = [[rng.choice([0, hi - 1, rng.randrange(hi)]) for _ in range(n)] for _ in range(3)]
            st = torch.tensor(sts, dtype=torch.int64)
            e = enc.encode(st)
            d = enc.decode(e)
            if d.tolist() != sts:
                ctx.violation("property_fails", "decode(encode(s)) != s", {"oracle": "roundtrip", "w": w, "n": n, "s": sts}, True)
            y2 = torch.zeros_like(e)
            f(e, y2)
            acted = enc.decode(y2).tolist()
            want = [[s[p[j]] for j in range(n)] for s in sts]
            if acted != want:
                ctx.violation("property_fails", "decode(routine(encode(s))) is not new[j]=old[p[j]]",
                              {"oracle": "action", "p": p, "w": w, "n": n, "s": sts}, True)
            one_d = "None"
            if L == 1:
                captured.clear()
                f1 = enc.implement_permutation_1d(p)
                if len(captured) != 1:
                    raise TieBroken("implement_permutation_1d did not pass its routine through exec")
                prog1 = parse1d(captured[0])
                x1 = np.array([r[0] for r in xs], dtype=np.int64)
                y1 = [int(v) for v in f1(x1)]
                one_d = f"(Some ({prog1}, {czl([int(v) for v in x1])}, {czl(y1)}))"
                for xv, yv in zip(x1.tolist(), y1):
                    if expected_words(p, w, n, 1, [xv]) != [yv]:
                        ctx.violation("property_fails", "a generated 1-D routine does not implement its permutation",
                                      {"oracle": "routine1d", "p": p, "w": w, "n": n, "x": xv, "got": yv}, True)
                ctx.count("one_d_variants")
            cases.append(f"({w}%nat, {n}%nat, {cnl(p)}, {prog}, {czll(xs)}, {czll(ys)}, {czll(sts)}, {czll(e.tolist())}, {czll(d.tolist())}, {czll(acted)}, {one_d})")
            metas.append({"p": p, "w": w, "n": n})
            ctx.case_seen(["pwn", p, w, n], p != sorted(p))
            if L >= 2:
                ctx.count("multi_word")
            if (n * w) % 64 == 0:
                ctx.count("nw_multiple_of_64")
            if "&-" in captured[0] or any("-" in ln.split("&")[1][:3] for ln in captured[0].split("\n")[1:] if "&" in ln):
                ctx.count("routines_with_negative_mask")
            if w >= 63:
                ctx.count("width_63_64")
    finally:
        if "exec" in se.__dict__:
            del se.__dict__["exec"]
    ctx.sample(metas[0]); ctx.sample(metas[-1])
    chk = ("fun c => match c with (w, n, p, prog, xs, ys, sts, es, ds, acted, oned) => "
           "prog_eqb (emit w n p) prog "
           "&& z_list2_eqb (map (eval_prog (encoded_length w n) prog) xs) ys "
           "&& z_list2_eqb (map (encode w n) sts) es && z_list2_eqb (map (decode w n) es) ds "
           "&& z_list2_eqb (map (apply_perm 0 p) sts) acted "
           "&& match oned with None => true | Some (prog1, x1, y1) => prog_eqb (emit w n p) prog1 && z_list_eqb (map (eval_prog1d prog1) x1) y1 end end")
    ty = ("nat * nat * list nat * list stmt * list (list Z) * list (list Z) * list (list Z) * list (list Z) * list (list Z) * list (list Z) "
          "* option (list stmt * list Z * list Z)")
    bad = ctx.coq_failing("Base W64 Codec Perm", "", ty, cases, chk, "codec", shard=ctx.budget(40, 120))
    ctx.cov["disagreements_checked"] += len(cases)
    ctx.cov["correspondence"]["routines_translation_validated"] = len(cases)
    for i in bad[:3]:
        ctx.violation("correspondence", "codec model differs from the implementation (generated program text, its evaluation, encode/decode or action)", metas[i], False)

    # ---- graph-level action: get_neighbors_decoded / apply_path, encoded and un-encoded, permutation and matrix ----
    gcases, gmetas = [], []
    ecases, emetas = [], []
    for gi_ in range(ctx.budget(60, 500)):
        gd = G.gen_overflow_matrix_graph(rng, 300) if gi_ % 6 == 5 else G.gen_matrix_graph(rng, 300) if gi_ % 3 == 2 else G.gen_graph(rng, cap=300)
        layers, dist = G.ref_bfs(gd, [gd["central"]])
        cfgd = G.gen_config(rng, gd)
        graph = G.make_graph(gd, cfgd)
        if gd["kind"] == "perm" and rng.random() < 0.35 and len(gd["central"]) <= 127:
            # the same definition with its generators handed over as a LIST OF ROWS of a narrow integer type (NumPy rows, NumPy scalars or tensor rows): the
            # generated bit routines compute p[i]*w + j, which must not happen in 8-bit arithmetic
            import numpy as np
            from cayleypy import CayleyGraph, CayleyGraphDef
            form = rng.choice(["np.int8 rows", "np.uint8 rows", "np.int8 scalars", "torch.uint8 rows", "torch.int16 rows"])
            if form.startswith("np") and form.endswith("rows"):
                rows_ = [np.array(g_, dtype=np.int8 if "int8" in form and "uint8" not in form else np.uint8) for g_ in gd["gens"]]
            elif form.endswith("scalars"):
                rows_ = [[np.int8(v) for v in g_] for g_ in gd["gens"]]
            else:
                rows_ = [torch.tensor(g_, dtype=torch.uint8 if "uint8" in form else torch.int16) for g_ in gd["gens"]]
            graph = CayleyGraph(CayleyGraphDef.create(rows_, central_state=list(gd["central"])), device="cpu", **cfgd)
            ctx.count("generators_as_narrow_rows")
        verts = sorted(dist)
        sts = [list(rng.choice(verts)) for _ in range(rng.randint(1, 4))]
        if rng.random() < 0.4:
            # more states in one call than the graph's batch size, and not a multiple of it
            sts = [list(rng.choice(verts)) for _ in range(cfgd["batch_size"] * rng.randint(1, 3) + rng.randint(1, 2) if cfgd["batch_size"] <= 7 else rng.randint(5, 11))]
        cont_ = G.pick_container(rng, [v for s_ in sts for v in s_], 0.0)          # a NumPy array or tensor of any integer type that holds the values
        ctx.count("states_container_" + cont_)
        nb = G.flat_states(graph.get_neighbors_decoded(G.in_container(cont_, sts) if cont_.startswith("torch") else torch.tensor(sts, dtype=torch.int64)))
        k = G.n_gens(gd)
        want = [list(G.act(gd, i, tuple(s))) for i in range(k) for s in sts]
        if nb != want:
            ctx.violation("property_fails", "get_neighbors_decoded differs from the defined action",
                          {"oracle": "neighbors", "graph": gd, "config": cfgd, "states": sts}, True)
        # the inverted copy derived from this object (it shares the encoder): generator i of the copy is the inverse action of generator i
        if gd["kind"] == "perm":
            gi_ = graph.with_inverted_generators
            nbi = G.flat_states(gi_.get_neighbors_decoded(torch.tensor(sts, dtype=torch.int64)))
            invg = dict(gd, gens=[G.inverse_perm(p_) for p_ in gd["gens"]])
            want_i = [list(G.act(invg, i, tuple(s))) for i in range(k) for s in sts]
            ctx.count("inverted_copy_action_checked")
            if nbi != want_i:
                ctx.violation("property_fails", "get_neighbors_decoded of the derived inverted copy differs from the inverse action",
                              {"oracle": "neighbors_inverted_copy", "graph": gd, "config": cfgd, "states": sts}, True)
        path = [rng.randrange(k) for _ in range(rng.randint(0, 6))]
        obj_ = G.in_container(cont_ if rng.random() < 0.5 else rng.choice(["torch.int64", "np.int64"]), sts)
        ap = G.flat_states(graph.apply_path(obj_, path))
        want_p = [list(G.run_path(gd, s, path)) for s in sts]
        # the states handed over belong to the caller: applying a path must not write into them (un-encoded graphs work on a view of the caller's memory),
        # nor into the graph's own central state when that is what gets replayed
        if G.flat_states(torch.as_tensor(obj_).reshape(len(sts), -1)) != sts:
            ctx.violation("property_fails", "apply_path overwrote the states it was given", {"oracle": "path_input_clobbered", "graph": gd, "config": cfgd, "states": sts, "path": path}, True)
        path2 = [rng.randrange(k) for _ in range(rng.randint(2, 5))]
        ap_c = G.flat_states(graph.apply_path(graph.central_state, path2))
        if ap_c != [list(G.run_path(gd, gd["central"], path2))] or G.flat_states(graph.central_state.reshape(1, -1)) != [list(gd["central"])]:
            ctx.violation("property_fails", "apply_path from the graph's own central state gives a wrong state or rewrites the central state",
                          {"oracle": "path_from_central", "graph": gd, "config": cfgd, "path": path2}, True)
        if ap != want_p:
            ctx.violation("property_fails", "apply_path is not the composition of the single actions",
                          {"oracle": "path", "graph": gd, "config": cfgd, "states": sts, "path": path}, True)
        auto = "None"
        if gd["kind"] == "perm" and cfgd["bit_encoding_width"] == "auto":
            auto = f"(Some ({max(gd['central'])}, {graph.string_encoder.w}%nat))"
            ctx.count("auto_width_checked")
        gcases.append(f"({G.coq_gdesc(gd, graph)}, {czll(sts)}, {czll(nb)}, {cnl(path)}, {czll(ap)}, {auto})")
        # the ENCODED level (InstCodec.v): the internal rows the library computes - encode_states, then get_neighbors on them - against the model's
        # get_neighbors_encoded on encoded_row (what C02_encoded_neighbors / C01_bfs_lib_is_model are about)
        if gd["kind"] == "perm":
            enc_ = graph.encode_states(torch.tensor(sts, dtype=torch.int64))
            ecases.append(f"({G.coq_gdesc(gd, graph)}, {czll(sts)}, {czll(enc_.reshape(len(sts), -1).tolist())}, {czll(graph.get_neighbors(enc_).reshape(len(sts) * k, -1).tolist())})")
            emetas.append({"graph": gd, "config": cfgd, "states": sts})
        gmetas.append({"graph": gd, "config": cfgd, "states": sts, "path": path})
        ctx.case_seen(["graph", gd, cfgd, sts, path], True)
        ctx.count("graph_" + gd["kind"])
    # the whole range of moduli with entries near the modulus: the int64 overflow corner (m near 2^31) and every threshold at which a
    # floating-point or narrower-integer shortcut would stop being exact (2^8, 2^16, sqrt(2^24), 2^24, sqrt(2^53/n), 2^26, sqrt(2^63/n), 2^31)
    import math as _m
    mods = [2 ** 31 - 1, 2 ** 31, 2 ** 8 - 1, 2 ** 16 + 1, 4099, 2 ** 24 - 3, 2 ** 24 + 1, 2 ** 26 - 5, 2 ** 26, 2 ** 26 + 1, 6 * 10 ** 7, 10 ** 8 + 7,
            int(_m.isqrt(2 ** 53 // 3)) + 2, int(_m.isqrt(2 ** 53 // 8)) + 2, int(_m.isqrt(2 ** 63 // 3)) - 1, 2 ** 30 + 3]
    for mi, mod in enumerate(mods):
        for rep in range(ctx.budget(6 if mi < 2 else 2, 40 if mi < 2 else 10)):
            n = 3 if mi < 2 or rep % 2 == 0 else rng.choice([4, 6, 8])
            M = [[rng.choice([mod - 1, mod - 2, rng.randrange(mod)]) for _ in range(n)] for _ in range(n)]
            gd = {"kind": "matrix", "mats": [M], "modulo": mod, "n": n, "m": 1, "central": [mod - 1] * n}
            graph = G.make_graph(gd, {"bit_encoding_width": None})
            sts = [[rng.choice([mod - 1, rng.randrange(mod)]) for _ in range(n)] for _ in range(2)]
            nb = G.flat_states(graph.get_neighbors_decoded(torch.tensor(sts, dtype=torch.int64)))
            want = [[sum(M[r][j] * s[j] for j in range(n)) % mod for r in range(n)] for s in sts]
            if nb != want:
                ctx.violation("property_fails", "matrix action is not M*S mod m (overflow before reduction?)",
                              {"oracle": "matrix_big", "M": M, "modulo": mod, "states": sts, "got": nb, "expected": want}, True)
            import numpy as np
            ap_np = [graph.definition.generators_matrices[0].apply(np.array(s, dtype=np.int64).reshape(n, 1)).reshape(-1).tolist() for s in sts]
            if ap_np != want:
                ctx.violation("property_fails", "MatrixGenerator.apply is not M*S mod m",
                              {"oracle": "matrix_big_np", "M": M, "modulo": mod, "states": sts, "got": ap_np, "expected": want}, True)
            gcases.append(f"({G.coq_gdesc(gd, graph)}, {czll(sts)}, {czll(nb)}, []%nat, {czll(sts)}, None)")
            gmetas.append({"graph": gd, "states": sts})
            ctx.case_seen(["bigmod", M, mod, sts], True)
            ctx.count("big_modulus_cases")
    # saturated products: every entry of a generator row and of the state column is m - 1, for moduli within +-2 of the places where n*(m-1)^2 crosses
    # 2^53, 2^63 and 2^64 (an "exact while it fits" shortcut is off by one exactly there); n up to 128
    import numpy as np
    for n in (2, 3, 4, 5, 8, 16, 32, 64, 128):
        for base in (_m.isqrt(2 ** 53 // n), _m.isqrt(2 ** 63 // n), _m.isqrt(2 ** 64 // n)):
            for delta in (-1, 0, 1, 2):
                mod = int(base) + delta
                if not 2 <= mod <= 2 ** 31:
                    continue
                M = [[mod - 1] * n for _ in range(n)]
                if n <= 8:
                    M[rng.randrange(n)][rng.randrange(n)] = rng.randrange(mod)
                sts = [[mod - 1] * n, [rng.choice([mod - 1, mod - 2, rng.randrange(mod)]) for _ in range(n)]]
                want = [[sum(M[r][j] * s_[j] for j in range(n)) % mod for r in range(n)] for s_ in sts]
                from cayleypy.cayley_graph_def import MatrixGenerator
                gen = MatrixGenerator.create(np.array(M, dtype=np.int64), modulo=mod)
                got_np = [gen.apply(np.array(s_, dtype=np.int64).reshape(n, 1)).reshape(-1).tolist() for s_ in sts]
                got_t = gen.apply_batch_torch(torch.tensor(sts, dtype=torch.int64).reshape(len(sts), n, 1)).reshape(len(sts), n).tolist()
                ctx.count("saturated_product_cases")
                ctx.case_seen(["saturated", n, mod], True)
                for nm, got in (("MatrixGenerator.apply", got_np), ("MatrixGenerator.apply_batch_torch", got_t)):
                    if got != want:
                        ctx.violation("property_fails", f"{nm} is not M*S mod m for n={n}, m={mod} with saturated rows (n*(m-1)^2 = {n * (mod - 1) ** 2})",
                                      {"oracle": "matrix_saturated", "n": n, "modulo": mod, "M": M if n <= 8 else "all m-1", "states": sts if n <= 8 else "all m-1 / mixed"}, True)
    # sparse generators: the identity plus a few off-diagonal entries, CHAINED (an entry (i, j) whose source row j is itself modified), any modulus: a
    # row-operation shortcut must read the ORIGINAL rows; and the array a generator is created from belongs to the caller (one array, several moduli)
    for _ in range(ctx.budget(60, 600)):
        n = rng.randint(2, 5)
        mod = rng.choice([0, 0, 2, 3, 5, 7, 10, 2 ** 31 - 1])
        M = [[1 if i == j else 0 for j in range(n)] for i in range(n)]
        for _e in range(rng.randint(1, n)):
            i, j = rng.sample(range(n), 2)
            M[i][j] = rng.choice([1, -1, 2, -2, 3])
        if rng.random() < 0.5:
            # a chain below the diagonal: (i, j) with j < i and row j modified too
            for i in range(1, n):
                M[i][i - 1] = rng.choice([1, -1, 2])
        arr = np.array(M, dtype=np.int64)
        from cayleypy.cayley_graph_def import MatrixGenerator
        gen = MatrixGenerator.create(arr, modulo=mod)
        sts = [[rng.randint(-4, 9) if mod == 0 else rng.randrange(mod) for _ in range(n)] for _ in range(3)]
        red = (lambda v: v % mod) if mod else G.wrap
        want = [[red(sum(M[r][j] * s_[j] for j in range(n))) for r in range(n)] for s_ in sts]
        got_np = [gen.apply(np.array(s_, dtype=np.int64).reshape(n, 1)).reshape(-1).tolist() for s_ in sts]
        got_t = gen.apply_batch_torch(torch.tensor(sts, dtype=torch.int64).reshape(len(sts), n, 1)).reshape(len(sts), n).tolist()
        ctx.count("sparse_unit_diagonal_cases")
        ctx.case_seen(["sparse", M, mod], True)
        for nm, got in (("MatrixGenerator.apply", got_np), ("MatrixGenerator.apply_batch_torch", got_t)):
            if got != want:
                ctx.violation("property_fails", f"{nm} is not M*S (mod {mod}) for a sparse unit-diagonal generator: {got} instead of {want}",
                              {"oracle": "matrix_sparse", "M": M, "modulo": mod, "states": sts}, True)
        if arr.tolist() != M:
            ctx.violation("property_fails", "MatrixGenerator.create rewrote the array it was given", {"oracle": "matrix_create_alias", "M": M, "modulo": mod}, True)
        mod2 = rng.choice([3, 5, 7, 11])
        gen2 = MatrixGenerator.create(arr, modulo=mod2)
        want2 = [[sum(M[r][j] * s_[j] for j in range(n)) % mod2 for r in range(n)] for s_ in sts]
        got2 = [gen2.apply(np.array([v % mod2 for v in s_], dtype=np.int64).reshape(n, 1)).reshape(-1).tolist() for s_ in sts]
        want2 = [[sum(M[r][j] * (s_[j] % mod2) for j in range(n)) % mod2 for r in range(n)] for s_ in sts]
        if got2 != want2:
            ctx.violation("property_fails", f"a second generator created from the SAME array with modulus {mod2} acts as {got2} instead of {want2}",
                          {"oracle": "matrix_create_alias", "M": M, "modulo": mod, "modulo2": mod2, "states": sts}, True)
    chk = ("fun c => match c with (d, sts, nb, path, ap, auto) => let G := impl_of d in "
           "z_list2_eqb (get_neighbors G sts) nb "
           "&& list_eqb (result_eqb z_list_eqb) (map (fun s => apply_path (acts G) s path) sts) (map (fun s => Ok s) ap) "
           "&& match auto with None => true | Some (mx, w) => (auto_width_fixed mx =? w)%nat end end")
    ty = "gdesc * list (list Z) * list (list Z) * list nat * list (list Z) * option (Z * nat)"
    bad = ctx.coq_failing("Base W64 Codec CodecExtra Perm Hash GraphImpl BfsRun", "", ty, gcases, chk, "graphact", shard=60)
    ctx.cov["disagreements_checked"] += len(gcases)
    for i in bad[:3]:
        ctx.violation("correspondence", "graph-level action model (neighbours / path / auto width) differs from the implementation", gmetas[i], False)
    ctx.sample(gmetas[0])
    bad = ctx.coq_failing("Base W64 Codec Perm Hash GraphImpl BfsRun InstPerm InstCodec", "", "gdesc * list (list Z) * list (list Z) * list (list Z)", ecases,
                          "fun c => match c with (d, sts, enc, nbe) => z_list2_eqb (map (encoded_row d) sts) enc && z_list2_eqb (get_neighbors_encoded d enc) nbe end",
                          "encoded", shard=80)
    ctx.cov["disagreements_checked"] += len(ecases)
    ctx.count("encoded_level_cases", len(ecases))
    for i in bad[:3]:
        ctx.violation("correspondence", "encoded-level model (encoded_row, get_neighbors_encoded of InstCodec.v) differs from encode_states / get_neighbors", emetas[i], False)


def replay(ctx, obj):
    import torch
    import cayleypy.string_encoder as se
    case = obj.get("case", {})
    o = case.get("oracle")
    if obj.get("kind") == "property_fails" and o in ("routine", "action", "roundtrip"):
        w, n = case["w"], case["n"]
        enc = se.StringEncoder(code_width=w, n=n)
        if o == "roundtrip":
            st = torch.tensor(case["s"], dtype=torch.int64)
            return None if enc.decode(enc.encode(st)).tolist() == case["s"] else "decode(encode(s)) != s"
        p = case["p"]
        f = enc.implement_permutation(p)
        if o == "routine":
            x = torch.tensor([case["x"]], dtype=torch.int64)
            y = torch.zeros_like(x)
            f(x, y)
            exp = expected_words(p, w, n, enc.encoded_length, case["x"])
            return None if y[0].tolist() == exp else f"routine gives {y[0].tolist()}, permutation means {exp}"
        st = torch.tensor(case["s"], dtype=torch.int64)
        e = enc.encode(st)
        y = torch.zeros_like(e)
        f(e, y)
        want = [[s[p[j]] for j in range(n)] for s in case["s"]]
        return None if enc.decode(y).tolist() == want else "action differs"
    run(ctx)
    return "; ".join(v["what"] for v in ctx.violations[:3]) or None
