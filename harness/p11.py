"""C11 - all BFS engines compute the same growth function."""
import itertools

import graphs as G
from common import cz, czl, czll, cnl, cnll, clist, TieBroken


def numpy_domain_graph(rng, cap):
    """Permutation graph with DISTINCT inverse-closed generators whose encoding fits one word; any central state."""
    for _ in range(300):
        n = rng.randint(2, 8)
        k = rng.randint(1, 3)
        gens = []
        for _ in range(k):
            r = rng.random()
            if r < 0.3 and n >= 2:
                p = list(range(n)); a, b = rng.sample(range(n), 2); p[a], p[b] = p[b], p[a]
            else:
                p = G.rand_perm(rng, n)
            gens.append(p)
        have = []
        for g in gens:
            for q in (g, G.inverse_perm(g)):
                if q not in have:
                    have.append(q)
        r = rng.random()
        if r < 0.4:
            central = list(range(n))
        elif r < 0.8:
            colours = rng.randint(1, min(3, n))
            central = [rng.randrange(colours) for _ in range(n)]
        else:
            central = [rng.randrange(n) for _ in range(n)]
        gd = {"kind": "perm", "gens": have, "central": central}
        if G.ref_bfs(gd, [central], cap) is not None:
            return gd
    raise RuntimeError("no graph")


def run(ctx):
    import numpy as np
    import torch
    import translators
    import cayleypy
    from cayleypy import CayleyGraph, CayleyGraphDef, PermutationGroups
    from cayleypy.algo import InteractiveBfs, bfs_numpy, bfs_bitmask
    import importlib
    bm = importlib.import_module("cayleypy.algo.bfs_bitmask")
    if not hasattr(bm, "VertexChunk"):
        raise TieBroken("cayleypy.algo.bfs_bitmask module not reachable")
    translators.gen_all(strict=True)
    rng = ctx.rng
    ctx.cov["trusted_base"] = ["Coq 8.16.1 kernel (vm_compute)", "models NumpyBfs.v, Bitmask.v (rank/unrank at the list level), Interactive.v, Walks.v validated here",
                               "numpy setdiff1d(assume_unique)/unique/sort and numba-compiled helpers as modelled", "translator T1", "naive Python BFS oracle"]
    ctx.cov["rule"] = ("case = (engine, graph definition [, start set]); non-trivial when the growth function has >= 3 layers; distinct by canonical JSON")
    ctx.assumptions += ["bit-mask engine: documented domain = Cayley graphs of permutations, 8 < n <= 12, default encoding, generators moving the trailing positions "
                        "(a paint_gray call whose neighbours all fall into ONE chunk raises IndexError: outside the domain)"]
    ctx.prove(extra=["AlgoRun", "NumpyBfs", "Bitmask", "BitmaskEngine", "PathRun"])

    # ---------------- NumPy engine vs model, main BFS and oracle ----------------
    cases, metas = [], []
    for _ in range(ctx.budget(90, 800)):
        gd = numpy_domain_graph(rng, ctx.budget(300, 3000))
        layers, dist = G.ref_bfs(gd, [gd["central"]])
        want = [len(l) for l in layers]
        width = rng.choice(["auto", max(1, max(gd["central"]).bit_length()), max(1, max(gd["central"]).bit_length()) + 1])
        n = len(gd["central"])
        if isinstance(width, int) and width * n > 64:
            width = "auto"
        graph = G.make_graph(gd, {"bit_encoding_width": width})
        case = {"engine": "numpy", "graph": gd, "width": width}
        ctx.case_seen(case, len(want) >= 3)
        maxd = rng.choice([10**6, 10**6, 1, 2, len(want) - 1, len(want)])
        try:
            got = [int(v) for v in bfs_numpy(graph, max_diameter=maxd)]
        except Exception as ex:  # pylint: disable=broad-except
            ctx.violation("property_fails", f"bfs_numpy raised {type(ex).__name__}: {str(ex)[:100]} inside its documented domain", case, True)
            continue
        main = graph.bfs(max_diameter=maxd).layer_sizes if maxd >= 1 else None
        exp = want[: maxd + 1] if maxd >= 1 else want[:2]
        if got != exp:
            ctx.violation("property_fails", f"bfs_numpy gives {got}, the true growth function (depth limit {maxd}) is {exp}", dict(case, max_diameter=maxd), True)
        if main is not None and main != exp:
            ctx.violation("property_fails", f"main BFS gives {main}, the true growth function is {exp}", dict(case, max_diameter=maxd), True)
        ctx.count("numpy_cases")
        w = int(graph.string_encoder.w)
        start = int(graph.encode_states(graph.central_state).reshape(-1)[0])
        cases.append(f"({w}%nat, {n}%nat, {cnll(gd['gens'])}, {cz(start)}, {maxd}%N, {cnl(got)})")
        metas.append(case)
    chk = ("fun c => match c with (w, n, perms, start, maxd, got) => "
           "match np_inverse_index perms with Err _ => false | Ok idx => "
           "nat_list_eqb (bfs_numpy (map (fun p => eval_prog1d (emit w n p)) perms) idx start maxd) got end end")
    bad = ctx.coq_failing("Base W64 Codec Perm NumpyBfs", "", "nat * nat * list (list nat) * Z * N * list nat", cases, chk, "numpy", shard=ctx.budget(15, 30))
    ctx.cov["disagreements_checked"] += len(cases)
    for i in bad[:3]:
        ctx.violation("correspondence", "NumPy-engine model differs from the implementation", metas[i], False)
    ctx.sample(metas[0])

    # ---------------- interactive engine (any graph, any start set) and unthinned BFS-mode walk ----------------
    for _ in range(ctx.budget(60, 500)):
        gd = G.gen_graph(rng, cap=ctx.budget(300, 2500))
        layers0, dist0 = G.ref_bfs(gd, [gd["central"]])
        starts = G.gen_starts(rng, gd, dist0)
        if rng.random() < 0.5:
            rng.shuffle(starts)
        layers, dist = G.ref_bfs(gd, starts)
        want = [len(l) for l in layers]
        cfgd = G.gen_config(rng, gd)
        graph = G.make_graph(gd, cfgd)
        case = {"engine": "interactive", "graph": gd, "config": cfgd, "starts": starts}
        ctx.case_seen(case, len(want) >= 3)
        ib = InteractiveBfs(graph, [list(s) for s in starts])
        got = [len(ib.hashes[0])]
        for _ in range(len(want) + 1):
            ib.step()
            got.append(len(ib.hashes[-1]))
        if got != want + [0, 0]:
            ctx.violation("property_fails", f"InteractiveBfs gives {got}, the true growth function is {want} followed by empty layers", case, True)
        main = graph.bfs(start_states=[list(s) for s in starts]).layer_sizes
        if main != want:
            ctx.violation("property_fails", f"main BFS gives {main}, the true growth function is {want}", case, True)
        ctx.count("interactive_cases")
        # unthinned BFS-mode random walk from the central state
        wide = max(len(l) for l in layers0) + 1
        x, y = graph.random_walks(width=wide, length=len(layers0) + 1, mode="bfs")
        gw = [int(v) for v in torch.bincount(y.to(torch.int64)).tolist()]
        if gw != [len(l) for l in layers0]:
            ctx.violation("property_fails", f"unthinned BFS-mode walk gives layer sizes {gw}, the true growth function is {[len(l) for l in layers0]}",
                          {"engine": "walk_bfs", "graph": gd, "config": cfgd}, True)
        ctx.count("walk_bfs_cases")
        # ... and from an explicitly given start state that is not the central one (growth function seen from that state)
        vs = sorted(dist0)
        s0 = list(rng.choice(vs))
        lay_s, _ = G.ref_bfs(gd, [s0])
        x, y = graph.random_walks(width=max(len(l) for l in lay_s) + 1, length=len(lay_s) + 1, mode="bfs", start_state=s0)
        gw = [int(v) for v in torch.bincount(y.to(torch.int64)).tolist()]
        if gw != [len(l) for l in lay_s]:
            ctx.violation("property_fails", f"unthinned BFS-mode walk from the start state {s0} gives layer sizes {gw}, the true growth function from there is {[len(l) for l in lay_s]}",
                          {"engine": "walk_bfs", "graph": gd, "config": cfgd, "start": s0}, True)
        ctx.count("walk_bfs_explicit_start_cases")
    ctx.sample(case)

    # ---------------- bit-mask engine: rank/unrank components vs model, whole engine vs main BFS and closed-form growth ----------------
    rcases = []
    for _ in range(ctx.budget(300, 3000)):
        n = rng.randint(9, 12)
        perm = G.rand_perm(rng, n)
        suffix = perm[bm.R:]
        ch = bm.VertexChunk(n, tuple(suffix))
        p_enc = bm._encode_perm(perm)
        rank = int(bm.permutation_to_rank(p_enc, ch.map2))
        back = int(bm.rank_to_permutation(rank, ch.map1))
        if (back | ch.encoded_suffix) != p_enc:
            ctx.violation("property_fails", "rank_to_permutation(permutation_to_rank(p)) != p inside a chunk", {"engine": "bitmask_rank", "perm": perm}, True)
        rcases.append(f"({n}%nat, {cnl(perm)}, {cnl([int(v) for v in ch.map1])}, {cnl([int(v) for v in ch.map2])}, {rank}%nat)")
        ctx.case_seen({"engine": "bitmask_rank", "perm": perm}, True)
    words = [rng.randrange(0, 2**64) for _ in range(64)] + [0, 2**64 - 1, 2**63]
    pc = [int(bm._bit_count(np.array([w], dtype=np.uint64))) for w in words]
    chk = ("fun c => match c with (n, perm, map1, map2, rank) => let sfx := skipn RR perm in "
           "nat_list_eqb (chunk_map1 n sfx) map1 && nat_list_eqb (chunk_map2 n map1) map2 && (prefix_to_rank perm map2 =? rank)%nat "
           "&& nat_list_eqb (rank_to_prefix rank map1) (firstn RR perm) end")
    bad = ctx.coq_failing("Base Perm Bitmask", "", "nat * list nat * list nat * list nat * nat", rcases, chk, "rank", shard=ctx.budget(150, 400), timeout=1500)
    for i in bad[:3]:
        ctx.violation("correspondence", "rank/unrank model differs from the numba implementation", {"coq_case": rcases[i]}, False)
    bad = ctx.coq_failing("Base Bitmask", "", "Z * nat", [f"({w}, {c}%nat)" for w, c in zip(words, pc)], "fun c => (popcount64 (fst c) =? snd c)%nat", "popcount")
    for i in bad[:3]:
        ctx.violation("correspondence", "_bit_count differs from the population count", {"word": words[i]}, False)
    ctx.cov["disagreements_checked"] += len(rcases) + len(words)
    # whole engine, n = 9 (362880 states): families whose generators move the trailing positions
    fams = [("lrx", PermutationGroups.lrx(9)), ("top_spin", PermutationGroups.top_spin(9)), ("pancake", PermutationGroups.pancake(9))]
    if not ctx.quick():
        fams += [("lx", PermutationGroups.lx(9)), ("cyclic_coxeter", PermutationGroups.cyclic_coxeter(9)), ("lrx10", PermutationGroups.lrx(10))]
    # a Cayley graph of a random non-identity central permutation and a random (not inverse-closed) generator pair
    rp = G.rand_perm(rng, 9)
    g1, g2 = G.rand_perm(rng, 9), G.rand_perm(rng, 9)
    fams.insert(1, ("random_pair_random_start", CayleyGraphDef.create([g1, g2], central_state=rp)))
    # generator sets that all treat the trailing position alike: every painted batch lies in ONE chunk (F26: IndexError before fix 40d8e7d);
    # (a) both take the trailing symbol from the same place, (b) all fix it (the orbit stays inside one 8!-chunk), (c) a repeated generator
    h1 = G.rand_perm(rng, 9)
    h2 = list(h1)
    i, j = rng.sample(range(8), 2)
    h2[i], h2[j] = h2[j], h2[i]
    fams.insert(2, ("agree_on_trailing", CayleyGraphDef.create([h1, h2], central_state=G.rand_perm(rng, 9))))
    fams.insert(3, ("trailing_fixed", CayleyGraphDef.create([[1, 2, 3, 4, 5, 6, 7, 0, 8], [1, 0, 2, 3, 4, 5, 6, 7, 8]])))
    fams.insert(4, ("repeated_generator", CayleyGraphDef.create([[1, 2, 3, 4, 5, 6, 7, 8, 0], [1, 2, 3, 4, 5, 6, 7, 8, 0]])))
    bm_cases, bm_metas = [], []
    # n = 10 (two trailing positions): adjacent transpositions incl. (8 9), and L, R with a swap of the trailing pair - depth-limited
    ten = [("coxeter10_depth4", PermutationGroups.coxeter(10), (4,)),
           ("lr_swap89_depth5", CayleyGraphDef.create([[1, 2, 3, 4, 5, 6, 7, 8, 9, 0], [9, 0, 1, 2, 3, 4, 5, 6, 7, 8], [0, 1, 2, 3, 4, 5, 6, 7, 9, 8]]), (5,))]
    runs = [(name, d, (10**6, 5, 0, 1)) for name, d in fams[: ctx.budget(6, 10)]] + ten        # depth limits 0 and 1 are limits like any other
    for name, d, depths in runs:
        graph = CayleyGraph(d, device="cpu")
        for maxd in depths:
            case = {"engine": "bitmask", "family": name, "max_diameter": maxd, "generators": [list(map(int, p)) for p in d.generators_permutations],
                    "central": [int(v) for v in d.central_state]}
            try:
                got = [int(v) for v in bfs_bitmask(graph, max_diameter=maxd)]
            except Exception as ex:  # pylint: disable=broad-except
                ctx.violation("property_fails", f"bfs_bitmask raised {type(ex).__name__} on {name}", case, True)
                continue
            bm_cases.append(f"({d.state_size}%nat, {cnll(case['generators'])}, {cnl(case['central'])}, {maxd}%N, {czl(got)})")
            bm_metas.append(case)
            main = graph.bfs(max_diameter=maxd).layer_sizes
            ctx.case_seen(case, True)
            ctx.count("bitmask_engine_runs")
            if got != main:
                ctx.violation("property_fails", f"bfs_bitmask gives {got[:8]}..., the main BFS gives {main[:8]}... on {name}", case, True)
            if maxd == 10**6 and sum(got) != len(set(itertools.islice(itertools.permutations(range(1)), 1))) * 0 + sum(main):
                ctx.violation("property_fails", "vertex counts differ", case, True)
    # the whole-engine model (BitmaskEngine.v, proved to compute the true growth function) on the same runs: exact equality
    bad = ctx.coq_failing("Base Perm BitmaskEngine", "", "nat * list (list nat) * list nat * N * list Z", bm_cases,
                          "fun c => match c with (n, gens, start, maxd, got) => bitmask_growth_check_from n gens start maxd got end", "bmengine", shard=1, timeout=2400)
    for i in bad[:3]:
        ctx.violation("correspondence", "bit-mask engine model differs from the implementation", bm_metas[i], False)
    ctx.cov["disagreements_checked"] += len(bm_cases)
    ctx.count("bitmask_engine_model_runs", len(bm_cases))
    # outside the documented domain the engine fails the way the model says: n = 8 (assertion)
    ecases, emetas = [], []
    for nm, gens, n in (("n=8", [[1, 2, 3, 4, 5, 6, 7, 0], [1, 0, 2, 3, 4, 5, 6, 7]], 8),):
        try:
            bfs_bitmask(CayleyGraph(CayleyGraphDef.create(gens), device="cpu"), max_diameter=3)
            ctx.count("bitmask_outside_domain_no_error")
            continue
        except Exception as ex:  # pylint: disable=broad-except
            en = {"AssertionError": "AssertionErr", "IndexError": "IndexErr", "KeyError": "KeyErr", "ValueError": "ValueErr"}.get(type(ex).__name__, "RuntimeErr")
        ecases.append(f"({n}%nat, {cnll(gens)}, 3%N, {en})")
        emetas.append({"engine": "bitmask", "outside_domain": nm, "error": en})
    bad = ctx.coq_failing("Base Perm BitmaskEngine", "", "nat * list (list nat) * N * err", ecases,
                          "fun c => match c with (n, gens, maxd, e) => bitmask_err_check n gens maxd e end", "bmerr", shard=1)
    for i in bad[:2]:
        ctx.violation("correspondence", "bit-mask engine model and implementation fail differently outside the documented domain", emetas[i], False)
    ctx.sample({"engine": "bitmask", "families": [f for f, _ in fams]})


def replay(ctx, obj):
    from cayleypy.algo import bfs_numpy
    case = obj.get("case", {})
    if obj.get("kind") == "property_fails" and case.get("engine") == "numpy":
        gd = case["graph"]
        graph = G.make_graph(gd, {"bit_encoding_width": case["width"]})
        layers, _ = G.ref_bfs(gd, [gd["central"]])
        want = [len(l) for l in layers]
        maxd = case.get("max_diameter", 10**6)
        try:
            got = [int(v) for v in bfs_numpy(graph, max_diameter=maxd)]
        except Exception as ex:  # pylint: disable=broad-except
            return f"bfs_numpy raised {type(ex).__name__}"
        exp = want[: maxd + 1] if maxd >= 1 else want[:2]
        return None if got == exp else f"bfs_numpy gives {got}, truth {exp}"
    run(ctx)
    return "; ".join(v["what"] for v in ctx.violations[:3]) or None
