"""C19 - the Hamming predictor counts mismatches and scoring is batch-independent."""
import graphs as G
from common import cz, czl, czll, cnl, clist, TieBroken


def run(ctx):
    import torch
    from cayleypy import CayleyGraph, Predictor
    rng = ctx.rng
    ctx.cov["trusted_base"] = ["Coq 8.16.1 kernel (vm_compute)", "model Predictor.v validated here", "torch !=, sum(dim=1), tensor_split, hstack as modelled in Tensor.v", "harness generators"]
    ctx.cov["rule"] = ("case = (graph definition, batch of states, batch size); non-trivial when >= 2 batches are formed and some score is non-zero; distinct by canonical JSON")
    ctx.prove(extra=["AlgoRun"])
    cases, metas = [], []
    total = ctx.budget(120, 1200)
    for it in range(total):
        if it % 6 == 5:
            # int64 extremes: matrix states with huge entries that differ from the central state by tiny amounts (the count is exact integer
            # comparison, not a float computation), with and without a modulus
            n, m = rng.choice([(1, 1), (2, 1), (2, 2), (3, 1), (3, 3)])
            mod = rng.choice([0, 0, 2**31, 2**31 - 1])
            big = (lambda: rng.choice([2**24 + 1, 2**30 + rng.randrange(9), 2**31 - 1 - rng.randrange(3), 2**40 + 3, 2**53 + 1, 2**62 + rng.randrange(5), -2**62 - 1, 2**63 - 1,
                                       -2**63, rng.randrange(10)])) if mod == 0 else (lambda: rng.choice([mod - 1 - rng.randrange(4), 2**24 + rng.randrange(4), rng.randrange(5)]))
            central = [big() for _ in range(n * m)]
            gd = {"kind": "matrix", "mats": [[[1 if i == j else 0 for j in range(n)] for i in range(n)]], "modulo": mod, "n": n, "m": m, "central": central}
            verts = []
            for _ in range(6):
                v = list(central)
                for pos in rng.sample(range(n * m), rng.randint(0, n * m)):
                    d = rng.choice([1, -1, 2, -3, 64, -128])
                    lo, hi = (-2**63, 2**63 - 1) if mod == 0 else (0, mod - 1)
                    v[pos] = min(hi, max(lo, v[pos] + d))
                verts.append(tuple(v))
            ctx.count("int64_extreme_cases")
        elif it % 6 == 4:
            # long states: 255..520 positions, states differing from the central one in (almost) every position (a count kept in 8 bits wraps)
            n = rng.choice([255, 256, 257, 300, 520])
            central = list(range(n)) if rng.random() < 0.5 else [rng.randrange(3) for _ in range(n)]
            gd = {"kind": "perm", "gens": [[(i + 1) % n for i in range(n)]], "central": central}
            verts = [tuple(central[k_:] + central[:k_]) for k_ in (1, 2, n // 2)] + [tuple(reversed(central)), tuple(central)]
            if central == list(range(n)):
                verts.append(tuple((v + 1) % n for v in central))        # differs in every position
            ctx.count("long_state_cases")
        else:
            gd = G.gen_graph(rng, cap=300)
            layers, dist = G.ref_bfs(gd, [gd["central"]])
            verts = sorted(dist)
        bs = rng.choice([1, 2, 3, 5, 7, 2**20])
        cfgd = G.gen_config(rng, gd)
        if len(gd["central"]) > 200:
            cfgd["bit_encoding_width"] = rng.choice(["auto", None])
        cfgd["batch_size"] = bs
        graph = G.make_graph(gd, cfgd)
        k = rng.randint(1, 12)
        flat = [list(rng.choice(verts)) for _ in range(k)]
        if rng.random() < 0.5:
            flat[rng.randrange(k)] = list(gd["central"])
        if rng.random() < 0.3 and max(abs(v) for v in gd["central"]) < 2**62:
            # an all-different state (values shifted), still of the right shape
            flat[rng.randrange(k)] = [v + 1 for v in gd["central"]]
        st = torch.tensor(flat, dtype=torch.int64)
        if gd["kind"] == "matrix":
            st = st.reshape((-1, gd["n"], gd["m"]))          # matrix-shaped states, as decode_states returns them
        case = {"graph": gd, "batch_size": bs, "states": flat}
        try:
            ham = [int(v) for v in Predictor(graph, "hamming")(st).tolist()]
            zero = [int(v) for v in Predictor(graph, "zero")(st).tolist()]
        except Exception as ex:  # pylint: disable=broad-except
            ctx.violation("property_fails", f"predictor raised {type(ex).__name__}: {str(ex)[:120]}", case, True)
            continue
        want = [sum(1 for a, b in zip(gd["central"], s) if a != b) for s in flat]
        nb = -(-k // bs)
        ctx.case_seen(case, nb >= 2 and any(want))
        ctx.count("kind_" + gd["kind"]); ctx.count("batches_%s" % ("1" if nb == 1 else "2+"))
        if ham != want:
            ctx.violation("property_fails", f"Hamming predictor returned {ham}, mismatches are {want}", case, True)
        if zero != [0] * k:
            ctx.violation("property_fails", "zero predictor returned non-zero values", case, True)
        # batch independence against one big batch, and a callable predictor (order must be kept)
        g2 = G.make_graph(gd, dict(cfgd, batch_size=2**20))
        if [int(v) for v in Predictor(g2, "hamming")(st).tolist()] != ham:
            ctx.violation("property_fails", "scores depend on the batch size", case, True)
        marker = Predictor(graph, lambda x: x.reshape((x.shape[0], -1))[:, 0] * 7 + 1)(st)
        if [int(v) for v in marker.tolist()] != [G.wrap(s[0] * 7 + 1) for s in flat]:        # int64 arithmetic wraps
            ctx.violation("property_fails", "a callable predictor's values come back in a different order or value when batched", case, True)
        # a predictor may return a VIEW of the states it is given (a column): batching must not hand it a buffer that is overwritten by later batches
        colv = [int(v) for v in Predictor(graph, lambda x: x.reshape((x.shape[0], -1))[:, 0])(st).tolist()]
        if colv != [s_[0] for s_ in flat]:
            ctx.violation("property_fails", f"a predictor returning the first entry of each state (a view of its input) gives {colv[:8]}, the entries are {[s_[0] for s_ in flat][:8]}",
                          dict(case, claim="view_predictor"), True)
        # matrix-shaped states that are not contiguous in memory (a transposed view holding the same logical states)
        if gd["kind"] == "matrix" and gd["n"] * gd["m"] > 1:
            tdata = torch.tensor([[s_[i * gd["m"] + j] for j in range(gd["m"]) for i in range(gd["n"])] for s_ in flat], dtype=torch.int64)
            st_nc = tdata.reshape((-1, gd["m"], gd["n"])).transpose(1, 2)
            try:
                h_nc = [int(v) for v in Predictor(graph, "hamming")(st_nc).tolist()]
            except Exception as ex:  # pylint: disable=broad-except
                h_nc = f"{type(ex).__name__}: {str(ex)[:60]}"
            ctx.count("non_contiguous_matrix_batches")
            if h_nc != want:
                ctx.violation("property_fails", f"Hamming predictor on the same states held as a transposed (non-contiguous) view gives {str(h_nc)[:80]}, mismatches are {want}",
                              dict(case, claim="non_contiguous"), True)
        # a result belongs to the caller: scoring another set with the SAME predictor object must not change scores handed out earlier
        pr_ = Predictor(graph, "hamming")
        first = pr_(st)
        keep = [int(v) for v in first.tolist()]
        perm_ = list(range(k)); rng.shuffle(perm_)
        second = [int(v) for v in pr_(st[perm_[: max(1, k - rng.randint(0, 1))]]).tolist()]
        if [int(v) for v in first.tolist()] != keep or second != [want[i] for i in perm_[: len(second)]]:
            ctx.violation("property_fails", "scores returned by an earlier call changed after the same Predictor scored another set (or the second set is scored wrongly)",
                          dict(case, claim="result_aliasing", order=perm_), True)
        # a torch module as predictor: dropout / batch normalisation must be switched to inference, else scores depend on how the work is split
        if len(metas) % 4 == 0:
            width_ = len(flat[0])
            torch.manual_seed(5)
            net = torch.nn.Sequential(torch.nn.Flatten(), torch.nn.Linear(width_, 4), torch.nn.BatchNorm1d(4), torch.nn.Dropout(0.5), torch.nn.Linear(4, 1), torch.nn.Flatten(0))
            net.train()

            class Net(torch.nn.Module):
                def __init__(self):
                    super().__init__()
                    self.net = net

                def forward(self, x):
                    return self.net(x.to(torch.float32) % 7)
            try:
                m1 = [float(v) for v in Predictor(graph, Net())(st).tolist()]
                m2 = [float(v) for v in Predictor(g2, Net())(st).tolist()]
                m3 = [float(v) for v in Predictor(g2, Net())(st).tolist()]
                ctx.count("module_predictor_cases")
                # float32 arithmetic of a matrix product may differ in the last bits between batch shapes: compare with a tolerance far below the
                # effect of dropout / batch statistics (which is of the order of the scores themselves)
                tol_ = 1e-3 * (1.0 + max(abs(v) for v in m2))
                close_ = lambda a_, b_: len(a_) == len(b_) and all(abs(x_ - y_) <= tol_ for x_, y_ in zip(a_, b_))   # noqa: E731
                if not close_(m1, m2) or not close_(m2, m3):
                    ctx.violation("property_fails", "a torch module used as predictor gives scores that depend on the batch size or on the call (left in training mode?)",
                                  dict(case, claim="module_predictor"), True)
            except Exception as ex:  # pylint: disable=broad-except
                ctx.violation("property_fails", f"a torch module used as predictor raised {type(ex).__name__}: {str(ex)[:100]}", dict(case, claim="module_predictor"), True)
        # fractional and negative scores (a trained model returns floats): value and order must not depend on the batch size either
        frac = lambda x: (x.reshape((x.shape[0], -1))[:, 0] % 8).to(torch.float64) * 0.125 - 0.5       # exact in binary floating point
        f1 = [float(v) for v in Predictor(graph, frac)(st).tolist()]
        f2 = [float(v) for v in Predictor(g2, frac)(st).tolist()]
        want_f = [(s[0] % 8) * 0.125 - 0.5 for s in flat]
        if f1 != want_f or f2 != want_f:
            ctx.violation("property_fails", f"a callable predictor with fractional scores returns {f1[:6]} (batched) / {f2[:6]} (one batch), the scores are {want_f[:6]}",
                          dict(case, claim="fractional_scores"), True)
        cases.append(f"(Build_pred_case {czl(gd['central'])} {czll(flat)} {bs} {czl(ham)} {czl(zero)})")
        metas.append(case)
    # the predictor a search builds BY DEFAULT scores against the central state of the graph it runs on: a sequence of searches, in one
    # process, on graphs that share a name and a size but not the central state (a library graph and its cosets); the best score reported
    # for the first scored layer is compared with the least number of mismatches over the exact frontier
    for _ in range(ctx.budget(25, 200)):
        n = rng.randint(5, 8)
        gens = [[(i + 1) % n for i in range(n)], [(i - 1) % n for i in range(n)], [1, 0] + list(range(2, n))]
        for central in (list(range(n)), sorted(rng.randrange(2) for _ in range(n)), [rng.randrange(3) for _ in range(n)]):
            gd = {"kind": "perm", "gens": gens, "central": central}
            _, dist = G.ref_bfs(gd, [central])
            start = list(rng.choice(sorted(dist)))
            # also code widths so wide that every symbol fills a word of its own (encoded size = state size, yet the words are codes, not symbols)
            graph = G.make_graph(gd, {"bit_encoding_width": rng.choice(["auto", None, 63, 62, 60, 33])})
            for mode in ("simple",):                 # the scoring rule of the simple mode (score a layer once it has beam_width states) is the one modelled in Beam.v
                width = rng.choice([1, 2, 3])
                r = graph.beam_search(start_state=start, beam_mode=mode, beam_width=width, max_steps=3)
                layer = {tuple(start)}
                seen_ = {tuple(start)}
                for step in range(1, 4):
                    layer = {G.act(gd, gi_, s_) for s_ in layer for gi_ in range(3)}
                    if mode == "advanced":
                        layer -= seen_                     # the advanced mode bans states it has already visited
                        seen_ |= layer
                    if tuple(central) in layer or tuple(start) == tuple(central) or not layer:
                        break
                    if len(layer) >= width:
                        want_best = min(sum(1 for a_, b_ in zip(central, s_) if a_ != b_) for s_ in layer)
                        key = step - 1 if mode == "simple" else step
                        got_best = r.debug_scores.get(key)
                        ctx.count("default_predictor_in_search_checked")
                        if got_best is not None and int(got_best) != want_best:
                            ctx.violation("property_fails", f"the default predictor of a {mode} beam search reports best score {got_best} at its first scored step; the least number of "
                                          f"mismatches with the central state {central} over the frontier is {want_best}",
                                          {"graph": gd, "start": start, "mode": mode, "width": width, "claim": "default_predictor_in_search"}, True)
                        break
    ctx.sample(metas[0]); ctx.sample(metas[-1])
    bad = ctx.coq_failing("Base Predictor AlgoRun", "", "pred_case", cases, "check_pred_case", "pred", shard=300)
    ctx.cov["disagreements_checked"] = len(cases)
    for i in bad[:3]:
        ctx.violation("correspondence", "predictor model differs from the implementation", metas[i], False)


def replay(ctx, obj):
    import torch
    from cayleypy import Predictor
    case = obj.get("case", {})
    if obj.get("kind") == "property_fails" and "states" in case:
        gd = case["graph"]
        graph = G.make_graph(gd, {"batch_size": case["batch_size"]})
        st = torch.tensor(case["states"], dtype=torch.int64)
        if gd["kind"] == "matrix":
            st = st.reshape((-1, gd["n"], gd["m"]))
        try:
            ham = [int(v) for v in Predictor(graph, "hamming")(st).tolist()]
        except Exception as ex:  # pylint: disable=broad-except
            return f"predictor raised {type(ex).__name__}"
        want = [sum(1 for a, b in zip(gd["central"], s) if a != b) for s in case["states"]]
        return None if ham == want else f"Hamming predictor returned {ham}, mismatches are {want}"
    run(ctx)
    return "; ".join(v["what"] for v in ctx.violations[:3]) or None
