"""C19 - the Hamming predictor counts mismatches and scoring is batch-independent."""
import graphs as G
from common import cz, czl, czll, cnl, clist, TieBroken


def run(ctx):
    import torch
    from cayleypy import CayleyGraph, Predictor
    rng = ctx.rng
    ctx.cov["trusted_base"] = ["Coq 8.16.1 kernel (vm_compute)", "model Predictor.v validated here", "torch !=, sum(dim=1), tensor_split, hstack as modelled in Tensor.v", "harness generators"]
    ctx.cov["rule"] = ("case = (graph definition, batch of states, batch size); non-trivial when >= 2 batches are formed and some score is non-zero; distinct by canonical JSON")
    ctx.prove(extra=["AlgoRun"])
    cases, metas = [], []
    for _ in range(ctx.budget(120, 1200)):
        gd = G.gen_graph(rng, cap=300)
        layers, dist = G.ref_bfs(gd, [gd["central"]])
        verts = sorted(dist)
        bs = rng.choice([1, 2, 3, 5, 7, 2**20])
        cfgd = G.gen_config(rng, gd)
        cfgd["batch_size"] = bs
        graph = G.make_graph(gd, cfgd)
        k = rng.randint(1, 12)
        flat = [list(rng.choice(verts)) for _ in range(k)]
        if rng.random() < 0.5:
            flat[rng.randrange(k)] = list(gd["central"])
        if rng.random() < 0.3:
            # an all-different state (values shifted), still of the right shape
            flat[rng.randrange(k)] = [v + 1 for v in gd["central"]]
        st = torch.tensor(flat, dtype=torch.int64)
        if gd["kind"] == "matrix":
            st = st.reshape((-1, gd["n"], gd["m"]))          # matrix-shaped states, as decode_states returns them
        case = {"graph": gd, "batch_size": bs, "states": flat}
        try:
            ham = [int(v) for v in Predictor(graph, "hamming")(st).tolist()]
            zero = [int(v) for v in Predictor(graph, "zero")(st).tolist()]
        except Exception as ex:  # pylint: disable=broad-except
            ctx.violation("property_fails", f"predictor raised {type(ex).__name__}: {str(ex)[:120]}", case, True)
            continue
        want = [sum(1 for a, b in zip(gd["central"], s) if a != b) for s in flat]
        nb = -(-k // bs)
        ctx.case_seen(case, nb >= 2 and any(want))
        ctx.count("kind_" + gd["kind"]); ctx.count("batches_%s" % ("1" if nb == 1 else "2+"))
        if ham != want:
            ctx.violation("property_fails", f"Hamming predictor returned {ham}, mismatches are {want}", case, True)
        if zero != [0] * k:
            ctx.violation("property_fails", "zero predictor returned non-zero values", case, True)
        # batch independence against one big batch, and a callable predictor (order must be kept)
        g2 = G.make_graph(gd, dict(cfgd, batch_size=2**20))
        if [int(v) for v in Predictor(g2, "hamming")(st).tolist()] != ham:
            ctx.violation("property_fails", "scores depend on the batch size", case, True)
        marker = Predictor(graph, lambda x: x.reshape((x.shape[0], -1))[:, 0] * 7 + 1)(st)
        if [int(v) for v in marker.tolist()] != [s[0] * 7 + 1 for s in flat]:
            ctx.violation("property_fails", "a callable predictor's values come back in a different order or value when batched", case, True)
        cases.append(f"(Build_pred_case {czl(gd['central'])} {czll(flat)} {bs} {czl(ham)} {czl(zero)})")
        metas.append(case)
    ctx.sample(metas[0]); ctx.sample(metas[-1])
    bad = ctx.coq_failing("Base Predictor AlgoRun", "", "pred_case", cases, "check_pred_case", "pred", shard=300)
    ctx.cov["disagreements_checked"] = len(cases)
    for i in bad[:3]:
        ctx.violation("correspondence", "predictor model differs from the implementation", metas[i], False)


def replay(ctx, obj):
    import torch
    from cayleypy import Predictor
    case = obj.get("case", {})
    if obj.get("kind") == "property_fails" and "states" in case:
        gd = case["graph"]
        graph = G.make_graph(gd, {"batch_size": case["batch_size"]})
        st = torch.tensor(case["states"], dtype=torch.int64)
        if gd["kind"] == "matrix":
            st = st.reshape((-1, gd["n"], gd["m"]))
        try:
            ham = [int(v) for v in Predictor(graph, "hamming")(st).tolist()]
        except Exception as ex:  # pylint: disable=broad-except
            return f"predictor raised {type(ex).__name__}"
        want = [sum(1 for a, b in zip(gd["central"], s) if a != b) for s in case["states"]]
        return None if ham == want else f"Hamming predictor returned {ham}, mismatches are {want}"
    run(ctx)
    return "; ".join(v["what"] for v in ctx.violations[:3]) or None
