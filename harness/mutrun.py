"""Runs registered checks against a seeded change WITHOUT touching /repo or /verif:
   scratch worktree of /repo with the patch applied + a copy of /verif (with its built .vo files), VERIF_REPO pointing at the worktree.
   usage: mutrun.py NAME PATCHDIR PROP [PROP...]   (PATCHDIR holds patch.diff and demo.py)
   Writes /tmp/mut/results/NAME.json; removes the scratch worktree and copy afterwards."""
import json, os, shutil, subprocess, sys, time

def sh(cmd, cwd=None, env=None, timeout=7200):
    p = subprocess.run(cmd, shell=True, cwd=cwd, env=env, capture_output=True, text=True, timeout=timeout)
    return p.returncode, (p.stdout + p.stderr)

def main():
    name, pdir, props = sys.argv[1], os.path.abspath(sys.argv[2]), sys.argv[3:]
    tier = os.environ.get("MUT_TIER", "quick")
    skip_tests = os.environ.get("MUT_SKIP_TESTS") == "1"
    W = f"/tmp/mut/{name}"
    os.makedirs("/tmp/mut/results", exist_ok=True)
    sh(f"git -C /repo worktree remove --force {W}/repo"); shutil.rmtree(W, ignore_errors=True); os.makedirs(W)
    res = {"name": name, "patch": pdir, "props": {}, "tier": tier}
    try:
        rc, out = sh(f"git -C /repo worktree add --detach {W}/repo HEAD")
        assert rc == 0, out
        env = dict(os.environ, PYTHONPATH=f"{W}/repo", PYTHONHASHSEED="0", OMP_NUM_THREADS="2", MKL_NUM_THREADS="2", CUDA_VISIBLE_DEVICES="")
        demo = os.path.join(pdir, "demo.py")
        if os.path.exists(demo) and not skip_tests:
            rc, out = sh(f"/venv/bin/python {demo}", cwd=W, env=env, timeout=900)
            res["demo_unchanged"] = {"rc": rc, "tail": out[-300:]}
        rc, out = sh(f"git -C {W}/repo apply {pdir}/patch.diff")
        assert rc == 0, "patch does not apply: " + out
        if os.path.exists(demo) and not skip_tests:
            rc, out = sh(f"/venv/bin/python {demo}", cwd=W, env=env, timeout=900)
            res["demo_changed"] = {"rc": rc, "tail": out[-500:]}
        if not skip_tests:
            rc, out = sh("/venv/bin/python -m pytest -q -p no:cacheprovider --timeout=900 --continue-on-collection-errors 2>&1 | tail -8", cwd=f"{W}/repo", env=env, timeout=3600)
            res["tests"] = out[-700:]
        sh(f"rsync -a --exclude .git --exclude .work --exclude replays --exclude seeded /verif/ {W}/verif/")
        os.makedirs(f"{W}/verif/.work", exist_ok=True)
        for p in props:
            t = time.time()
            env2 = dict(os.environ, VERIF_REPO=f"{W}/repo", VERIF_TIER=tier)
            rc, out = sh(f"./check {p} --tier {tier}", cwd=f"{W}/verif", env=env2, timeout=4 * 3600)
            vio = [l for l in out.splitlines() if l.startswith("VIOLATION") or l.startswith("KNOWN-FINDING")]
            detail = []
            for l in vio:
                if "replay=" in l:
                    rp = l.split("replay=")[1].split()[0]
                    try:
                        o = json.load(open(f"{W}/verif/{rp}"))
                        detail.append({"kind": o.get("kind"), "what": str(o.get("what"))[:400], "found_input": o.get("found_input")})
                    except Exception as ex:  # pylint: disable=broad-except
                        detail.append({"error": repr(ex)})
            res["props"][p] = {"rc": rc, "lines": vio, "detail": detail, "wall_s": round(time.time() - t, 1), "tail": out[-600:] if rc not in (0, 1) or not vio and rc else ""}
    except Exception as ex:  # pylint: disable=broad-except
        res["error"] = repr(ex)
    finally:
        sh(f"git -C /repo worktree remove --force {W}/repo"); shutil.rmtree(W, ignore_errors=True); sh("git -C /repo worktree prune")
    json.dump(res, open(f"/tmp/mut/results/{name}.json", "w"), indent=1)
    caught = {p: r["rc"] for p, r in res["props"].items()}
    print(name, "demo", res.get("demo_unchanged", {}).get("rc"), res.get("demo_changed", {}).get("rc"), "checks", caught, res.get("error", ""))

if __name__ == "__main__":
    main()
