"""T4: fail-closed translator of the name dispatch of cayleypy.graphs_lib.prepare_graph.

Reads the if/elif chain of `prepare_graph(name, n=0, **kwargs)` with Python's `ast` and returns, in
source order, one entry per branch:

    {"kind": "eq" | "prefix", "literal": str, "cls": "PermutationGroups" | "Puzzles" | ...,
     "ctor": str, "args_src": [source text of every positional argument], "args": [parsed argument],
     "pre": [(variable, function name, [argument names])]}          # helper assignments before the return

A parsed argument is one of
    ("n",)                      the parameter n
    ("const", value)            an int / str literal
    ("int_suffix", k)           int(name[k:])
    ("int_kwarg", key)          int(kwargs[key])
    ("kwarg", key)              kwargs[key]
    ("star", variable)          *variable, where variable was bound by a helper assignment

The accepted shapes are exactly: tests `name == "lit"` and `name.startswith("lit")`; bodies made of zero or
more assignments `v = f(n)` followed by `return Cls.ctor(args...)`; a final `else: raise ValueError(...)`.
Anything else raises TieBroken (the tie to the source is broken, never a silent default)."""
import ast
import os

from common import REPO, TieBroken


def _src(node):
    return ast.unparse(node)


def _parse_arg(a, literal, kind, bound):
    if isinstance(a, ast.Name) and a.id == "n":
        return ("n",)
    if isinstance(a, ast.Constant) and isinstance(a.value, (int, str)) and not isinstance(a.value, bool):
        return ("const", a.value)
    if isinstance(a, ast.Starred) and isinstance(a.value, ast.Name) and a.value.id in bound:
        return ("star", a.value.id)
    # kwargs["k"]
    if isinstance(a, ast.Subscript) and isinstance(a.value, ast.Name) and a.value.id == "kwargs" \
            and isinstance(a.slice, ast.Constant) and isinstance(a.slice.value, str):
        return ("kwarg", a.slice.value)
    if isinstance(a, ast.Call) and isinstance(a.func, ast.Name) and a.func.id == "int" and len(a.args) == 1 and not a.keywords:
        inner = a.args[0]
        # int(kwargs["k"])
        if isinstance(inner, ast.Subscript) and isinstance(inner.value, ast.Name) and inner.value.id == "kwargs" \
                and isinstance(inner.slice, ast.Constant) and isinstance(inner.slice.value, str):
            return ("int_kwarg", inner.slice.value)
        # int(name[k:])
        if isinstance(inner, ast.Subscript) and isinstance(inner.value, ast.Name) and inner.value.id == "name" \
                and isinstance(inner.slice, ast.Slice) and inner.slice.upper is None and inner.slice.step is None \
                and isinstance(inner.slice.lower, ast.Constant) and isinstance(inner.slice.lower.value, int):
            if kind != "prefix":
                raise TieBroken(f"prepare_graph: int(name[k:]) used under a non-prefix test for {literal!r}")
            return ("int_suffix", inner.slice.lower.value)
    raise TieBroken(f"prepare_graph: unsupported argument shape for {literal!r}: {_src(a)}")


def _parse_test(test):
    # name == "lit"
    if isinstance(test, ast.Compare) and isinstance(test.left, ast.Name) and test.left.id == "name" \
            and len(test.ops) == 1 and isinstance(test.ops[0], ast.Eq) and len(test.comparators) == 1 \
            and isinstance(test.comparators[0], ast.Constant) and isinstance(test.comparators[0].value, str):
        return "eq", test.comparators[0].value
    # name.startswith("lit")
    if isinstance(test, ast.Call) and isinstance(test.func, ast.Attribute) and test.func.attr == "startswith" \
            and isinstance(test.func.value, ast.Name) and test.func.value.id == "name" and len(test.args) == 1 \
            and not test.keywords and isinstance(test.args[0], ast.Constant) and isinstance(test.args[0].value, str):
        return "prefix", test.args[0].value
    raise TieBroken("prepare_graph: unsupported test shape: " + _src(test))


def _parse_body(body, kind, literal):
    pre, bound = [], set()
    for st in body[:-1]:
        ok = (isinstance(st, ast.Assign) and len(st.targets) == 1 and isinstance(st.targets[0], ast.Name)
              and isinstance(st.value, ast.Call) and isinstance(st.value.func, ast.Name) and not st.value.keywords
              and all(isinstance(x, ast.Name) and x.id == "n" for x in st.value.args))
        if not ok:
            raise TieBroken(f"prepare_graph: unsupported statement in the branch for {literal!r}: {_src(st)}")
        pre.append((st.targets[0].id, st.value.func.id, [x.id for x in st.value.args]))
        bound.add(st.targets[0].id)
    ret = body[-1] if body else None
    if not (isinstance(ret, ast.Return) and isinstance(ret.value, ast.Call) and isinstance(ret.value.func, ast.Attribute)
            and isinstance(ret.value.func.value, ast.Name) and not ret.value.keywords):
        raise TieBroken(f"prepare_graph: the branch for {literal!r} does not end in 'return Cls.ctor(...)'")
    call = ret.value
    args = [_parse_arg(a, literal, kind, bound) for a in call.args]
    for a in args:
        if a[0] == "int_suffix" and a[1] != len(literal):
            raise TieBroken(f"prepare_graph: int(name[{a[1]}:]) does not skip exactly the prefix {literal!r}")
    return {"kind": kind, "literal": literal, "cls": call.func.value.id, "ctor": call.func.attr,
            "args_src": [_src(a) for a in call.args], "args": args, "pre": pre}


def t4_dispatch(path=None):
    path = path or os.path.join(REPO, "cayleypy", "graphs_lib.py")
    try:
        tree = ast.parse(open(path).read(), path)
    except (OSError, SyntaxError) as ex:
        raise TieBroken(f"cannot parse graphs_lib.py: {ex}") from ex
    fn = None
    for node in tree.body:
        if isinstance(node, ast.FunctionDef) and node.name == "prepare_graph":
            fn = node
    if fn is None:
        raise TieBroken("prepare_graph not found in graphs_lib.py")
    a = fn.args
    if [x.arg for x in a.args] != ["name", "n"] or a.vararg is not None or a.kwarg is None or a.kwarg.arg != "kwargs" \
            or a.kwonlyargs or len(a.defaults) != 1 or not (isinstance(a.defaults[0], ast.Constant) and a.defaults[0].value == 0):
        raise TieBroken("prepare_graph: signature is not (name, n=0, **kwargs)")
    stmts = fn.body
    if stmts and isinstance(stmts[0], ast.Expr) and isinstance(stmts[0].value, ast.Constant) and isinstance(stmts[0].value.value, str):
        stmts = stmts[1:]
    if len(stmts) != 1 or not isinstance(stmts[0], ast.If):
        raise TieBroken("prepare_graph: body is not a single if/elif chain")
    table = []
    node = stmts[0]
    while True:
        kind, literal = _parse_test(node.test)
        table.append(_parse_body(node.body, kind, literal))
        if len(node.orelse) == 1 and isinstance(node.orelse[0], ast.If):
            node = node.orelse[0]
            continue
        tail = node.orelse
        ok = (len(tail) == 1 and isinstance(tail[0], ast.Raise) and isinstance(tail[0].exc, ast.Call)
              and isinstance(tail[0].exc.func, ast.Name) and tail[0].exc.func.id == "ValueError")
        if not ok:
            raise TieBroken("prepare_graph: the chain does not end in 'else: raise ValueError(...)'")
        break
    seen = set()
    for e in table:
        key = (e["kind"], e["literal"])
        if key in seen:
            raise TieBroken(f"prepare_graph: the test for {e['literal']!r} occurs twice")
        seen.add(key)
    return table


def first_match(table, name):
    """Index of the first branch whose test accepts `name` (the semantics of an if/elif chain), or None."""
    for i, e in enumerate(table):
        if (e["kind"] == "eq" and name == e["literal"]) or (e["kind"] == "prefix" and name.startswith(e["literal"])):
            return i
    return None


if __name__ == "__main__":
    for row in t4_dispatch():
        print(row["kind"], repr(row["literal"]), row["cls"] + "." + row["ctor"], row["args_src"], row["pre"])
