"""Running BfsAlgorithm.bfs on zoo cases: observed results, Coq case literals, oracle comparison, monitors."""
import sys

import graphs as G
from common import cz, czl, czll, cnl, clist, cbool, copt, wrap_attr, TieBroken

BIG = 10**15


def stop_literal(stopk):
    if stopk is None:
        return "StopNone"
    kind, v = stopk
    return {"at": f"(StopAtCall {v}%nat)", "size": f"(StopSizeGe {v}%nat)", "hash": f"(StopHasHash {cz(v)})", "never": "StopNever"}[kind]


def make_callback(stopk, calls):
    if stopk is None:
        return None
    kind, v = stopk

    def cb(layer, hashes):
        calls.append(int(layer.shape[0]))
        if kind == "at":
            return len(calls) == v
        if kind == "size":
            return layer.shape[0] >= v
        if kind == "hash":
            return bool((hashes == v).any())
        return False
    return cb


class Monitors:
    """Contract monitors on the implementation: sorted haystacks for isin_via_searchsorted."""

    def __init__(self):
        self.calls = 0
        self.unsorted = []  # (caller module, haystack length)
        self._restore = []

    def __enter__(self):
        import torch
        import cayleypy.torch_utils as tu
        import cayleypy.algo.bfs_algo as m1
        import cayleypy.algo.interactive_bfs as m2
        import cayleypy.algo.bfs_mitm as m3
        import cayleypy.algo.beam_search as m4
        import cayleypy.cayley_graph as m5
        mon = self

        def mk(orig):
            def wrapped(elements, hay):
                mon.calls += 1
                if len(hay) > 1 and not bool((hay[1:] >= hay[:-1]).all()):
                    fr = sys._getframe(1)
                    mon.unsorted.append((fr.f_code.co_filename.split("/")[-1] + ":" + fr.f_code.co_name, int(len(hay))))
                return orig(elements, hay)
            return wrapped
        self._restore.append(wrap_attr([tu, m1, m2, m3, m4, m5], "isin_via_searchsorted", mk))
        return self

    def __exit__(self, *a):
        for r in self._restore:
            r()


def observe(graph, starts, kw, stopk, container=None):
    """Runs the real BFS. Returns dict of observed outputs (or {'err': name}).  container: how the start states are handed over (graphs.CONTAINERS / 'list')."""
    import torch
    calls = []
    cb = make_callback(stopk, calls)
    args = dict(kw)
    if cb is not None:
        args["stop_condition"] = cb
    # guards against an implementation that no longer terminates (or whose layers explode): zoo orbits have at most 2*10^5 states and at most a
    # thousand layers, so on a correct implementation these limits never bind and the result equals the unguarded run the model describes
    args.setdefault("max_diameter", 4000)
    args.setdefault("max_layer_size_to_explore", 3 * 10**5)
    try:
        res = graph.bfs(start_states=G.in_container(container, [list(s) for s in starts]) if starts is not None else None, **args)
    except Exception as ex:  # pylint: disable=broad-except
        name = {"AssertionError": "AssertionErr", "ValueError": "ValueErr", "IndexError": "IndexErr", "KeyError": "KeyErr",
                "TypeError": "TypeErr", "RuntimeError": "RuntimeErr"}.get(type(ex).__name__, "RuntimeErr")
        return {"err": name, "exc": repr(ex)[:200]}, None
    obs = {
        "completed": bool(res.bfs_completed),
        "sizes": [int(x) for x in res.layer_sizes],
        "layers": [(int(k), G.flat_states(res.layers[k])) for k in sorted(res.layers)],
        "hashes": [[int(h) for h in t.tolist()] for t in res.layers_hashes],
        "edges": None if res.edges_list_hashes is None else [(int(a), int(b)) for a, b in res.edges_list_hashes.tolist()],
        "trace": calls,
    }
    return obs, res


def reload_result(res):
    """The BFS result after BfsResult.save / BfsResult.load (permutation graphs only: that is what saving supports)."""
    import os, tempfile
    from cayleypy.algo.bfs_result import BfsResult
    fd, fn = tempfile.mkstemp(suffix=".h5")
    os.close(fd)
    try:
        res.save(fn)
        return BfsResult.load(fn)
    finally:
        os.unlink(fn)


def coq_case(gd, graph, starts, kw, stopk, obs):
    store = kw.get("max_layer_size_to_store", 1000) or BIG
    explore = kw.get("max_layer_size_to_explore", 10**12)
    diam = kw.get("max_diameter", 1000000)
    if "err" in obs:
        exp = f"(Some {obs['err']}) false []%nat [] [] None []%nat"
    else:
        layers = clist(obs["layers"], lambda kv: f"({kv[0]}%nat, {czll(kv[1])})")
        edges = "None" if obs["edges"] is None else "(Some " + clist(obs["edges"], lambda p: f"({cz(p[0])}, {cz(p[1])})") + "%Z)"
        exp = (f"None {cbool(obs['completed'])} {cnl(obs['sizes'])} {layers} {czll(obs['hashes'])} {edges} {cnl(obs['trace'])}")
    st = czll(starts if starts is not None else [gd["central"]])
    return (f"(Build_bfs_case {G.coq_gdesc(gd, graph)} {st} {graph.batch_size} {store} {explore} {diam}%N "
            f"{cbool(kw.get('return_all_edges', False))} {cbool(kw.get('return_all_hashes', False))} "
            f"{cbool(kw.get('disable_batching', False))} {stop_literal(stopk)} {exp})")


def oracle_full(gd, starts, obs):
    """The property C01 on one exhaustive run: returns None or a message."""
    layers, dist = G.ref_bfs(gd, starts)
    want = [len(l) for l in layers]
    if "err" in obs:
        return f"bfs raised {obs['exc']}"
    if not obs["completed"]:
        return "exhaustive BFS did not report completion"
    if obs["sizes"] != want:
        return f"growth function {obs['sizes']} differs from the true distance classes {want}"
    for k, sts in obs["layers"]:
        got = [tuple(s) for s in sts]
        if len(set(got)) != len(got) or set(got) != layers[k]:
            return f"stored layer {k} is not the set of states at distance {k}"
    return None
