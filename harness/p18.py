"""C18 - a saved BFS result loads back equal and stays usable for path queries."""
import os

import graphs as G
import bfsrun
import pathrun as P
from common import cz, czl, czll, cnl, clist, cbool, copt, cstr, TieBroken


def result_lit(res):
    """Coq literal (SaveLoad.bfs_result) of a BfsResult object."""
    import numpy as np

    def arr2(t):
        return [[int(v) for v in row] for row in np.asarray(t).reshape((np.asarray(t).shape[0], -1)).tolist()]
    layers = clist(list(res.layers.items()), lambda kv: f"({int(kv[0])}%nat, {czll(arr2(kv[1]))})")
    hashes = czll([[int(v) for v in np.asarray(h).tolist()] for h in res.layers_hashes])
    edges = "None" if res.edges_list_hashes is None else "(Some " + czll(arr2(res.edges_list_hashes)) + ")"
    g = res.graph
    return ("{| r_completed := " + cbool(bool(res.bfs_completed)) + "; r_sizes := " + czl([int(v) for v in res.layer_sizes]) + "; r_layers := " + layers
            + "; r_hashes := " + hashes + "; r_edges := " + edges + "; r_gens := " + czll([[int(v) for v in p] for p in g.generators_permutations])
            + "; r_gen_names := " + clist(g.generator_names, cstr) + "; r_central := " + czl([int(v) for v in g.central_state]) + "; r_name := " + cstr(g.name) + " |}")


def store_lit(path):
    """Raw content of the HDF5 file as a Coq store literal (keys in h5py's order)."""
    import h5py
    import numpy as np
    items = []
    with h5py.File(path, "r") as f:
        for k in f.keys():
            d = f[k]
            v = d[()]
            if d.shape == ():
                if isinstance(v, (bytes, str)):
                    s = v.decode("utf-8") if isinstance(v, bytes) else v
                    items.append(f"({cstr(k)}, HStr {cstr(s)})")
                elif d.dtype == np.bool_:
                    items.append(f"({cstr(k)}, HBool {cbool(bool(v))})")
                else:
                    items.append(f"({cstr(k)}, HEmptyScalar)")
            elif d.dtype.kind in ("O", "S"):
                items.append(f"({cstr(k)}, HStrs {clist([x.decode('utf-8') if isinstance(x, bytes) else x for x in v], cstr)})")
            elif len(d.shape) == 1:
                items.append(f"({cstr(k)}, HInts {czl([int(x) for x in v.tolist()])})")
            else:
                items.append(f"({cstr(k)}, HInts2 {czll([[int(x) for x in row] for row in v.reshape((v.shape[0], -1)).tolist()])})")
    return clist(items)


def fields_identical(a, b):
    """Field-wise identity of two BfsResult objects (independent of __eq__)."""
    import numpy as np
    if bool(a.bfs_completed) != bool(b.bfs_completed) or [int(x) for x in a.layer_sizes] != [int(x) for x in b.layer_sizes]:
        return "completion flag or layer sizes differ"
    if set(a.layers) != set(b.layers) or any(np.asarray(a.layers[k]).tolist() != np.asarray(b.layers[k]).tolist() for k in a.layers):
        return "stored layers differ"
    if len(a.layers_hashes) != len(b.layers_hashes) or any(np.asarray(x).tolist() != np.asarray(y).tolist() for x, y in zip(a.layers_hashes, b.layers_hashes)):
        return "per-layer hashes differ"
    if (a.edges_list_hashes is None) != (b.edges_list_hashes is None):
        return "edge list presence differs"
    if a.edges_list_hashes is not None and np.asarray(a.edges_list_hashes).tolist() != np.asarray(b.edges_list_hashes).tolist():
        return "edge lists differ"
    ga, gb = a.graph, b.graph
    if ([list(map(int, p)) for p in ga.generators_permutations] != [list(map(int, p)) for p in gb.generators_permutations]
            or list(ga.generator_names) != list(gb.generator_names) or [int(x) for x in ga.central_state] != [int(x) for x in gb.central_state] or ga.name != gb.name):
        return "graph definitions differ"
    return None


def run(ctx):
    import copy
    import dataclasses
    import numpy as np
    import torch
    from cayleypy import CayleyGraph, CayleyGraphDef, BfsResult
    rng = ctx.rng
    ctx.cov["trusted_base"] = ["Coq 8.16.1 kernel (vm_compute)", "model SaveLoad.v validated here; h5py/HDF5 is an abstract key -> array store (PARTIAL: the file format itself is not modelled)",
                               "harness generators; field-wise Python comparison as oracle"]
    ctx.cov["rule"] = ("case = (permutation graph definition with names, configuration incl. seed, BFS options); non-trivial when the result has >= 2 layers and at least one optional "
                       "output (hashes / edges / unstored layers); distinct by canonical JSON")
    ctx.prove(extra=["SaveLoadRun"])
    cases, metas = [], []
    names_pool = ["", "a", "L", "R'", "é", "quote\"d", "x y", "g,1", "layer__7", "长"]
    for it in range(ctx.budget(70, 600)):
        # every 5th graph has 12-100 layers, so that stored layer ids with two and more digits occur ("layer__10", "layer__37", ...)
        gd = G.gen_deep_directed(rng, 400, min_layers=12) if it % 5 == 4 else G.gen_perm_graph(rng, cap=300, multiword=rng.random() < 0.25)
        long_states = it % 7 == 6
        if long_states:
            # permutations of 127..300 symbols (labels beyond one signed / unsigned byte), a few layers only
            n_ = rng.choice([127, 128, 129, 200, 255, 256, 257, 300])
            gd = {"kind": "perm", "gens": [[(i + 1) % n_ for i in range(n_)], [(i - 1) % n_ for i in range(n_)], [1, 0] + list(range(2, n_))], "central": list(range(n_))}
        k = len(gd["gens"])
        gnames = None if rng.random() < 0.4 else [rng.choice(names_pool) + str(i) for i in range(k)]
        name = rng.choice(["", "zoo", "lrx-5", "名前", "with space", "layer__3"])
        d = CayleyGraphDef.create([list(g) for g in gd["gens"]], generator_names=gnames, central_state=list(gd["central"]), name=name)
        seed = rng.choice([0, 0, 1, 7, rng.randrange(2**40)])
        cfgd = G.gen_config(rng, gd)
        if long_states:
            cfgd["bit_encoding_width"] = rng.choice(["auto", None])
        cfgd["random_seed"] = seed
        graph = CayleyGraph(d, device="cpu", **cfgd)
        layers, dist = (G.ref_bfs(gd, [gd["central"]]) if not long_states else ([{tuple(gd["central"])}] * 4, {}))
        kw = {}
        if rng.random() < 0.7:
            kw["return_all_hashes"] = True
        if rng.random() < 0.3:
            kw["return_all_edges"] = True
        kw["max_layer_size_to_store"] = rng.choice([None, 1, 2, 1000])
        if rng.random() < 0.4 or long_states:
            kw["max_diameter"] = rng.randint(1, len(layers) + 1) if not long_states else rng.randint(1, 3)
        if rng.random() < 0.2:
            kw["max_layer_size_to_explore"] = rng.choice([1, 2, 5])
        res = graph.bfs(**kw)
        path = os.path.join(ctx.work, f"r{it}.h5")
        case = {"graph": gd, "names": gnames, "name": name, "config": cfgd, "bfs": kw}
        try:
            res.save(path)
            loaded = BfsResult.load(path)
        except Exception as ex:  # pylint: disable=broad-except
            ctx.violation("property_fails", f"save/load raised {type(ex).__name__}: {str(ex)[:120]}", case, True)
            continue
        optional = bool(kw.get("return_all_hashes")) or bool(kw.get("return_all_edges")) or len(res.layers) < len(res.layer_sizes)
        ctx.case_seen(case, len(res.layer_sizes) >= 2 and optional)
        ctx.count("seed_zero" if seed == 0 else "seed_nonzero")
        for key in ("return_all_hashes", "return_all_edges"):
            if kw.get(key):
                ctx.count(key)
        eq = bool(loaded == res)
        msg = fields_identical(res, loaded)
        if msg:
            ctx.violation("property_fails", "loaded result is not field-wise identical to the saved one: " + msg, case, True)
        if not eq or not bool(res == loaded):
            ctx.violation("property_fails", "loaded result does not compare equal to the original", case, True)
        # "equal in every field": the fields hold the same KIND of value, so every accessor that works on the original works on the loaded result
        kinds = lambda r: (sorted((int(k), type(v).__name__) for k, v in r.layers.items()), [type(h).__name__ for h in r.layers_hashes],  # noqa: E731
                           type(r.edges_list_hashes).__name__, type(r.layer_sizes).__name__, type(r.bfs_completed).__name__)
        if kinds(res) != kinds(loaded):
            ctx.violation("property_fails", f"loaded result holds fields of another kind than the original: {kinds(loaded)} vs {kinds(res)}", dict(case, claim="field_kinds"), True)
        accessors = [("diameter", lambda r: r.diameter()), ("num_vertices", lambda r: r.num_vertices), ("last_layer", lambda r: np.asarray(r.last_layer()).tolist()),
                     ("get_layer(0)", lambda r: np.asarray(r.get_layer(0)).tolist()), ("to_device", lambda r: r.to_device("cpu").layer_sizes)]
        if len(res.layers) == len(res.layer_sizes):
            accessors += [("vertex_names", lambda r: list(r.vertex_names)), ("all_states", lambda r: r.all_states.tolist())]
            if kw.get("return_all_edges") and kw.get("return_all_hashes"):
                accessors += [("edges_list", lambda r: np.asarray(r.edges_list).tolist())]
        for aname, f in accessors:
            outs = []
            for r in (res, loaded):
                try:
                    outs.append(("ok", f(r)))
                except Exception as ex:  # pylint: disable=broad-except
                    outs.append(("raises", type(ex).__name__))
            ctx.count("accessor_compared")
            if outs[0] != outs[1]:
                ctx.violation("property_fails", f"{aname} on the loaded result gives {str(outs[1])[:80]}, on the original {str(outs[0])[:80]}", dict(case, claim="accessor", accessor=aname), True)
                break
        # equality must distinguish results that differ in one field
        variants = [dataclasses.replace(res, bfs_completed=not res.bfs_completed),
                    dataclasses.replace(res, layer_sizes=list(res.layer_sizes) + [1]),
                    dataclasses.replace(res, graph=res.graph.with_name(res.graph.name + "x"))]
        if res.layers_hashes:
            variants.append(dataclasses.replace(res, layers_hashes=[h + 1 for h in res.layers_hashes]))
            variants.append(dataclasses.replace(res, layers_hashes=[]))
        if res.edges_list_hashes is not None:
            variants.append(dataclasses.replace(res, edges_list_hashes=None))
        lk = sorted(res.layers)[-1]
        variants.append(dataclasses.replace(res, layers={kk: (v + 1 if kk == lk else v) for kk, v in res.layers.items()}))
        # the SET of stored layers is a field too: one layer fewer / one layer more
        if len(res.layers) >= 2:
            variants.append(dataclasses.replace(res, layers={kk: v for kk, v in res.layers.items() if kk != lk}))
        missing_ = [kk for kk in range(len(res.layer_sizes)) if kk not in res.layers]
        if missing_:
            extra_ = dict(res.layers)
            extra_[missing_[0]] = res.layers[lk]
            variants.append(dataclasses.replace(res, layers=extra_))
        for v in variants:
            try:
                if bool(v == loaded) or bool(loaded == v):
                    ctx.violation("property_fails", "== does not distinguish two results that differ in one field", case, True)
                    break
            except Exception as ex:  # pylint: disable=broad-except
                ctx.violation("property_fails", f"== raised {type(ex).__name__} on results differing in one field", case, True)
                break
        # a loaded result answers path queries on a FRESH graph with the same definition and seed exactly as the original did
        if kw.get("return_all_hashes"):
            fresh = CayleyGraph(loaded.graph, device="cpu", **cfgd)
            D = len(res.layer_sizes) - 1
            if long_states:
                # queries: states of the stored layers themselves (the orbit is far too large to enumerate)
                qs_ = [tuple(int(v) for v in row) for k_ in sorted(res.layers) for row in np.asarray(res.layers[k_]).reshape((len(res.layers[k_]), -1)).tolist()[:2]][:3]
            else:
                qs_ = P.query_states(rng, gd, layers, dist, D, 3)
            for q in qs_:
                a, _ = P.res_path_lit(lambda: graph.find_path_to(list(q), res))
                b, _ = P.res_path_lit(lambda: fresh.find_path_to(list(q), loaded))
                if a != b:
                    ctx.violation("property_fails", f"find_path_to on the loaded result with a fresh graph (seed {seed}) gives {b}, the original gave {a}", dict(case, query=q), True)
                    break
            ctx.count("path_queries_on_loaded")
            # ONE graph object answers queries on SEVERAL results in turn (same layer sizes, other hashes: searches from other start states of a
            # vertex-transitive graph): each answer must come from the result it was asked about
            if not long_states and len(dist) >= 6 and len(set(gd["central"])) == len(gd["central"]):
                s2 = list(rng.choice(sorted(dist)))
                kw2 = {k_: v_ for k_, v_ in kw.items() if k_ != "return_all_edges"}
                res2 = graph.bfs(start_states=[s2], **kw2)
                if list(res2.layer_sizes) == list(res.layer_sizes):
                    ctx.count("two_results_same_sizes_on_one_graph")
                    _, dist2 = G.ref_bfs(gd, [s2])
                    for q in qs_[:2]:
                        for rr, dd, nm in ((res, dist, "central"), (res2, dist2, "other start"), (res, dist, "central")):
                            a, _ = P.res_path_lit(lambda: fresh.find_path_to(list(q), rr))
                            inside = tuple(q) in dd and dd[tuple(q)] <= len(rr.layer_sizes) - 1
                            okp = (a is None and not inside) or (isinstance(a, list) and inside and len(a) == dd[tuple(q)])
                            if not okp:
                                ctx.violation("property_fails", f"find_path_to on the result of the BFS from the {nm} gives {a} for a state at distance "
                                              f"{dd.get(tuple(q))} (ball depth {len(rr.layer_sizes) - 1}) after the same graph answered for another result",
                                              dict(case, query=q, claim="results_in_turn"), True)
                                break
        cases.append(f"(Build_sl_case {result_lit(res)} {store_lit(path)} {result_lit(loaded)} {cbool(eq)})")
        metas.append(case)
        os.remove(path)
    ctx.sample(metas[0]); ctx.sample(metas[-1])
    bad = ctx.coq_failing("Base SaveLoad SaveLoadRun", "", "sl_case", cases, "check_sl", "saveload", shard=ctx.budget(15, 30))
    ctx.cov["disagreements_checked"] = len(cases)
    for i in bad[:3]:
        ctx.violation("correspondence", "save/load model (file key scheme, loaded fields, equality) differs from the implementation", metas[i], False)
    # the order in which h5py lists the keys of the written file is the alphabetical order the model assumes (C18_load_key_order_independent is about it):
    # keys (file read back) = keys (h5_sort (save result)), e.g. layer__10 before layer__2
    bad = ctx.coq_failing("Base SaveLoad SaveLoadRun SaveLoadFull", "", "sl_case", cases,
                          "fun c => list_eqb String.eqb (keys (sl_file c)) (keys (h5_sort (save (sl_result c))))", "h5order", shard=ctx.budget(15, 30))
    for i in bad[:3]:
        ctx.violation("correspondence", "h5py lists the keys of the saved file in another order than the alphabetical order of the model (h5_sort)", metas[i], False)


def replay(ctx, obj):
    run(ctx)
    return "; ".join(v["what"] for v in ctx.violations[:3]) or None
