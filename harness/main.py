"""CLI of the verification harness: ./check Cxx --tier quick|thorough [--replay FILE]."""
import argparse
import importlib
import json
import os
import sys
import traceback

sys.path.insert(0, os.path.dirname(os.path.abspath(__file__)))
import common  # noqa: E402


def main():
    ap = argparse.ArgumentParser()
    ap.add_argument("prop", nargs="?")
    ap.add_argument("--tier", default=os.environ.get("VERIF_TIER") or "quick")
    ap.add_argument("--replay")
    ap.add_argument("--gen", action="store_true")
    ap.add_argument("--scan", action="store_true")
    a = ap.parse_args()
    if a.gen:
        import translators
        translators.gen_all(strict=False, which=("Consts", "Effects", "MoveTables"))
        return 0
    if a.scan:
        bad = common.scan_forbidden()
        if bad:
            print("forbidden constructs:", bad)
            return 1
        return 0
    tier = a.tier if a.tier in ("quick", "thorough") else "quick"
    seed = int(os.environ.get("VERIF_SEED") or 20260926)
    prop = a.prop
    mod = importlib.import_module("p" + prop[1:])
    ctx = common.Ctx(prop, tier, seed)
    if a.replay:
        obj = json.load(open(a.replay))
        try:
            res = mod.replay(ctx, obj)
        except Exception:  # pylint: disable=broad-except
            traceback.print_exc()
            res = "replay raised"
        import shutil
        shutil.rmtree(ctx.work, ignore_errors=True)
        if res:
            print(f"VIOLATION property={prop} replay={a.replay}" + ("" if obj.get("found_input") else " no-failing-input-found"))
            print(res)
            return 1
        print("replay: property holds on this case now")
        return 0
    # watchdog: a check that does not finish is an alarm, never a silent hang (an implementation that stopped terminating must be reported)
    import signal
    limit = int(os.environ.get("VERIF_WATCHDOG_S") or (2400 if tier == "quick" else 6 * 3600))

    def on_alarm(_sig, _frm):
        # report and leave at once: an exception raised here could be swallowed by a broad "except" around an implementation call (it was: seeded
        # changes C09/m and C01/m made a search run forever, the TimeoutError was taken for an error of that call and the check went on for hours)
        msg = f"the check did not finish within {limit} s (an implementation call or a model evaluation does not terminate?)"
        try:
            ctx.tie_break("watchdog: " + msg)
            ctx.violation("correspondence", "harness could not complete: " + msg, {"watchdog_s": limit}, False)
            ctx.finish()
            sys.stdout.flush()
        finally:
            os._exit(1)
    signal.signal(signal.SIGALRM, on_alarm)
    signal.alarm(limit)
    try:
        mod.run(ctx)
    except common.TieBroken as ex:
        ctx.tie_break(str(ex))
        ctx.violation("translator", "tie to the source broken: " + str(ex)[:300], {"error": str(ex)}, False)
    except Exception as ex:  # pylint: disable=broad-except
        tb = traceback.format_exc()
        sys.stderr.write(tb)
        ctx.tie_break("harness error: " + repr(ex))
        ctx.violation("correspondence", "harness could not complete: " + repr(ex)[:200], {"traceback": tb[-3000:]}, False)
    return ctx.finish()


if __name__ == "__main__":
    sys.exit(main())
