#!/bin/bash
# runs every claimed quick (or given tier) check sequentially; prints rc and wall time per property
cd "$(dirname "$0")/.."
TIER=${1:-quick}
for p in $(/venv/bin/python -c "import json; print(' '.join(c['property_id'] for c in json.load(open('MANIFEST.json'))['checks']))"); do
  s=$(date +%s)
  ./check $p --tier $TIER > .work/runall_$p.log 2>&1
  rc=$?
  echo "$p rc=$rc $(( $(date +%s) - s ))s $(grep -c '^VIOLATION' .work/runall_$p.log) violations"
done
