"""C20 - permutation helpers satisfy the algebra the rest of the library assumes."""
import collections
import itertools
import math
import random as pyrandom

from common import cnl, cnll, czl, czll, cz, clist, cbool, cpair


def err_name(ex):
    return {"AssertionError": "AssertionErr", "ValueError": "ValueErr", "IndexError": "IndexErr",
            "KeyError": "KeyErr", "TypeError": "TypeErr", "RuntimeError": "RuntimeErr"}.get(type(ex).__name__, "RuntimeErr")


def res_nl(f):
    """Runs f; returns the Coq literal of type result (list nat)."""
    try:
        return "(Ok " + cnl(f()) + ")"
    except Exception as ex:  # pylint: disable=broad-except
        return "(Err " + err_name(ex) + ")"


def all_partitions(n, m=None):
    m = m or n
    if n == 0:
        yield []
        return
    for k in range(min(n, m), 0, -1):
        for rest in all_partitions(n - k, k):
            yield [k] + rest


def cycle_type_py(p):
    seen, out = set(), []
    for i in range(len(p)):
        if i in seen:
            continue
        j, c = i, 0
        while j not in seen:
            seen.add(j)
            j = p[j]
            c += 1
        out.append(c)
    return sorted(out)


def run(ctx):
    import cayleypy.permutation_utils as pu
    rng = ctx.rng
    ctx.assumptions += [
        "Python lists/ints behave as Coq list/nat/Z (indices in range; IndexError cases are excluded by the guards of the theorems)",
        "itertools.combinations/permutations and collections.Counter are modelled by combs/perms/counter_of (validated by the exhaustive equality below)",
        "random.shuffle is an oracle: the model takes the shuffled list as an argument, theorems quantify over all rearrangements",
    ]
    ctx.cov["trusted_base"] = ["Coq 8.16.1 kernel (vm_compute used, native_compute not used)", "coqc/make build",
                               "harness/p20.py generators and comparison", "CPython semantics of list indexing"]
    ctx.cov["rule"] = ("case = (function, arguments); non-trivial when a permutation argument is not the identity or the call "
                       "exercises an error branch; distinct by canonical JSON of the arguments")
    ctx.prove()

    # ---------------- correspondence: model = implementation -----------------------------------
    nmax = ctx.budget(4, 5)
    perms_by_n = {n: [list(p) for p in itertools.permutations(range(n))] for n in range(0, nmax + 1)}
    # (1) apply/compose/inverse/is_permutation on all pairs up to nmax, random beyond
    pairs = []
    for n in range(0, nmax + 1):
        for p in perms_by_n[n]:
            for q in perms_by_n[n]:
                pairs.append((p, q))
    for _ in range(ctx.budget(300, 3000)):
        n = rng.randint(5, 12)
        p = list(range(n)); rng.shuffle(p)
        q = list(range(n)); rng.shuffle(q)
        pairs.append((p, q))
    cases = []
    for p, q in pairs:
        x = [rng.randint(-5, 50) for _ in p]
        comp = pu.compose_permutations(p, q)
        app = pu.apply_permutation(p, x)
        inv = pu.inverse_permutation(p)
        isp = pu.is_permutation(p)
        cases.append(f"({cnl(p)}, {cnl(q)}, {czl(x)}, {cnl(comp)}, {czl(app)}, {cnl(inv)}, {cbool(isp)})")
        ctx.case_seen(["pair", p, q], p != sorted(p))
    ctx.sample({"fn": "compose/apply/inverse", "p": pairs[-1][0], "q": pairs[-1][1]})
    # non-permutations for is_permutation / inverse (the model mirrors the overwrite order)
    for _ in range(ctx.budget(200, 2000)):
        n = rng.randint(1, 7)
        p = [rng.randint(0, n - 1) for _ in range(n)]
        q = list(range(n))
        x = [rng.randint(0, 9) for _ in p]
        cases.append(f"({cnl(p)}, {cnl(q)}, {czl(x)}, {cnl(pu.compose_permutations(p, q))}, {czl(pu.apply_permutation(p, x))}, "
                     f"{cnl(pu.inverse_permutation(p))}, {cbool(pu.is_permutation(p))})")
        ctx.case_seen(["nonperm", p], True)
        ctx.count("non_permutation_inputs")
    chk = ("fun c => match c with (p, q, x, comp, app, inv, isp) => nat_list_eqb (compose p q) comp && "
           "z_list_eqb (apply_perm 0%Z p x) app && nat_list_eqb (inverse_perm p) inv && Bool.eqb (is_perm p) isp end")
    ty = "list nat * list nat * list Z * list nat * list Z * list nat * bool"
    bad = ctx.coq_failing("Base Perm", "", ty, cases, chk, "basic")
    ctx.cov["correspondence"]["basic_ops_cases"] = len(cases)
    for i in bad[:3]:
        ctx.violation("correspondence", "model of apply/compose/inverse/is_permutation differs from the implementation",
                      {"fn": "basic", "coq_case": cases[i]}, False)
    ctx.cov["disagreements_checked"] += len(cases)

    # (2) transposition
    cases = []
    for n in range(0, 6):
        for i1 in range(0, 7):
            for i2 in range(0, 7):
                cases.append(f"({n}%nat, {i1}%nat, {i2}%nat, {res_nl(lambda: pu.transposition(n, i1, i2))})")
                ctx.case_seen(["transposition", n, i1, i2], True)
    bad = ctx.coq_failing("Base Perm", "", "nat * nat * nat * result (list nat)", cases,
                          "fun c => match c with (n, i1, i2, r) => result_eqb nat_list_eqb (transposition n i1 i2) r end", "transp")
    for i in bad[:3]:
        ctx.violation("correspondence", "model of transposition differs", {"fn": "transposition", "coq_case": cases[i]}, False)
    ctx.cov["disagreements_checked"] += len(cases)

    # (3) permutation_from_cycles: mostly valid stream + malformed stream
    cases = []
    fc_inputs = []
    for k in range(ctx.budget(400, 4000)):
        n = rng.randint(1, 10)
        offset = rng.choice([0, 0, 1, 1, -3, 7])
        elems = list(range(n)); rng.shuffle(elems)
        cycles, pos = [], 0
        while pos < n and rng.random() < 0.8:
            ln = rng.randint(1, min(4, n - pos))
            cycles.append(elems[pos:pos + ln]); pos += ln
        kind = "valid"
        r = rng.random()
        if r < 0.15 and cycles:
            cycles.append([rng.choice(rng.choice(cycles)), rng.randint(0, n - 1)]); kind = "overlap"
        elif r < 0.25:
            cycles.append([rng.choice([-1, n, n + 2])]); kind = "out_of_range"
        elif r < 0.30 and cycles:
            c = rng.choice(cycles); c.append(c[0]); kind = "repeat_in_cycle"
        elif r < 0.33:
            cycles.append([]); kind = "empty_cycle"
        cyc_off = [[x + offset for x in c] for c in cycles]
        fc_inputs.append((n, cyc_off, offset, kind))
    import copy as _copy
    for n, cyc, offset, kind in fc_inputs:
        cases.append(f"({n}%nat, {czll(cyc)}, {cz(offset)}, {res_nl(lambda: pu.permutation_from_cycles(n, [list(c) for c in cyc], offset))})")
        # a helper is a function of its arguments: the SAME cycle list object passed twice gives the same answer and is not modified
        arg = [list(c) for c in cyc]
        keep = _copy.deepcopy(arg)
        outs = []
        for _rep in range(2):
            try:
                outs.append(("ok", [int(v) for v in pu.permutation_from_cycles(n, arg, offset)]))
            except Exception as ex:  # pylint: disable=broad-except
                outs.append(("err", type(ex).__name__))
        ctx.count("helper_argument_reuse_checked")
        if arg != keep or outs[0] != outs[1]:
            ctx.violation("property_fails", f"permutation_from_cycles({n}, cycles, offset={offset}) " + ("modified its cycles argument" if arg != keep else "")
                          + f"; first call {str(outs[0])[:80]}, second call with the same list {str(outs[1])[:80]}",
                          {"oracle": "from_cycles_reuse", "n": n, "cycles": cyc, "offset": offset}, True)
        ctx.case_seen(["from_cycles", n, cyc, offset], any(len(c) > 1 for c in cyc) or kind != "valid")
        ctx.count("from_cycles_" + kind)
    ctx.sample({"fn": "permutation_from_cycles", "n": fc_inputs[0][0], "cycles": fc_inputs[0][1], "offset": fc_inputs[0][2]})
    bad = ctx.coq_failing("Base Perm", "", "nat * list (list Z) * Z * result (list nat)", cases,
                          "fun c => match c with (n, cyc, off, r) => result_eqb nat_list_eqb (from_cycles n cyc off) r end", "cycles")
    for i in bad[:3]:
        ctx.violation("correspondence", "model of permutation_from_cycles differs", {"fn": "from_cycles", "coq_case": cases[i]}, False)
    ctx.cov["disagreements_checked"] += len(cases)

    # (4) partition_to_permutation, deterministic and with the recorded shuffle as oracle
    cases = []
    p2p_inputs = []
    for k in range(ctx.budget(300, 3000)):
        n = rng.randint(0, 9)
        lens = []
        left = n
        while left > 0:
            a = rng.randint(1, left); lens.append(a); left -= a
        if rng.random() < 0.08:
            lens.insert(rng.randint(0, len(lens)), 0)
        flag = rng.random() < 0.5
        recorded = {}
        orig_shuffle = pu.random.shuffle

        def rec_shuffle(lst, _rec=recorded, _orig=orig_shuffle):
            _orig(lst)
            _rec["elements"] = list(lst)
        pu.random.shuffle = rec_shuffle
        try:
            pyrandom.seed(rng.randint(0, 10**9))
            lit = res_nl(lambda: pu.partition_to_permutation(list(lens), flag))
        finally:
            pu.random.shuffle = orig_shuffle
        elements = recorded.get("elements", list(range(sum(lens))))
        cases.append(f"({cnl(lens)}, {cnl(elements)}, {lit})")
        p2p_inputs.append((lens, flag, elements))
        ctx.case_seen(["p2p", lens, elements], len(lens) > 0 and max(lens + [0]) > 1)
        ctx.count("p2p_random" if flag else "p2p_deterministic")
    ctx.sample({"fn": "partition_to_permutation", "cycle_lengths": p2p_inputs[0][0], "flag_random": p2p_inputs[0][1], "shuffle_oracle": p2p_inputs[0][2]})
    bad = ctx.coq_failing("Base Perm", "", "list nat * list nat * result (list nat)", cases,
                          "fun c => match c with (lens, el, r) => result_eqb nat_list_eqb (partition_to_permutation lens el) r end", "p2p")
    for i in bad[:3]:
        ctx.violation("correspondence", "model of partition_to_permutation differs", {"fn": "p2p", "coq_case": cases[i]}, False)
    ctx.cov["disagreements_checked"] += len(cases)

    # (5) permutations_with_cycle_lenghts: all partitions (both orders + one shuffle) of n <= N, plus error inputs
    N = ctx.budget(5, 6)
    cases = []
    enum_inputs = []
    for n in range(1, N + 1):
        for part in all_partitions(n):
            variants = {tuple(part), tuple(reversed(part))}
            sh = list(part); rng.shuffle(sh); variants.add(tuple(sh))
            for v in sorted(variants):
                enum_inputs.append((n, list(v)))
    enum_inputs += [(0, []), (3, [2, 2]), (4, [2, 1]), (3, [3, 0]), (2, [0, 2]), (5, [5, 1])]
    # beyond 8 symbols (CPython's small-set iteration order stops being sorted there): classes small enough to list, checked for size,
    # duplicates and cycle type as well as against the model
    big_enum = [(9, [2, 1, 1, 1, 1, 1, 1, 1]), (9, [3, 3, 3]), (10, [2, 1, 1, 1, 1, 1, 1, 1, 1]), (9, [1, 1, 1, 1, 1, 2, 2]), (11, [2] + [1] * 9), (9, [3, 1, 1, 1, 1, 1, 1])]
    for n, lens in big_enum[: ctx.budget(4, 6)]:
        r = pu.permutations_with_cycle_lenghts(n, list(lens))
        cnt = collections.Counter(lens)
        expect = math.factorial(n)
        for k_, m_ in cnt.items():
            expect //= k_ ** m_ * math.factorial(m_)
        distinct = len({tuple(p_) for p_ in r})
        if len(r) != expect or distinct != len(r) or any(cycle_type_py(p_) != sorted(lens) for p_ in r[:500]):
            ctx.violation("property_fails", f"permutations_with_cycle_lenghts({n}, {lens}) returned {len(r)} permutations ({distinct} distinct); the class has {expect}",
                          {"oracle": "enum_count", "n": n, "lens": lens}, True)
        ctx.count("enum_large_n_classes")
    enum_inputs += big_enum[: ctx.budget(4, 6)]
    for n, lens in enum_inputs:
        try:
            r = pu.permutations_with_cycle_lenghts(n, list(lens))
            lit = "(Ok " + cnll(r) + ")"
        except Exception as ex:  # pylint: disable=broad-except
            lit = "(Err " + err_name(ex) + ")"
            ctx.count("enum_error_inputs")
        cases.append(f"({n}%nat, {cnl(lens)}, {lit})")
        ctx.case_seen(["enum", n, lens], True)
    ctx.sample({"fn": "permutations_with_cycle_lenghts", "n": enum_inputs[10][0], "cycle_lengths": enum_inputs[10][1]})
    # the user of the enumeration (PermutationGroups.conjugacy_classes): a class asked for with None is listed whole, with a COUNT k it contributes exactly k
    # sampled members - zero included - so the generator list is the concatenation of what was asked for
    from cayleypy import PermutationGroups
    import math as _math
    from collections import Counter as _Counter

    def class_size(n, lens):
        ct = list(lens) + [1] * (n - sum(lens))
        size = _math.factorial(n)
        for k_, m_ in _Counter(ct).items():
            size //= (k_ ** m_) * _math.factorial(m_)
        return size
    for n, classes in ((5, {(2, 2): None, (2,): None}), (6, {(2,): None, (2, 2): None, (2, 2, 2): None}), (6, {(3, 3): None, (3,): None}), (5, {(2, 1): None, (2, 2, 1): None}),
                       (4, {(2, 2): None, (3,): 0}), (5, {(2,): 0, (3,): None}), (5, {(2, 2): 0}), (4, {(2,): None, (3,): 2, (4,): 0}), (6, {(3, 3): 0, (2,): None})):
        want = sum(class_size(n, c) if k is None else k for c, k in classes.items())
        try:
            got = len(PermutationGroups.conjugacy_classes(n, dict(classes)).generators_permutations)
        except Exception as ex:  # pylint: disable=broad-except
            got = -1 if want == 0 else type(ex).__name__           # a definition needs at least one generator: refusing an empty list is fine
        ctx.count("conjugacy_classes_with_counts")
        if got != want and not (want == 0 and got == -1):
            ctx.violation("property_fails", f"conjugacy_classes({n}, {classes}) lists {got} generators; whole classes and the requested counts add up to {want}",
                          {"fn": "conjugacy_classes", "n": n, "classes": [[list(c), k] for c, k in classes.items()]}, True)
    bad = ctx.coq_failing("Base Perm", "", "nat * list nat * result (list (list nat))", cases,
                          "fun c => match c with (n, lens, r) => result_eqb nat_list2_eqb (perms_with_cycle_lengths n lens) r end", "enum", shard=40)
    for i in bad[:3]:
        ctx.violation("correspondence", "model of permutations_with_cycle_lenghts differs (order included)",
                      {"fn": "enum", "n": enum_inputs[i][0], "lens": enum_inputs[i][1]}, False)
    ctx.cov["disagreements_checked"] += len(cases)
    ctx.cov["correspondence"]["enumeration_domain"] = f"all partitions of n<={N} in 2-3 orders, exact list equality (exhaustive)"

    # ---------------- property search on the implementation (independent oracle) ---------------
    budget_full = bool(ctx.tie_broken) or bool(ctx.violations)
    search_n = 5 if (budget_full or not ctx.quick()) else 4
    nchecked = 0
    for n in range(0, search_n + 1):
        for p in perms_by_n.get(n) or [list(t) for t in itertools.permutations(range(n))]:
            x = [rng.randint(0, 99) for _ in range(n)]
            inv = pu.inverse_permutation(p)
            ok = (pu.apply_permutation(inv, pu.apply_permutation(p, x)) == x
                  and pu.apply_permutation(p, pu.apply_permutation(inv, x)) == x
                  and pu.compose_permutations(p, inv) == list(range(n)) and pu.compose_permutations(inv, p) == list(range(n))
                  and pu.inverse_permutation(inv) == p and pu.is_permutation(p))
            nchecked += 1
            if not ok:
                ctx.violation("property_fails", "inverse_permutation does not undo the permutation", {"oracle": "inverse", "p": p, "x": x}, True)
                break
            for q in (perms_by_n.get(n) or [])[: (None if n <= 4 else 30)]:
                lhs = pu.apply_permutation(pu.compose_permutations(p, q), x)
                rhs = pu.apply_permutation(p, pu.apply_permutation(q, x))
                nchecked += 1
                if lhs != rhs:
                    ctx.violation("property_fails", "apply(compose(p,q),x) != apply(p,apply(q,x))", {"oracle": "compose", "p": p, "q": q, "x": x}, True)
                    break
    for n, cyc, offset, kind in fc_inputs:
        if kind != "valid":
            continue
        r = replay_case({"oracle": "from_cycles", "n": n, "cycles": cyc, "offset": offset})
        nchecked += 1
        if r:
            ctx.violation("property_fails", r, {"oracle": "from_cycles", "n": n, "cycles": cyc, "offset": offset}, True)
            break
    for lens, flag, elements in p2p_inputs:
        if any(k < 1 for k in lens):
            continue
        r = replay_case({"oracle": "p2p", "lens": lens, "flag": flag})
        nchecked += 1
        if r:
            ctx.violation("property_fails", r, {"oracle": "p2p", "lens": lens, "flag": flag}, True)
            break
    for n, lens in enum_inputs:
        if n < 1 or sum(lens) != n or any(k < 1 for k in lens) or n > (6 if budget_full else N):
            continue
        r = replay_case({"oracle": "enum", "n": n, "lens": lens})
        nchecked += 1
        if r:
            ctx.violation("property_fails", r, {"oracle": "enum", "n": n, "lens": lens}, True)
            break
    ctx.cov["search"] = {"oracle_checks": nchecked, "full_budget": budget_full}


def replay_case(case):
    """Evaluates the property itself on the implementation for one stored case. Returns None or a message."""
    import cayleypy.permutation_utils as pu
    o = case.get("oracle")
    if o == "inverse":
        p, x = case["p"], case["x"]
        inv = pu.inverse_permutation(p)
        if pu.apply_permutation(inv, pu.apply_permutation(p, x)) != x or pu.apply_permutation(p, pu.apply_permutation(inv, x)) != x:
            return f"inverse_permutation({p}) = {inv} does not undo p on {x}"
        if pu.compose_permutations(p, inv) != list(range(len(p))) or pu.compose_permutations(inv, p) != list(range(len(p))):
            return f"compose(p, inverse(p)) is not the identity for p={p}"
        return None
    if o == "compose":
        p, q, x = case["p"], case["q"], case["x"]
        if pu.apply_permutation(pu.compose_permutations(p, q), x) != pu.apply_permutation(p, pu.apply_permutation(q, x)):
            return f"apply(compose(p,q),x) != apply(p,apply(q,x)) for p={p}, q={q}"
        return None
    if o == "from_cycles":
        n, cyc, off = case["n"], case["cycles"], case["offset"]
        try:
            perm = pu.permutation_from_cycles(n, [list(c) for c in cyc], off)
        except Exception as ex:  # pylint: disable=broad-except
            return f"permutation_from_cycles raised {type(ex).__name__} on disjoint in-range cycles {cyc} offset {off}"
        exp = list(range(n))
        for c in cyc:
            for i, v in enumerate(c):
                exp[v - off] = c[(i + 1) % len(c)] - off
        if perm != exp:
            return f"permutation_from_cycles({n},{cyc},{off}) = {perm}, cycles say {exp}"
        return None
    if o == "p2p":
        lens, flag = case["lens"], case["flag"]
        perm = pu.partition_to_permutation(list(lens), flag)
        if sorted(perm) != list(range(sum(lens))) or cycle_type_py(perm) != sorted(lens):
            return f"partition_to_permutation({lens},{flag}) = {perm} does not have cycle type {sorted(lens)}"
        return None
    if o == "enum":
        n, lens = case["n"], case["lens"]
        res = pu.permutations_with_cycle_lenghts(n, list(lens))
        want = sorted(list(p) for p in itertools.permutations(range(n)) if cycle_type_py(p) == sorted(lens))
        if sorted(res) != want:
            return (f"permutations_with_cycle_lenghts({n},{lens}) returned {len(res)} permutations "
                    f"({len(set(map(tuple, res)))} distinct), the class has {len(want)}")
        return None
    return None


def replay(ctx, obj):
    case = obj.get("case", {})
    if obj.get("kind") == "property_fails":
        return replay_case(case)
    # tie-type replays: re-run the whole check
    run(ctx)
    if ctx.violations:
        return "still failing: " + "; ".join(v["what"] for v in ctx.violations[:3])
    return None
