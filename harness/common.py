"""Shared machinery of the cayleypy verification harness.

A check = gen (translators) -> prove (Coq build + Print Assumptions) -> correspond (model evaluated by
coqc/vm_compute against the implementation on the same inputs) -> property search (naive oracle on the
implementation) -> report (evidence file, KNOWN-FINDING / VIOLATION lines, exit code).
"""
import fcntl
import hashlib
import json
import os
import random
import re
import shutil
import subprocess
import sys
import time
import traceback

VERIF = os.path.dirname(os.path.dirname(os.path.abspath(__file__)))
REPO = os.environ.get("VERIF_REPO", "/repo")
COQ = os.path.join(VERIF, "coq")
NPROC = max(1, min(16, os.cpu_count() or 4))

ALLOWED_AXIOMS = {
    # axioms the standard library itself declares; named in DESIGN.md section 6
    "functional_extensionality_dep",
    "FunctionalExtensionality.functional_extensionality_dep",
    "Eqdep.Eq_rect_eq.eq_rect_eq",
    "eq_rect_eq",
    "proof_irrelevance",
    "ProofIrrelevance.proof_irrelevance",
    "Classical_Prop.classic",
    "classic",
    "JMeq_eq",
    "JMeq.JMeq_eq",
}

FORBIDDEN = re.compile(
    r"\b(Admitted|admit|Axiom|Axioms|Parameter|Parameters|Conjecture|Conjectures|Abort All)\b"
    r"|Unset\s+Guard\s+Checking|Unset\s+Positivity\s+Checking|Unset\s+Universe\s+Checking|bypass_check"
    r"|Admit\s+Obligations|-type-in-type|-impredicative-set|native_compute"
)


class TieBroken(Exception):
    """A translator refused a source shape, or a wrapper could not attach: the tie is broken."""


def canon(obj):
    return json.dumps(obj, sort_keys=True, separators=(",", ":"), default=str)


def digest(obj):
    return hashlib.sha256(canon(obj).encode()).hexdigest()[:12]


# ------------------------------------------------------------------------------------------------
# Coq literals
# ------------------------------------------------------------------------------------------------
def cz(v):
    v = int(v)
    return f"({v})" if v < 0 else str(v)


def clist(items, f=str):
    return "[" + "; ".join(f(x) for x in items) + "]"


def czl(l):
    return clist(l, cz) + "%Z"


def czll(ll):
    return clist(ll, lambda l: clist(l, cz)) + "%Z"


def cnl(l):
    return clist(l, lambda x: str(int(x))) + "%nat"


def cnll(ll):
    return clist(ll, lambda l: clist(l, lambda x: str(int(x)))) + "%nat"


def cbool(b):
    return "true" if b else "false"


def copt(v, f=str):
    return "None" if v is None else f"(Some {f(v)})"


def cstr(s):
    return '"' + s.replace('"', '""') + '"'


def cpair(a, b):
    return f"({a}, {b})"


# ------------------------------------------------------------------------------------------------
class Ctx:
    def __init__(self, prop, tier, seed):
        self.prop = prop
        self.tier = tier
        self.seed = seed
        self.rng = random.Random(seed * 1000003 + int(prop[1:]))
        self.t0 = time.time()
        self.work = os.path.join(VERIF, ".work", f"{prop}-{os.getpid()}")
        os.makedirs(self.work, exist_ok=True)
        self.violations = []  # dicts: kind, what, case, found_input
        self.cov = {
            "obligations": 0,
            "discharged": 0,
            "checker_cmd": "",
            "trusted_base": [],
            "evaluations": 0,
            "distinct_nontrivial": 0,
            "rule": "",
            "samples": [],
            "disagreements_checked": 0,
            "theorems": {},
            "correspondence": {},
            "search": {},
            "distribution": {},
            "tie_status": "ok",
        }
        self._distinct = set()
        self.assumptions = []
        self.tie_broken = []  # descriptions
        self.coq_files = 0

    # -- bookkeeping ---------------------------------------------------------------------------
    def quick(self):
        return self.tier == "quick"

    def budget(self, q, t):
        return q if self.quick() else t

    def count(self, key, n=1):
        d = self.cov["distribution"]
        d[key] = d.get(key, 0) + n

    def case_seen(self, case, nontrivial):
        """Counts an evaluated case; distinct+nontrivial measured by canonical JSON."""
        self.cov["evaluations"] += 1
        if nontrivial:
            self._distinct.add(digest(case))
        self.cov["distinct_nontrivial"] = len(self._distinct)

    def sample(self, case, limit=6):
        if len(self.cov["samples"]) < limit:
            self.cov["samples"].append(case)

    def violation(self, kind, what, case, found_input):
        """kind: property_fails | correspondence | proof | translator | monitor."""
        self.violations.append({"kind": kind, "what": what, "case": case, "found_input": bool(found_input)})

    def tie_break(self, what):
        self.tie_broken.append(what)
        self.cov["tie_status"] = "broken"

    # -- Coq: build and theorem accounting -----------------------------------------------------
    def _lock(self):
        f = open(os.path.join(VERIF, ".work", "coq.lock"), "w")
        fcntl.flock(f, fcntl.LOCK_EX)
        return f

    def write_gen(self, name, text):
        """Writes coq/gen/<name>.v only if the content changed (so make rebuilds only on change)."""
        path = os.path.join(COQ, "gen", name + ".v")
        old = None
        if os.path.exists(path):
            with open(path) as f:
                old = f.read()
        if old != text:
            lock = self._lock()
            try:
                with open(path, "w") as f:
                    f.write(text)
            finally:
                lock.close()
        return path

    def prove(self, extra=(), timeout=1500):
        """Builds props/<prop>.vo with everything it depends on and re-checks the property file,
        collecting Print Assumptions. Returns True when every obligation is discharged."""
        prop = self.prop
        pfile = os.path.join(COQ, "props", prop + ".v")
        src = open(pfile).read()
        names = re.findall(r"^(?:Theorem|Lemma|Corollary)\s+([A-Za-z0-9_']+)", src, re.M)
        self.cov["obligations"] = len(names)
        bad = scan_forbidden()
        if bad:
            self.tie_break("forbidden construct in the development: " + "; ".join(bad[:5]))
            self.violation("proof", "forbidden construct: " + "; ".join(bad[:5]), {"files": bad}, False)
            return False
        lock = self._lock()
        try:
            if not os.path.exists(os.path.join(COQ, "Makefile")):
                subprocess.run(["bash", os.path.join(VERIF, "setup.sh"), "--makefile-only"], check=True, cwd=VERIF)
            cmd = ["timeout", str(timeout), "make", "-C", COQ, "-j", str(NPROC), f"props/{prop}.vo"] + [m + ".vo" for m in extra]
            p = subprocess.run(cmd, capture_output=True, text=True)
        finally:
            lock.close()
        self.cov["checker_cmd"] = (
            f"make -C coq -j{NPROC} props/{prop}.vo && coqc -Q coq V coq/props/{prop}.v (Coq 8.16.1, full .vo build)"
        )
        if p.returncode != 0:
            msg = (p.stdout + p.stderr)[-3000:]
            where = locate_failure(p.stdout + p.stderr)
            self.cov["theorems"]["build_error"] = msg
            self.tie_break(f"proof build failed at {where}")
            self.violation("proof", f"theorem or generated side condition no longer checks: {where}",
                           {"make_output_tail": msg, "failed_at": where}, False)
            return False
        out = os.path.join(self.work, prop + ".vo")
        p = subprocess.run(["timeout", "600", "coqc", "-Q", COQ, "V", "-w", "-notation-overridden,-deprecated-syntactic-definition,-deprecated-hint-without-locality", pfile, "-o", out], capture_output=True, text=True)
        if p.returncode != 0:
            msg = (p.stdout + p.stderr)[-3000:]
            self.tie_break("property file does not compile")
            self.violation("proof", "props file does not compile", {"output": msg}, False)
            return False
        blocks = split_assumptions(p.stdout)
        ok = 0
        thm = {}
        for i, name in enumerate(names):
            blk = blocks[i] if i < len(blocks) else None
            if blk is None:
                thm[name] = "NO Print Assumptions OUTPUT"
                continue
            axioms = blk["axioms"]
            if all(a.split(".")[-1] in {x.split(".")[-1] for x in ALLOWED_AXIOMS} for a in axioms):
                ok += 1
            thm[name] = "Closed under the global context" if not axioms else "Axioms: " + ", ".join(axioms)
        self.cov["theorems"].update(thm)
        self.cov["discharged"] = ok
        if ok != len(names) or len(blocks) != len(names):
            self.tie_break("a property theorem depends on a non-allowed axiom or lacks Print Assumptions")
            self.violation("proof", "theorem not closed / unexpected axioms", {"theorems": thm}, False)
            return False
        if not self.quick():
            # thorough tier: the independent checker re-checks the compiled property file and everything it depends on, and lists the
            # axioms of the whole closure (standard-library ones included)
            p = subprocess.run(["timeout", "3600", "coqchk", "-o", "-silent", "-Q", COQ, "V", f"V.props.{prop}"], capture_output=True, text=True)
            out = p.stdout + p.stderr
            m = re.search(r"\* Axioms:(.*?)\n\s*\n\* Constants/Inductives relying on type-in-type:(.*?)\n\s*\n\* Constants/Inductives relying on unsafe \(co\)fixpoints:(.*?)\n\s*\n"
                          r"\* Inductives whose positivity is assumed:(.*?)\n", out + "\n\n", re.S)
            self.cov["coqchk"] = {"cmd": f"coqchk -o -silent -Q coq V V.props.{prop}", "exit": p.returncode, "summary": out[-900:]}
            self.cov["checker_cmd"] += f" && coqchk -o -silent -Q coq V V.props.{prop}"
            bad_axioms = []
            if m:
                axioms = [a.strip() for a in m.group(1).replace("<none>", "").split("\n") if a.strip()]
                bad_axioms = [a for a in axioms if a.split(".")[-1] not in {x.split(".")[-1] for x in ALLOWED_AXIOMS}]
                unsafe = [g.strip() for g in (m.group(2), m.group(3), m.group(4)) if g.strip() and "<none>" not in g]
            else:
                unsafe = ["coqchk summary not found"]
            if p.returncode != 0 or bad_axioms or unsafe:
                self.tie_break("coqchk rejects the compiled development or reports axioms / unsafe constructs")
                self.violation("proof", f"coqchk: exit {p.returncode}, axioms {bad_axioms}, unsafe {unsafe}", {"coqchk": out[-2000:]}, False)
                return False
        return True

    # -- Coq: evaluate the model on cases ------------------------------------------------------
    def coq_failing(self, requires, prelude, case_type, cases, chk, label, shard=400, timeout=900):
        """cases: list of Coq terms of type case_type; chk : case_type -> bool (Coq term).
        Returns the indices of the cases on which chk is false (the model disagrees)."""
        if not cases:
            return []
        if not self.quick():
            timeout = max(timeout, 7200)          # thorough shards are bigger and often share the machine with other runs
        shards = [cases[i:i + shard] for i in range(0, len(cases), shard)]
        files = []
        for k, sh in enumerate(shards):
            self.coq_files += 1
            name = f"cases_{label}_{k}"
            path = os.path.join(self.work, name + ".v")
            with open(path, "w") as f:
                f.write("From Coq Require Import ZArith List Bool String.\nImport ListNotations.\n")
                f.write(f"From V Require Import {requires}.\n")
                f.write("Open Scope Z_scope.\nOpen Scope string_scope.\nOpen Scope list_scope.\n")
                f.write(prelude + "\n")
                f.write(f"Definition the_cases : list ({case_type}) := [\n")
                f.write(";\n".join(sh))
                f.write("\n].\n")
                f.write(f"Definition the_failing := Eval vm_compute in failing ({chk}) the_cases.\n")
                f.write("Set Printing Width 100000. Set Printing Depth 1000000.\n")
                f.write("Print the_failing.\n")
            files.append(path)
        procs = []
        results = [None] * len(files)
        maxp = NPROC

        def launch(i):
            # output goes to FILES: a pipe that nobody drains blocks coqc once it has written 64 KB (one "large number" warning per literal was enough in
            # the thorough tier: the evaluation sat there until its timeout and was reported as a broken tie)
            return subprocess.Popen(
                ["bash", "-c", f"ulimit -s unlimited 2>/dev/null; exec timeout {timeout} coqc -Q {COQ} V {files[i]} > {files[i]}.out 2> {files[i]}.err"],
                cwd=self.work)

        pending = list(range(len(files)))
        running = {}
        while pending or running:
            while pending and len(running) < maxp:
                i = pending.pop(0)
                running[i] = launch(i)
            for i, pr in list(running.items()):
                if pr.poll() is not None:
                    o = open(files[i] + ".out", errors="replace").read()
                    e = open(files[i] + ".err", errors="replace").read()
                    results[i] = (pr.returncode, o, e)
                    del running[i]
            time.sleep(0.02)
        failing = []
        for k, (rc, o, e) in enumerate(results):
            if rc != 0:
                raise TieBroken(f"model evaluation failed for {label} shard {k}: {(o + e)[-1500:]}")
            m = re.search(r"the_failing\s*=\s*(.*?)\s*:\s*list nat", o, re.S)
            if not m:
                raise TieBroken(f"cannot parse coqc output for {label}: {o[-500:]}")
            body = m.group(1).replace("%nat", "")
            idx = [int(x) for x in re.findall(r"\d+", body)]
            failing += [k * shard + i for i in idx]
        return failing

    def coq_print(self, requires, prelude, term, timeout=300):
        """Evaluates one term with vm_compute and returns Coq's printed text (for replays)."""
        path = os.path.join(self.work, f"print_{self.coq_files}.v")
        self.coq_files += 1
        with open(path, "w") as f:
            f.write("From Coq Require Import ZArith List Bool String.\nImport ListNotations.\n")
            f.write(f"From V Require Import {requires}.\nOpen Scope Z_scope.\nOpen Scope string_scope.\nOpen Scope list_scope.\n")
            f.write(prelude + "\nSet Printing Width 100000.\n")
            f.write(f"Eval vm_compute in ({term}).\n")
        p = subprocess.run(["timeout", str(timeout), "coqc", "-Q", COQ, "V", path], capture_output=True, text=True, cwd=self.work)
        return (p.stdout + p.stderr).strip()[-4000:]

    # -- reporting -----------------------------------------------------------------------------
    def finish(self):
        # fail closed: a proof-level check never ends quietly with undischarged (or uncounted) obligations
        if (self.cov["obligations"] < 1 or self.cov["discharged"] != self.cov["obligations"]) and not any(v["kind"] == "proof" for v in self.violations):
            sys.stderr.write(f"DIAG obligations={self.cov['obligations']} discharged={self.cov['discharged']} theorems={self.cov['theorems']} tie={self.tie_broken}\n")
            self.tie_break("obligations not all discharged at the end of the run")
            self.violation("proof", f"{self.cov['discharged']} of {self.cov['obligations']} proof obligations discharged", {"theorems": self.cov["theorems"]}, False)
        known = load_known()
        real = []
        known_hit = []
        for v in self.violations:
            k = match_known(known, self.prop, v)
            if k is not None:
                known_hit.append((k, v))
            else:
                real.append(v)
        printed = set()
        for k, v in known_hit:
            if k["id"] not in printed:
                printed.add(k["id"])
                print(f"KNOWN-FINDING: property={self.prop} {k['what']}")
        # evidence
        self.cov["known_findings_hit"] = sorted(printed)
        self.cov["violations_detail"] = [
            {"kind": v["kind"], "what": v["what"], "found_input": v["found_input"]} for v in real][:20]
        self.cov["tie_broken"] = self.tie_broken
        ev = {
            "property_id": self.prop,
            "tier": self.tier,
            "seed": self.seed,
            "level": "proof",
            "coverage": self.cov,
            "assumptions": self.assumptions,
            "wall_s": round(time.time() - self.t0, 2),
            "violations": len(real),
        }
        os.makedirs(os.path.join(VERIF, "evidence"), exist_ok=True)
        with open(os.path.join(VERIF, "evidence", self.prop + ".json"), "w") as f:
            json.dump(ev, f, indent=1, default=str)
        rc = 0
        if real:
            os.makedirs(os.path.join(VERIF, "replays"), exist_ok=True)
            # one VIOLATION line per distinct (kind, what); failing inputs first
            real.sort(key=lambda v: (not v["found_input"],))
            seen = set()
            for v in real:
                key = (v["kind"], v["what"])
                if key in seen:
                    continue
                seen.add(key)
                rp = os.path.join("replays", f"{self.prop}-{digest(v)}.json")
                with open(os.path.join(VERIF, rp), "w") as f:
                    json.dump({"property": self.prop, "kind": v["kind"], "what": v["what"], "case": v["case"],
                               "found_input": v["found_input"], "seed": self.seed, "tier": self.tier}, f, indent=1, default=str)
                tail = "" if v["found_input"] else " no-failing-input-found"
                print(f"VIOLATION property={self.prop} replay={rp}{tail}")
                if len(seen) >= 5:
                    break
            rc = 1
        if not os.environ.get("VERIF_KEEP_WORK"):
            shutil.rmtree(self.work, ignore_errors=True)
        return rc


def split_assumptions(out):
    blocks = []
    cur = None
    for line in out.splitlines():
        if line.startswith("Closed under the global context"):
            blocks.append({"axioms": []})
            cur = None
        elif line.startswith("Axioms:"):
            cur = {"axioms": []}
            blocks.append(cur)
        elif cur is not None:
            m = re.match(r"^([A-Za-z_][\w.']*)\s*(:|$)", line)
            if m and not line.startswith(" "):
                cur["axioms"].append(m.group(1))
    return blocks


def locate_failure(text):
    m = re.search(r'File "\./?([^"]+)", line (\d+)', text)
    if not m:
        return "unknown location"
    fn, ln = m.group(1), int(m.group(2))
    name = "?"
    try:
        lines = open(os.path.join(COQ, fn)).read().splitlines()
        for i in range(min(ln, len(lines)) - 1, -1, -1):
            mm = re.match(r"^\s*(?:Theorem|Lemma|Corollary|Example|Definition|Fact)\s+([A-Za-z0-9_']+)", lines[i])
            if mm:
                name = mm.group(1)
                break
    except OSError:
        pass
    return f"{fn}:{ln} ({name})"


def scan_forbidden():
    bad = []
    for root, _, files in os.walk(COQ):
        for fn in files:
            if fn.endswith(".v") or fn == "_CoqProject":
                p = os.path.join(root, fn)
                txt = open(p).read()
                txt = re.sub(r"\(\*.*?\*\)", "", txt, flags=re.S)
                for m in FORBIDDEN.finditer(txt):
                    bad.append(f"{os.path.relpath(p, COQ)}:{m.group(0)}")
    return bad


def load_known():
    p = os.path.join(VERIF, "known_findings.json")
    if not os.path.exists(p):
        return []
    return json.load(open(p)).get("findings", [])


def match_known(known, prop, v):
    """A known finding matches a violation when property and kind agree and every key of its
    'match' dict equals the corresponding key of the violation's case (dotted paths allowed)."""
    for k in known:
        if k.get("status") != "open" or k["property"] != prop:
            continue
        if k.get("kind") and k["kind"] != v["kind"]:
            continue
        ok = True
        for path, want in k.get("match", {}).items():
            cur = v["case"]
            for part in path.split("."):
                if isinstance(cur, dict) and part in cur:
                    cur = cur[part]
                else:
                    cur = None
                    break
            if cur != want:
                ok = False
                break
        if ok:
            return k
    return None


# ------------------------------------------------------------------------------------------------
# Fail-closed attribute wrapping (contract monitors, oracle recording)
# ------------------------------------------------------------------------------------------------
def wrap_attr(modules, name, make_wrapper):
    """Rebinds attribute `name` in every given module to make_wrapper(original). Fails closed."""
    saved = []
    n = 0
    for mod in modules:
        if hasattr(mod, name):
            orig = getattr(mod, name)
            setattr(mod, name, make_wrapper(orig))
            saved.append((mod, name, orig))
            n += 1
    if n == 0:
        raise TieBroken(f"cannot attach monitor: no module exposes {name}")

    def restore():
        for mod, nm, orig in saved:
            setattr(mod, nm, orig)
    return restore
