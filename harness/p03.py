"""C03 - de-duplication never merges distinct states nor keeps duplicates."""
import graphs as G
from common import cz, czl, czll, cnl, clist, cbool, copt, TieBroken

M64 = 1 << 64
H63 = 1 << 63
SEEDS = [1, 17, 4242, 987654321, 2**40 + 5]

KNOWN_WORDS = ([5, 9], [5987515076937770397, -1928796979971312683])   # finding F16


def sgn(x):
    x &= M64 - 1
    return x - M64 if x >= H63 else x


def words_to_state(words, w, n):
    big = 0
    for c, v in enumerate(words):
        big |= (v & (M64 - 1)) << (64 * c)
    return [(big >> (i * w)) & ((1 << w) - 1) for i in range(n)]


def enc_graph(w, n, seed):
    """A permutation graph object with an explicit width whose states span several words (generators irrelevant)."""
    from cayleypy import CayleyGraph, CayleyGraphDef
    d = CayleyGraphDef.create([list(range(1, n)) + [0]], central_state=[0] * n)
    return CayleyGraph(d, device="cpu", bit_encoding_width=w, random_seed=seed)


def hash_states(graph, states):
    import torch
    return [int(h) for h in graph.hasher.make_hashes(graph.encode_states(torch.tensor(states, dtype=torch.int64))).tolist()]


def structured_word_pairs(rng, L):
    """Pairs of distinct L-word patterns with the structure the property names."""
    out = []
    base = [rng.randrange(0, M64) for _ in range(L)]
    c = list(base); c[0] ^= M64 - 1
    out.append(("complement_word", base, c))
    c = list(base); c[-1] ^= M64 - 1
    out.append(("complement_last_word", base, c))
    if L >= 2 and base[0] != base[1]:
        c = list(base); c[0], c[1] = c[1], c[0]
        out.append(("swapped_words", base, c))
        dlt = rng.randrange(1, M64)
        c = list(base); c[0] ^= dlt; c[1] ^= dlt
        out.append(("equal_xor_difference", base, c))
        c = list(base); c[0] ^= H63; c[1] ^= H63
        out.append(("sign_bit_difference_two_words", base, c))
    c = list(base); c[0] ^= H63
    out.append(("sign_bit_difference", base, c))
    c = list(base); c[rng.randrange(L)] ^= 1 << rng.randrange(64)
    out.append(("single_bit", base, c))
    z = [0] * L
    o = [M64 - 1] * L
    out.append(("all_zero_vs_all_one", z, o))
    return out


def run(ctx):
    import torch
    import translators
    from cayleypy import CayleyGraph, CayleyGraphDef
    translators.gen_all(strict=True)
    rng = ctx.rng
    ctx.cov["trusted_base"] = ["Coq 8.16.1 kernel (vm_compute)", "model Hash.v/HashChunk.v/GraphImpl.v validated here",
                               "translator T1: the xorshift/multiply steps and the fold multiplier of hasher.py (side conditions re-proved each run)",
                               "torch int64 ^, >>, &, * and @ as in W64.v; torch.sort(stable)/unique as in Tensor.v", "harness generators"]
    ctx.cov["rule"] = ("case = a pair of distinct states hashed under 5 seeds, or a batch handed to get_unique_states, or a (states, chunk size) hashing call; "
                       "non-trivial when the two states differ / the batch has a duplicate and >= 2 distinct states; distinct by canonical JSON")
    ctx.assumptions += ["a pair colliding under all of 5 independent seeds is a seed-independent collision (what the property forbids); random collisions are not expected at 2^-64"]
    ctx.prove(extra=["BfsRun", "HashChunk"])

    # ---- (a) structured adversarial pairs on multi-word encoded states ----
    npairs = 0
    for rep in range(ctx.budget(25, 400)):
        w = rng.choice([1, 1, 2, 4, 8, 16, 32])
        L = rng.choice([2, 2, 3, 4, 9, 10])          # also codes of more than 8 words
        n = (64 * L) // w - rng.choice([0, 0, 1]) * (1 if w < 64 else 0)
        if (n * w + 63) // 64 != L:
            n = (64 * L) // w
        graphs = [enc_graph(w, n, s) for s in SEEDS]
        pairs = structured_word_pairs(rng, L)
        if rep == 0 or rng.random() < 0.1:
            pairs.append(("known_F16", [v & (M64 - 1) for v in KNOWN_WORDS[0]] + [0] * (L - 2), [v & (M64 - 1) for v in KNOWN_WORDS[1]] + [0] * (L - 2)))
        for kind, wa, wb in pairs:
            a, b = words_to_state(wa, w, n), words_to_state(wb, w, n)
            if a == b:
                continue
            hs = [hash_states(g, [a, b]) for g in graphs]
            npairs += 1
            case = {"class": "encoded_pair", "pair_kind": kind, "w": w, "n": n, "a_words": [sgn(v) for v in wa], "b_words": [sgn(v) for v in wb]}
            ctx.case_seen(case, True)
            ctx.count("pair_" + kind)
            if all(h[0] == h[1] for h in hs):
                if kind == "known_F16":
                    case["class"] = "top_bit_xor_difference_in_two_mixed_words"
                ctx.violation("property_fails", f"two distinct states ({kind}) collide under all {len(SEEDS)} seeds", case, True)
    ctx.sample({"class": "encoded_pair", "example": "complement of word 0, w=1"})

    # ---- (b) dot-product hasher: vectors and matrices, single entry / transposition / sign differences ----
    for rep in range(ctx.budget(40, 500)):
        n = rng.randint(2, 12)
        base = [rng.choice([0, 1, -1, 2**31 - 1, -(2**31) + 1, rng.randint(-1000, 1000)]) for _ in range(n)]
        variants = []
        c = list(base); i = rng.randrange(n); c[i] += rng.choice([1, -1, 2**16, 2**30]); variants.append(("single_entry", c))
        i, j = rng.sample(range(n), 2)
        if base[i] != base[j]:
            c = list(base); c[i], c[j] = c[j], c[i]; variants.append(("transposition", c))
        c = [-v for v in base]
        if c != base:
            variants.append(("negated", c))
        gens = [list(range(1, n)) + [0]]
        hs_all = []
        for s in SEEDS:
            g = CayleyGraph(CayleyGraphDef.create(gens, central_state=[0] * n), device="cpu", bit_encoding_width=None, random_seed=s)
            st = torch.tensor([base] + [v for _, v in variants], dtype=torch.int64)
            hs_all.append([int(h) for h in g.hasher.make_hashes(st).tolist()])
        for k, (kind, v) in enumerate(variants):
            case = {"class": "dot_pair", "pair_kind": kind, "a": base, "b": v}
            ctx.case_seen(case, True)
            ctx.count("dotpair_" + kind)
            npairs += 1
            if all(h[0] == h[k + 1] for h in hs_all):
                ctx.violation("property_fails", f"two distinct un-encoded states ({kind}) collide under all {len(SEEDS)} seeds", case, True)
    # ---- (b') the same hasher, seed by seed, for the seeds a user is most likely to pass (0, small negative and positive numbers): a hash that ignores a
    # coordinate (or a bit) under ONE seed is as wrong as one that does so under all of them.  Three pairs differing in the same coordinate are hashed;
    # two or more collisions under one seed cannot be chance (2^-128)
    for rep in range(ctx.budget(12, 100)):
        n = rng.randint(2, 9)
        seed = rng.choice([0, 0, -1, -2, -3, -(n - 1), 1, 2, -n, 5])
        base = [rng.choice([0, 1, -1, 5, rng.randint(-1000, 1000)]) for _ in range(n)]
        kindg = rng.choice(["vector", "matrix"])
        if kindg == "vector":
            g = CayleyGraph(CayleyGraphDef.create([list(range(1, n)) + [0]], central_state=[0] * n), device="cpu", bit_encoding_width=None, random_seed=seed)
        else:
            from cayleypy.cayley_graph_def import MatrixGenerator
            n = rng.choice([4, 9])
            k_ = int(n ** 0.5)
            base = [rng.randrange(5) for _ in range(n)]
            eye = [[1 if i == j else 0 for j in range(k_)] for i in range(k_)]
            up = [row[:] for row in eye]; up[0][k_ - 1] = 1
            g = CayleyGraph(CayleyGraphDef.for_matrix_group(generators=[MatrixGenerator.create(up, modulo=5)], central_state=eye), device="cpu", random_seed=seed)
        for i in range(n):
            vs = []
            for delta in (1, 2, 3):
                c = list(base); c[i] += delta; vs.append(c)
            hs = [int(h) for h in g.hasher.make_hashes(torch.tensor([base] + vs, dtype=torch.int64)).tolist()]
            ncoll = sum(1 for h in hs[1:] if h == hs[0])
            npairs += 3
            ctx.count("per_seed_coordinate_pairs", 3)
            if ncoll >= 2:
                ctx.violation("property_fails", f"un-encoded {kindg} states that differ only in coordinate {i} collide under random_seed={seed} ({ncoll} of 3 pairs): "
                              "the hash ignores that coordinate", {"class": "dot_seed_coordinate", "kind": kindg, "n": n, "seed": seed, "coordinate": i, "base": base}, True)
                break
    ctx.cov["search"]["adversarial_pairs"] = npairs

    # ---- (c) make_hashes correspondence (all three kinds), chunked paths, get_unique_states ----
    cases, metas = [], []
    for it in range(ctx.budget(70, 600)):
        signbit = it % 6 == 5
        if signbit:
            # one code word filled to the sign bit (n * width = 64): codes of both signs, far apart (identity-hash de-duplication must
            # order and compare them as signed 64-bit integers without overflow)
            n_, w_ = rng.choice([(64, 1), (32, 2), (16, 4)])          # entries must stay below n
            gd = {"kind": "perm", "gens": [[(i + 1) % n_ for i in range(n_)], [1, 0] + list(range(2, n_))], "central": [0] * (n_ - 1) + [2 ** w_ - 1]}
            layers, dist = G.ref_bfs(gd, [gd["central"]])
            cfgd = dict(G.gen_config(rng, gd), bit_encoding_width=w_)
            ctx.count("sign_bit_single_word_batches")
        else:
            gd = G.gen_graph(rng, cap=300)
            layers, dist = G.ref_bfs(gd, [gd["central"]])
            cfgd = G.gen_config(rng, gd)
        graph = G.make_graph(gd, cfgd)
        verts = sorted(dist)
        batch = [list(rng.choice(verts)) for _ in range(rng.randint(1, 9))]
        if signbit:
            batch += [list(gd["central"]), list(verts[0]), list(verts[-1])]
        if rng.random() < 0.7:
            batch += [list(rng.choice(batch)) for _ in range(rng.randint(1, 4))]
        rng.shuffle(batch)
        # the states arrive in the container a caller may use (lists, NumPy arrays and tensors of narrower integer types): same codes, same hashes
        cont = G.pick_container(rng, [v for st_ in batch for v in st_], 0.5)
        ctx.count("batch_container_" + cont)
        enc = graph.encode_states(G.in_container(cont, batch))
        hs = [int(h) for h in graph.hasher.make_hashes(enc).tolist()]
        # the hash of a state is a function of the state (and the seed) alone: hashed by itself it gets the hash it got inside the batch
        alone = [int(graph.hasher.make_hashes(graph.encode_states(torch.tensor([st_], dtype=torch.int64)))[0]) for st_ in batch[:4]]
        if alone != hs[: len(alone)]:
            ctx.violation("property_fails", "a state hashes differently alone than inside a batch (equal states would be kept twice, the seen-state filter would miss them)",
                          {"class": "batch_dependent_hash", "graph": gd, "config": cfgd, "batch": batch}, True)
        if cont != "list":
            hs64 = [int(h) for h in graph.hasher.make_hashes(graph.encode_states(torch.tensor(batch, dtype=torch.int64))).tolist()]
            if hs64 != hs:
                ctx.violation("property_fails", f"the same states hash differently when given as {cont} than as int64 (distinct states may merge, equal ones may split)",
                              {"class": "container_hash", "container": cont, "graph": gd, "config": cfgd, "batch": batch}, True)
        # hashes must not depend on chunking or on the copy of the graph that computes them
        ginv = None
        try:
            ginv = graph.with_inverted_generators
        except Exception:  # pylint: disable=broad-except
            pass
        if ginv is not None:
            hs2 = [int(h) for h in ginv.hasher.make_hashes(ginv.encode_states(torch.tensor(batch, dtype=torch.int64))).tolist()]
            if hs2 != hs:
                ctx.violation("property_fails", "a derived copy of the graph hashes equal states differently", {"class": "copy_hash", "graph": gd, "config": cfgd, "batch": batch}, True)
        # the hash every copy RECORDS for its central state is the hash its hasher gives that state (beam search and MITM compare with it)
        copies = [("graph", graph)] + ([("with_inverted_generators", ginv)] if ginv is not None else [])
        try:
            other = list(rng.choice(verts))
            copies.append(("modified_copy", graph.modified_copy(graph.definition.with_central_state(other))))
        except Exception:  # pylint: disable=broad-except
            pass
        for cname, gc in copies:
            rec = [int(v) for v in torch.as_tensor(gc.central_state_hash).reshape(-1).tolist()]
            cen = [int(v) for v in gc.hasher.make_hashes(gc.encode_states(gc.central_state)).reshape(-1).tolist()]
            ctx.count("central_state_hash_checked")
            if rec != cen or gc.hasher is not graph.hasher:
                ctx.violation("property_fails", f"{cname}: the recorded central_state_hash {rec} is not the hash {cen} its hasher gives the central state "
                              "(the same state gets different hashes in copies of one graph)", {"class": "copy_central_hash", "copy": cname, "graph": gd, "config": cfgd}, True)
        if not graph.hasher.is_identity and graph.string_encoder is None:
            h = graph.hasher
            for chunk in sorted({1, 2, 3, len(batch), len(batch) + 1}):
                old = h.chunk_size
                h.chunk_size = chunk
                try:
                    a = [int(v) for v in h._make_hashes_cpu_and_modern_gpu(enc).tolist()]
                    vh = h.vec_hasher
                    h.vec_hasher = vh.reshape((h.state_size,))
                    b = [int(v) for v in h._make_hashes_older_gpu(enc).tolist()]
                    h.vec_hasher = vh
                finally:
                    h.chunk_size = old
                ctx.count("chunked_calls")
                if a != hs or b != hs:
                    ctx.violation("property_fails", f"chunked hashing (chunk {chunk}) differs from unchunked hashing",
                                  {"class": "chunking", "graph": gd, "config": cfgd, "batch": batch, "chunk": chunk}, True)
        # a symbol that does not fit the code width must be refused - never silently truncated to a state that exists (a seed-independent collision)
        if graph.string_encoder is not None and gd["kind"] == "perm" and int(graph.string_encoder.w) < 62:
            w_ = int(graph.string_encoder.w)
            alien = list(batch[0])
            alien[rng.randrange(len(alien))] += 2 ** w_ * rng.choice([1, 1, 2, 3])
            try:
                e2 = graph.encode_states(torch.tensor([batch[0], alien], dtype=torch.int64))
                h2 = [int(v) for v in graph.hasher.make_hashes(e2).tolist()]
                u2, _ = graph.get_unique_states(e2)
                ctx.count("alien_symbol_accepted")
                if h2[0] == h2[1] or len(u2) != 2:
                    ctx.violation("property_fails", f"a state with a symbol >= 2^{w_} is encoded like a different, valid state (merged by de-duplication)",
                                  {"class": "alien_symbol", "graph": gd, "config": cfgd, "states": [batch[0], alien]}, True)
            except AssertionError:
                ctx.count("alien_symbol_refused")
        us, uh = graph.get_unique_states(enc)
        us_dec = G.flat_states(graph.decode_states(us))
        uh = [int(v) for v in uh.tolist()]
        distinct = {tuple(s) for s in batch}
        ok = (len(us_dec) == len(distinct) and {tuple(s) for s in us_dec} == distinct and all(uh[i] < uh[i + 1] for i in range(len(uh) - 1))
              and uh == hash_states(graph, us_dec))
        case = {"class": "unique", "graph": gd, "config": cfgd, "batch": batch}
        ctx.case_seen(case, len(distinct) >= 2 and len(distinct) < len(batch))
        ctx.count("hasher_" + ("identity" if graph.hasher.is_identity else "splitmix" if graph.string_encoder is not None else "dot"))
        if not ok:
            # random collision? re-run under other seeds
            persists = True
            for s in (11, 222, 3333):
                g2 = G.make_graph(gd, dict(cfgd, random_seed=s))
                u2, _ = g2.get_unique_states(g2.encode_states(torch.tensor(batch, dtype=torch.int64)))
                if {tuple(s) for s in G.flat_states(g2.decode_states(u2))} == distinct and len(u2) == len(distinct):
                    persists = False
                    break
            if persists:
                ctx.violation("property_fails", "get_unique_states does not return every distinct state exactly once with sorted aligned hashes", case, True)
        cases.append(f"({G.coq_gdesc(gd, graph)}, {czll(batch)}, {czl(hs)}, {czll(us_dec)}, {czl(uh)})")
        metas.append(case)
    ctx.sample(metas[0])
    chk = ("fun c => match c with (d, batch, hs, us, uh) => let G := impl_of d in "
           "z_list_eqb (hashes G batch) hs && "
           "(let '(ms, mh) := get_unique_states G batch (hashes G batch) in z_list2_eqb ms us && z_list_eqb mh uh) "
           "&& z_list_eqb (hash_rows_chunked (hashf G) 2 batch) hs end")
    bad = ctx.coq_failing("Base W64 Hash HashChunk GraphImpl BfsRun", "", "gdesc * list (list Z) * list Z * list (list Z) * list Z", cases, chk, "hash", shard=60)
    ctx.cov["disagreements_checked"] = len(cases)
    for i in bad[:3]:
        ctx.violation("correspondence", "hash / get_unique_states model differs from the implementation", metas[i], False)

    # ---- (d) BFS on graphs whose vertices differ by whole-word patterns ----
    nb = 0
    for _ in range(ctx.budget(8, 60)):
        L = rng.choice([2, 3])
        n = 64 * L
        half = rng.choice([64, 32])
        swap = [(i + half) % n for i in range(n)]
        pat = rng.choice([[0] * 64 + [1] * 64, [1] * 64 + [0] * 64, [0, 1] * 32 + [1, 0] * 32, [rng.randrange(2) for _ in range(128)]])
        central = (pat * L)[:n]
        gd = {"kind": "perm", "gens": [swap], "central": central}
        layers, dist = G.ref_bfs(gd, [central])
        want = [len(l) for l in layers]
        got_all = []
        for s in SEEDS[:3]:
            g = G.make_graph(gd, {"bit_encoding_width": 1, "random_seed": s})
            got_all.append(g.bfs().layer_sizes)
        nb += 1
        case = {"class": "whole_word_bfs", "graph": gd}
        ctx.case_seen(case, len(dist) >= 2)
        if all(got != want for got in got_all):
            ctx.violation("property_fails", f"BFS merges or loses vertices that differ by whole-word patterns: {got_all[0]} vs true {want}", case, True)
    ctx.cov["search"]["whole_word_bfs_graphs"] = nb


def replay(ctx, obj):
    case = obj.get("case", {})
    if obj.get("kind") == "property_fails" and case.get("class") in ("encoded_pair", "top_bit_xor_difference_in_two_mixed_words"):
        w, n = case["w"], case["n"]
        a, b = words_to_state(case["a_words"], w, n), words_to_state(case["b_words"], w, n)
        coll = [hash_states(enc_graph(w, n, s), [a, b]) for s in SEEDS + [31337]]
        return f"states collide under all seeds: {coll[0]}" if all(h[0] == h[1] for h in coll) else None
    run(ctx)
    return "; ".join(v["what"] for v in ctx.violations[:3]) or None
