"""Appends property theorems to coq/props/Cxx.v (creating it if needed): each restates a proved lemma's closed type and is closed by `exact`.
usage: addprops.py Cxx "imports" name=lemma=doc ...   (first arg may be followed by --title "text" when creating)"""
import os
import sys
import mkprops

def main():
    pid, imports = sys.argv[1], sys.argv[2]
    items = sys.argv[3:]
    path = os.path.join(mkprops.COQ, "props", pid + ".v")
    title = None
    if items and items[0] == "--title":
        title = items[1]; items = items[2:]
    out = []
    prefix = open(path).read() if os.path.exists(path) else ""
    if not os.path.exists(path):
        out.append(f"(** {title or pid} Statements only: every proof is [exact] of a lemma proved elsewhere.\n    (Statements are the lemmas' closed types as printed by Coq, hence the qualified names.) *)")
    out.append(f"From V Require Import {imports}.\n")
    for it in items:
        name, lemma, doc = it.split("=", 2)
        ty = mkprops.closed_type(imports, lemma, prefix)
        out.append(f"(* {doc} *)")
        out.append(f"Theorem {name} :\n  " + ty.replace("\n", "\n  ") + ".")
        out.append(f"Proof. exact @{lemma}. Qed.")
        out.append(f"Print Assumptions {name}.\n")
    with open(path, "a") as f:
        f.write("\n" + "\n".join(out))

if __name__ == "__main__":
    main()
