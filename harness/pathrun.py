"""Shared runner for the path-finding properties C04, C05, C12."""
import graphs as G
from common import cz, czl, czll, cnl, clist, cbool, copt, TieBroken

ERR = {"AssertionError": "AssertionErr", "ValueError": "ValueErr", "IndexError": "IndexErr", "KeyError": "KeyErr",
       "TypeError": "TypeErr", "RuntimeError": "RuntimeErr"}


def res_path_lit(f):
    """Runs f() -> Optional[list[int]]; returns (python value or ('err', name), Coq literal)."""
    try:
        r = f()
    except Exception as ex:  # pylint: disable=broad-except
        name = ERR.get(type(ex).__name__, "RuntimeErr")
        return ("err", name, repr(ex)[:200]), f"(Err {name})"
    if r is None:
        return None, "(Ok None)"
    r = [int(i) for i in r]
    return r, f"(Ok (Some {cnl(r)}))"


def inv_mats_lit(graph):
    if graph.definition.is_permutation_group():
        return "[]"
    inv = graph.with_inverted_generators.definition.generators_matrices
    return clist([m.matrix.tolist() for m in inv], lambda M: clist(M, lambda r: clist(r, cz))) + "%Z"


def gen_invertible_graph(rng, cap):
    """A zoo graph whose inverted graph can be built (permutations always; matrices when .inv succeeds)."""
    for _ in range(200):
        gd = G.gen_graph(rng, cap)
        if gd["kind"] == "perm":
            return gd
        try:
            d = G.make_def(gd)
            d.with_inverted_generators()
            return gd
        except AssertionError:
            continue
        except Exception:  # numpy LinAlgError for singular matrices
            continue
    raise RuntimeError("no invertible graph generated")


def outside_state(rng, gd, dist):
    """A state of the right shape that is (probably) not in the orbit."""
    c = list(gd["central"])
    for _ in range(20):
        s = list(c)
        i = rng.randrange(len(s))
        if gd["kind"] == "perm":
            s[i] = rng.randint(0, max(c))
        else:
            mod = gd["modulo"]
            s[i] = rng.randrange(mod) if mod > 0 else rng.randint(-3, 3)
        if tuple(s) not in dist:
            return s
    return None


def query_states(rng, gd, layers, dist, D, count):
    """Mostly-valid queries: inside the ball, on its boundary, just outside, far, outside the orbit."""
    verts_by_d = {}
    for s, d in dist.items():
        verts_by_d.setdefault(d, []).append(s)
    out = []
    for _ in range(count):
        r = rng.random()
        if r < 0.3:
            ds = [d for d in verts_by_d if d <= D]
        elif r < 0.45:
            ds = [d for d in verts_by_d if d == D] or [d for d in verts_by_d if d <= D]
        elif r < 0.7:
            ds = [d for d in verts_by_d if D < d <= 2 * D] or list(verts_by_d)
        elif r < 0.85:
            ds = [d for d in verts_by_d if d > 2 * D] or [d for d in verts_by_d if d in (2 * D, 2 * D + 1)] or list(verts_by_d)
        else:
            s = outside_state(rng, gd, dist)
            if s is not None:
                out.append(s)
                continue
            ds = list(verts_by_d)
        d = rng.choice(sorted(ds))
        out.append(list(rng.choice(sorted(verts_by_d[d]))))
    return out


def dist_to_central(gd):
    """Directed distances s -> central for every s (BFS from central in the reversed graph = inverted generators)."""
    if gd["kind"] == "perm":
        gi = dict(gd, gens=[G.inverse_perm(g) for g in gd["gens"]])
        return gi
    return None
