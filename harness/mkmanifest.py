"""Writes MANIFEST.json from the table below (kept in one place so it is always valid)."""
import json
import os

VERIF = os.path.dirname(os.path.dirname(os.path.abspath(__file__)))

CHECKS = {
    "C11": dict(
        text="Coq theorems, all unbounded. Interactive engine: for ANY graph instance and ANY start list it reports exactly the sizes of the true layers and its current layer IS "
             "the true layer (C11_ibfs_growth, C11_ibfs_layers). Unthinned BFS-mode walk: every vertex once with its true distance (C11_walks_bfs_exhaustive). NumPy engine: the "
             "model of bfs_numpy returns the true layer sizes for any bijective generators closed under inverse (C11_numpy_bfs_growth), and END TO END on the term the harness "
             "evaluates: run on the library's GENERATED 1-D routines from the code of any central state, any width with n*w <= 64, it returns the true growth function of the "
             "Schreier graph on states; it asserts exactly when an inverse is missing or duplicated (C11_numpy_bfs_encoded_growth, C11_np_inverse_index_err_iff). Bit-mask engine: "
             "a statement-level model of the WHOLE engine (chunks by suffix, black/last/gray sets of ranks, materialise - apply - route - paint - flush, both stopping rules, the "
             "grouping by chunk as repaired by fix F26) returns exactly the true layer sizes from any start permutation, generators not necessarily inverse-closed; it succeeds on "
             "EVERY valid input and fails (AssertionError) exactly on invalid input (C11_bitmask_bfs_from_valid, C11_bitmask_bfs_from_outcomes, C11_bitmask_bfs_from_total, C11_step_inv, "
             "C11_rank_unrank ...). Main BFS: C01. Tie: NumpyBfs.v, Bitmask.v and BitmaskEngine.v evaluated in Coq on the implementation's runs with exact equality (bit-mask "
             "engine: n=9 families incl. a random non-inverse-closed pair from a random start, with and without depth limit; n=10 thorough; error classes outside the domain); "
             "all four engines compared with the main BFS and a naive Python BFS.",
        note="Trusted: as C01/C07; numba-compiled helpers and np.unique/np.roll grouping of the bit-mask engine are abstracted in the model (painting is idempotent and "
             "order-independent; the one failure left, painting an empty array, is modelled and proved unreachable) and validated by the whole-engine correspondence. The 4-bit packing of permutations used by "
             "the bit-mask engine is the C02 codec at width 4.",
        technique="Coq proof (all four engines: interactive, unthinned walk, NumPy end-to-end on encoded states, bit-mask whole engine) + model/implementation correspondence + cross-engine comparison",
        design="7 (C11)"),
    "C15": dict(
        text="Coq theorems about Families.v (one Gallina constructor per library family). GENERAL in all parameters, for 33 families - lrx, lx, top_spin, pancake, coxeter, "
             "cyclic_coxeter, stars, all_transpositions, full_reversals, down_cycles, prefix_cycles, consecutive_k_cycles, burnt_pancake, cubic_pancake, generalized_stars, "
             "three_cycles, three_cycles_0ij, three_cycles_01i, larx, lsl_cycles, wrapped_k_cycles, increasing_k_cycles, rapaport_m1/m2, koltsov3, sheveleva2, signed_reversals, "
             "transposons, block_interchange, all_cycles, heisenberg, special_linear_fundamental_roots, special_linear_root_weyl: the constructor succeeds EXACTLY on the documented "
             "range (C15_*_range), returns the closed-form generators, count formula, names, name, central state, has the documented action on sequences (reversal, shift, swap, "
             "3-cycle, block transposition ...) / matrix structure (I + E_ab, Weyl matrix, determinant 1), and is inverse-closed exactly as documented (C15_*_documented). "
             "Derangements, involutive derangements and full conjugacy classes: membership characterised for every n (C15_derangements_spec, C15_involutive_derangements_spec, "
             "C15_conjugacy_classes_spec). ALL families: the boolean acceptance check "
             "(validity, count, names, structure, inverse-closedness) is proved to mean what it says and holds for EVERY parameter tuple up to the stated bound by kernel computation "
             "(the property's own quantifier is bounded by enumerability). Tie: exhaustive equality model = implementation over the same bounded parameter domain (definitions AND "
             "error classes), an independent docstring oracle in Python (group orders for A_n / SL(n,Z/m) / Heisenberg), T4 translator of prepare_graph's dispatch chain + lookup == constructor, "
             "own name -> same definition.",
        note="Interpretation (DESIGN.md C15): 'Cayley graph for S_n' names the ambient group; orders are asserted only where the docstring names the generated group. Self-inconsistent "
             "docstrings are read as recorded in the evidence (doc_notes). Randomised families (rand_generators, random conjugacy representatives) are checked through recorded shuffles. "
             "Trusted: Coq kernel + vm_compute, Families.v (validated exhaustively), T4.",
        technique="Coq proof (general-parameter theorems for 33 families + kernel-computed bounded theorem for all families) + exhaustive model/implementation equality + dispatch translator",
        design="7 (C15)"),
    "C17": dict(
        text="Coq theorems about RefBfs.v, an independent reference BFS (AVL set over states, no hashing, no torch): a finished run returns exactly the sizes of the textbook layers "
             "of Graph.v (proved to be the distance classes), none empty, and the next layer is empty; the prefix run returns the sizes of layers 0..k; the boolean row checks mean "
             "what they say (C17_check_exact_sound / C17_check_prefix_sound). Decision per row: EVERY row of EVERY shipped CSV (808 rows, as load_dataset returns them, cross-checked "
             "with a raw parse) is handed to that verified function as a Coq term and decided by the kernel VM: whole growth function when the orbit is within budget (quick 25000, "
             "thorough 400000 states), otherwise the longest prefix within budget + starts with 1 + positive + sum = documented order (n!, n!/2, 2^n n!, C(n,k), m^(2n-3), |SL(n,Z/m)|, "
             "2x2x2 constants). The graph a key denotes is built by the library constructor that datasets.py names (T5: constructor names re-read from the current datasets.py by AST).",
        note="The two datasets datasets.py computes by closed formulas (coxeter: Mahonian numbers, all_transpositions: Stirling numbers; 58 rows up to n = 30) are decided "
             "COMPLETELY: every row is compared with the Gallina formula, proved for every n to be the growth function of that graph (C17_coxeter_growth_correct, "
             "C17_all_transpositions_growth_correct: distance = inversions / n - cycles). "
             "Trusted: Coq kernel + vm_compute; the documented-order table (trusted input, listed in the evidence; 310 rows have no documented order - Hungarian rings, globes, k-cycle "
             "families, larger puzzles - and get prefix + positivity only); library constructors as the denotation of keys (C15/C16 tie them to their documentation). PARTIAL for rows "
             "whose orbit exceeds the budget: only the prefix and the sum are decided.",
        technique="Coq proof (reference BFS = distance classes) + kernel evaluation of the verified function on every dataset row + translator-checked dataset definitions",
        design="7 (C17)"),
    "C16": dict(
        text="Coq theorems (GapProofs.v, unbounded): for ANY generators written as disjoint 1-based cycles under distinct admissible names, in any interleaving with comment/empty/other "
             "assignment lines and with an optional identical-pieces partition, the statement-by-statement model of the GAP loader (split on newline and ':=', the regular expression "
             "\\(([\\d,]+)\\) as a two-state scanner, int(), the JSON subset of the ip line, n = largest index, permutation_from_cycles, _central_state_from_ip) returns exactly those "
             "permutations on max-index points (each cycle element mapped to its successor, everything else fixed), named as written, with two points coloured equal exactly when "
             "declared identical (C16_gap_roundtrip, C16_gap_roundtrip_lines, C16_central_state_from_ip_spec). Tie: the model evaluated in Coq on EVERY shipped .gap file (92; the two "
             "largest only in the thorough tier) and on synthetic valid and malformed texts must return exactly what the implementation returns (names, n, moved points, central "
             "state, error classes); an independent hand-written cycle reader checks the property itself on all 92 files. Generated puzzles: executable models of cube.py, "
             "hungarian_rings.py, globe.py (Puzzles.v) compared exhaustively with the implementation over bounded parameter domains (cube n <= 5/7 all metrics, all ring tuples with "
             "sizes <= 8/12 incl. inadmissible ones, globe a,b <= 5/7) and a structural oracle written from the property text (order 4, exact layer support, per-axis commutation and "
             "disjointness, single ring cycles meeting exactly at the stated points and spacing, inverse-closedness).",
        note="Generated puzzles, ALL parameters (no bound): cube layer turns and all four metric generator sets for every n >= 2 (C16_cube_general, through the closed form "
             "C16_move_perm_nth of every layer turn as the geometric quarter turn of its slice), Hungarian rings for all sizes and accepted index pairs (C16_rings_general: single "
             "cycles, exact intersection points, spacing, inverses), globe for all a, b >= 1 (C16_globe_general), inverse-closedness of all these generator sets "
             "(C16_generator_sets_inverse_closed); the bounded kernel computations (cube n <= 6, rings <= 12, globe <= 6) are kept as cross-checks. Table-driven puzzles "
             "(mini pyramorphix, picture cube, pyraminx, megaminx, fixed-corner 2x2x2, 3x3x3 face turns): translator T4b regenerates the literal move tables of moves.py / cube.py "
             "into Coq on EVERY run and the kernel re-proves that every move is a permutation of the right size and order and that the generator sets are inverse-closed "
             "(C16_*_table_ok); the generator lists the library builds are compared with the model built from the regenerated tables. GAP: texts with extra whitespace inside cycles/JSON are outside the printer's image (covered by correspondence only); "
             "non-ASCII digits and JSON outside 'lists of lists of non-negative integers' are not modelled (the model answers 'not modelled' and the check fails closed). "
             "Trusted: Coq kernel + vm_compute, Gap.v/Puzzles.v (validated), Python re/json/str semantics as modelled.",
        technique="Coq proof (GAP loader round trip, unbounded) + model/implementation correspondence on all shipped files and bounded parameter domains + structural oracle",
        design="7 (C16)"),
    "C14": dict(
        text="Two Coq obligations. (1) From the CURRENT source: translator T2 regenerates the table of every attribute write in the library (assignments, augmented, subscript "
             "stores, del, setattr; fail-closed on dynamic forms) and Coq re-proves that each one is in a constructor, on an object created in the same function, on a "
             "helper object of its own, or sets the find_path cache (C14_writes_only_caches). (2) The object as a state machine with an immutable part and two caches "
             "(inverted copy; BFS ball keyed by the BFS arguments): for ANY operation sequence each operation returns what it returns on a fresh object and the immutable "
             "part never changes (C14_history_independent). Tie/search: differential histories on the real object - random sequences of 11 kinds of public operations "
             "(bfs with options, path queries, beam search, random walks, inverted/modified copies, export, find_path, MITM) against a fresh object with the same seed, "
             "plus a snapshot of definition/central state/encoding/hashing after every operation; interleaved constructions reseed the global RNG.",
        note="PARTIAL: aliasing of returned tensors, in-place tensor mutation through method calls, and anything a user callback does are outside the model; the differential "
             "histories are what covers them (exploration). Trusted: Coq kernel, T2, EffectsDefs.effect_ok.",
        technique="Coq proof over a regenerated effect table + abstract state-machine theorem + differential histories",
        design="7 (C14)"),
    "C07": dict(
        text="Coq theorems about the model of the three random-walk generators for ALL values of the random draws (oracle arguments): every returned state x[i] is the end of a "
             "walk of exactly y[i] edges from the start state and the output starts with the start state (classic, bfs, nbt with every history depth incl. the default 0); "
             "classic mode has width*length rows, y = step index and consecutive states joined by an edge; bfs mode returns pairwise distinct states and, wide and long enough, "
             "exactly all vertices with their true distances. Tie: the model fed the recorded torch.randint/randperm draws reproduces the implementation's (x, y) exactly; "
             "exact-k reachability oracle; start states as list/ndarray/tensor.",
        note="Trusted: Coq kernel; model Walks.v; the torch proxy recording draws. nbt theorem assumes a well-formed permutation oracle and >= 1 generator at depth 0.",
        technique="Coq proof (invariants for all oracle values) + oracle-recorded correspondence",
        design="7 (C07)"),
    "C06": dict(
        text="Coq theorems about the model of both beam-search modes, for EVERY selection oracle (the recorded unstable argsort), score function, width and budget: success "
             "implies a real walk of exactly the reported length (never below the distance, never for an unreachable target); a returned path replays to the central state with "
             "that length, also with a BFS ball on inverse-closed graphs; when the beam is wider than the orbit and the budget covers the distance both modes succeed with exactly "
             "the shortest distance for every history depth. Tie: the model, fed the recorded scores/selections, reproduces the implementation's result exactly; exact-k "
             "reachability oracle; the non-inverse-closed ball case is the open known finding F15 (replayed from the corpus on every run).",
        note="Trusted: Coq kernel; models Beam.v/Paths.v; the argsort proxy in the harness. The ball theorem requires inverse-closed generators (F15 documents why).",
        technique="Coq proof (beam invariant for all oracles) + oracle-recorded correspondence + corpus replay of known finding",
        design="7 (C06)"),
    "C13": dict(
        text="Coq theorem about the conversion model (container -> int64 -> reshape(-1, state_size)): for every dtype and every value in its range, every form of the same batch "
             "normalises to the mathematical batch; wrong sizes are rejected. The container x dtype x shape x entry-point matrix is FINITE and enumerated exhaustively on the "
             "implementation (~1300 cells: bfs, path queries, beam search, random walks, apply_path, MITM, find_path, definitions, create_graph; list/nested/str/np.int8..int64/"
             "uint8/torch dtypes; flat/1-row/matrix-shaped; encoded/un-encoded; permutation/matrix), each cell compared with the plain-list cell.",
        note="PARTIAL: the theorem covers the conversion model only; torch's real conversion rules are validated by the exhaustive enumeration and a dtype round-trip correspondence.",
        technique="Coq proof about the conversion model + exhaustive finite enumeration against the implementation",
        design="7 (C13)"),
    "C18": dict(
        text="Coq theorems about SaveLoad.v: load(save r) = r for every well-formed result (any names, central state, subset of stored layers, hashes or none, edges or none); the "
             "strip/int key trick parses back; equality is sound and distinguishes results differing in any field. Tie: the model's store is compared with the raw content of "
             "the file h5py wrote and the model's load with BfsResult.load (all option combinations, seeds including 0, non-ASCII and quote-bearing names); a loaded result "
             "answers path queries on a fresh graph with the same seed as the original did.",
        note="PARTIAL: h5py/HDF5 is an abstract key->array store. Trusted: Coq kernel, model SaveLoad.v.",
        technique="Coq proof (string/decimal round trip) + model/implementation correspondence on real files",
        design="7 (C18)"),
    "C04": dict(
        text="Coq theorems about the model of restore_path / find_path_to / find_path_from / revert_path (Paths.v), for every graph instance with an inverted copy, every ball "
             "depth and every query in U, under NoColl: a returned path replays from the central state to the query and its length is the true distance (dist_is); 'no path' "
             "exactly when the state is in none of the layers 0..D; the internal assertion cannot fire; reverted paths are valid. The ball's hash layers are those C09_bfs_prefix "
             "delivers. Tie: the path model runs in Coq on the balls/queries the implementation ran on (inside / boundary / outside ball / outside orbit; permutation and "
             "invertible matrix graphs) with exact equality of returned paths, plus path replay and distance by the naive oracle.",
        note="Trusted: Coq kernel; models Paths.v/Bfs.v/GraphImpl.v/Def.v; torch.isin/searchsorted/nonzero as modelled; np.linalg.inv results enter as data re-checked by the model; NoColl.",
        technique="Coq proof (backward induction over layers) + model/implementation correspondence",
        design="7 (C04)"),
    "C05": dict(
        text="Coq theorems: MITM from a ball of depth D is sound, complete and exact up to distance 2D and returns nothing beyond (mitm_to_sound/complete/none/exact); the "
             "synchronous set-to-set search returns a path from a member of the start set to a member of the destination set of globally minimal length whenever that minimum "
             "is <= 2*max_diameter (0 when the sets intersect) and nothing otherwise (between_sound/complete/none), for start/destination lists of any size, order, with "
             "duplicates; the interactive BFS computes the true layers from any start list. Tie: Mitm.v/Interactive.v evaluated in Coq on the implementation's cases, exact "
             "equality of results; all-pairs naive oracle.",
        note="Trusted: as C04. The model of MITM tries the first collected middle state (later ones only matter under hash collisions, excluded by NoColl). "
             "Hypothesis 'small': backward layers stay below the 10^12 size limit.",
        technique="Coq proof (meeting-order invariant over two BFS fronts) + model/implementation correspondence",
        design="7 (C05)"),
    "C08": dict(
        text="Coq theorems about the BFS model with return_all_edges: on a completed run the edge list is exactly {(hash v, hash g(v)) | v in the orbit, g a generator}; on an "
             "interrupted run exactly the out-edges of the non-final layers plus the reversals of the last expansion; states and hashes of every stored layer are aligned (vertex "
             "numbering is consistent). Tie: BFS model with edges compared exactly with the implementation; the renumbering/naming model Export.v (hashes_to_indices, "
             "edges_list, vertex_name, get_edge_name) compared exactly AND proved (C08_hashes_to_indices_iff, C08_edges_list_iff, C08_numbering_consistent, C08_edge_name_spec, "
             "C08_vertex_name_injective) and composed with the BFS theorems: on a completed run the exported numbering and edge list describe exactly the Schreier graph on the "
             "orbit, every edge gets the name of a generator realising it, vertex names are distinct (C08_export_is_schreier_graph, C08_export_edge_names, "
             "C08_export_vertex_names_distinct); dense and sparse adjacency matrices, named undirected edges and the labelled networkx dictionary are modelled (ExportMatrices.v), "
             "proved (entry at (i,j) iff some generator maps state i to state j, symmetric iff inverse-closed, labels = first generator: C08_export_adjacency_is_schreier, "
             "C08_export_named_undirected, C08_export_nx_directed_labels) and compared with what numpy/scipy return; symmetry and labels are also checked against the true graph by the oracle.",
        note="Trusted: as C01; networkx containers compared as sets of triples; matrix-graph vertex names (numpy repr) are not modelled.",
        technique="Coq proof (edge-block invariant through the BFS loop) + model/implementation correspondence",
        design="7 (C08)"),
    "C10": dict(
        text="Coq theorems about Def.v: the inverse permutation undoes the permutation on every sequence; generator i of the inverted definition undoes generator i; the inverse "
             "map (dict semantics) is correct and is None exactly when some inverse is missing; make_inverse_closed keeps generators/names/order, appends exactly the missing "
             "inverses, yields a closed definition and is idempotent; MatrixGenerator.inv, for ANY float-inverse candidate, returns a TWO-sided inverse that undoes the generator "
             "on states (via MathComp mulmx1C over Z/2^64 and Z/m), and rejects non-inverses. Tie: exact equality model = implementation on random generator lists "
             "(repeats, identity, involutions), unimodular and modular matrices with the recorded np.linalg.inv result as oracle.",
        note="Trusted: Coq kernel, MathComp 1.15 (axiom-free here), model Def.v. Completeness of inv ('succeeds whenever an integer inverse exists'): after fix F24 the code falls back "
             "to an exact rational inverse; the model takes both candidates as oracle arguments (DefRun.mat_inv_fb) and proves that inv succeeds whenever the fallback delivers a right "
             "inverse (mat_inv_fb_complete), for ANY float candidate; the fallback itself is modelled step by step (IntInverse.v) and proved sound AND complete (C10_integer_inverse_spec), "
             "hence inv succeeds for every integer matrix with an int64 integer inverse (C10_mat_inv_fb_integer_inverse); the model of the fallback is compared with _integer_inverse on "
             "every call of the run and on direct calls (singular, non-integral, large unimodular), and with an independent adjugate oracle.",
        technique="Coq proof (lists + MathComp bridge) + oracle-recorded correspondence",
        design="7 (C10)"),
    "C12": dict(
        text="Coq theorems about the model of cayleypy.find_path for graphs without a pre-trained model (both the inverse-closed and the directed branch): any returned sequence "
             "replays from the start state to the central state and is shortest; a path of exactly the distance is returned whenever the distance is at most twice the depth of the "
             "cached ball; nothing is returned only when no such path exists. Tie: query sequences on ONE object (cache filled by the first call's arguments) compared exactly "
             "with the model; replay + distance oracle.",
        note="Trusted: as C05. Graph names with a pre-trained model need the network and are excluded (zoo graphs are unnamed). History: the cache is modelled as 'ball computed "
             "from the first call's arguments'.",
        technique="Coq proof (corollary of MITM exactness) + correspondence on query histories",
        design="7 (C12)"),
    "C19": dict(
        text="Coq theorems: the Hamming heuristic equals the number of mismatching positions, is 0 exactly for the central state, the zero heuristic is 0, and batched scoring "
             "equals unbatched scoring in the same order for every batch size and every row-wise predictor. Tie: exact equality with the implementation on vector- and "
             "matrix-shaped states, batch sizes 1..|batch|+1, callable predictors.",
        note="Trusted: Coq kernel; model Predictor.v; torch !=/sum/tensor_split/hstack semantics.",
        technique="Coq proof (induction) + model/implementation correspondence",
        design="7 (C19)"),
    "C01": dict(
        text="Coq theorems about a statement-by-statement Gallina model of BfsAlgorithm.bfs (hash-sorted de-duplication, binary-search subtraction of seen layers, "
             "batched expansion with cross-batch subtraction, two-layer window for inverse-closed generators, the three breaks): for EVERY graph instance, non-empty start "
             "list, configuration and callback, under NoColl (hash injective on the states of the run) an exhaustive run reports exactly the textbook layers, which are proved "
             "to be the distance classes (ref_layers_dist); it reports completion when no limit can fire; two configurations give the same sizes and layer sets. END TO END "
             "(InstPerm/InstBfs/InstMatrixBfs): for the concrete implementation model impl_of d of any well-formed permutation or matrix description all structural hypotheses "
             "are discharged, NoColl is the only one left, and for one-word identity-hash codes none is left (C01_perm_identity_hash_unconditional); every run records how many "
             "of its cases satisfy these hypotheses. "
             "Tie: the model is evaluated in Coq on the same zoo cases as the implementation (permutation/matrix, directed, multi-word, batched) and every observable "
             "(sizes, stored layers in order, per-layer hashes, edge list, flag) must be equal; hash constants regenerated by T1; isin_via_searchsorted haystacks monitored; "
             "naive Python BFS oracle evaluates the property itself.",
        note="Trusted: Coq kernel + vm_compute; model files Bfs.v/GraphImpl.v/Tensor.v/Hash.v/Codec.v (validated by correspondence); torch sort/unique/searchsorted/tensor_split "
             "semantics as modelled; NoColl hypothesis (C03 says what is provable about it); the symmetric-graph hypothesis for the window is the inverse-closed flag (C10).",
        technique="Coq proof (loop invariant over the BFS model, unbounded) + model/implementation correspondence + contract monitors",
        design="7 (C01)"),
    "C03": dict(
        text="Coq theorems about the hash model (steps and multiplier regenerated from hasher.py on every run): the mixer is a bijection of 64-bit words, multi-word states "
             "differing in one word never collide for any seed, identity hash injective, chunked hashing = row-wise hashing, no pair of small vectors collides for every "
             "dot-product hasher; the arithmetic-shift variant (the repaired defect) is refuted for every seed, and the full statement is REFUTED for the repaired hash by a "
             "proved seed-independent collision (known finding F16, replayed on the implementation on every run). Tie: T1 + correspondence of make_hashes (three kinds, both "
             "chunked paths) and get_unique_states; adversarial structured pairs under 5 seeds; BFS on whole-word-pattern graphs.",
        note="Trusted: Coq kernel; T1 translator; torch int64 operator semantics (W64.v). get_unique_states' set-level spec is proved in BfsStep.gus_spec under NoColl. "
             "Open known finding F16 is printed as KNOWN-FINDING.",
        technique="Coq proof (bit-level/number-theoretic) + refutation theorem + translator-regenerated constants + correspondence",
        design="7 (C03)"),
    "C09": dict(
        text="One Coq theorem (C09_bfs_prefix, 14 conjuncts) about the BFS model for every graph, start list, max_diameter, size limit, storage threshold and callback: reported "
             "sizes are the true layer sizes of a prefix; completion iff an empty next layer was observed; an interrupted run stopped for one of the three documented reasons and no "
             "earlier stop was missed; stored layers are the true layers and are stored exactly per the threshold rule; per-layer hashes are the strictly sorted hashes of exactly "
             "each reported layer; the callback trace is 1,2,... once each. Tie: correspondence on limit grids (coinciding limits, callbacks firing on first/last/no layer, "
             "hashes x batching) + oracle of the documented rule on true layers.",
        note="Same trusted base as C01. Interpretation: the size rule breaks before the callback is called on that layer (documented in DESIGN.md C09).",
        technique="Coq proof (same invariant as C01) + model/implementation correspondence",
        design="7 (C09)"),
    "C02": dict(
        text="Coq theorems about a Gallina model of string_encoder.py and the matrix action: decode(encode s)=s for every width 1..64, length and "
             "admissible state; the generated mask/shift/or routine equals the permutation on EVERY input word vector bit by bit (C02_emit_correct, "
             "unbounded in p, w, n, x), hence the action new[j]=old[p[j]] on encoded states; 1-D variant; gather action; exact modular matrix product "
             "for 2<=m<=2^31; least automatic width. Tie: translator T1 regenerates constants/_one_shifted/_mask_with_high_zeros/auto-width expression "
             "(equalities re-proved each run); T3 captures every routine text the library generates in the run, parses it with a whitelist grammar and "
             "Coq checks it equal to the model's emitted program and evaluates both on the same words; encode/decode/neighbours/apply_path/matrix "
             "actions compared on zoo graphs.",
        note="Trusted: Coq kernel + vm_compute, model Codec.v/Matrix.v, translators T1/T3, torch/numpy int64 operator semantics (W64.v), Python exec. "
             "Float log2 of the automatic width assumed exact below 2^52.",
        technique="Coq proof (bit-level, unbounded) + translation validation of generated routines + model/implementation correspondence",
        design="7 (C02)"),
    "C20": dict(
        text="Machine-checked Coq theorems about a Gallina model of permutation_utils.py: apply/compose/inverse group laws and "
             "is_permutation for every permutation of every length (unbounded, by induction); cycle construction and "
             "partition_to_permutation for all disjoint cycle lists / all shuffles; conjugacy-class enumeration for EVERY n: the canonical "
             "backtracking enumeration returns exactly the permutations with the requested cycle type, each once, n!/prod k^m_k m_k! of them "
             "(C20_class_enum_In_iff, C20_class_enum_NoDup, C20_class_enum_count; the earlier bounded n<=6 statement is kept). The model is tied to the code by evaluating it inside Coq on the "
             "same inputs as the implementation (exhaustive for small n, exact output equality, error classes included).",
        note="Trusted: Coq kernel + vm_compute, the hand-written model Perm.v (validated by the correspondence), CPython list semantics, "
             "harness generators.",
        technique="Coq proof (induction; class enumeration sound, complete, duplicate-free and counted for every n) + model/implementation correspondence",
        design="7 (C20)"),
}

NA_REASON = {}

ALL = ["C%02d" % i for i in range(1, 21)]


def main():
    checks = []
    for pid in ALL:
        if pid not in CHECKS:
            continue
        c = CHECKS[pid]
        checks.append({
            "property_id": pid,
            "quick_cmd": f"./check {pid} --tier quick",
            "thorough_cmd": f"./check {pid} --tier thorough",
            "evidence_file": f"/verif/evidence/{pid}.json",
            "replay_cmd_template": f"./check {pid} --replay {{path}}",
            "engine": "coq-model+correspondence",
            "level_claimed": {"category": "proof", "text": c["text"], "design_ref": "DESIGN.md section " + c["design"]},
            "level_note": c["note"],
            "technique": c["technique"],
        })
    na = [{"property_id": p, "reason": NA_REASON.get(p, "check not built yet in this development (work in progress; see DESIGN.md section 10 build order)")}
          for p in ALL if p not in CHECKS]
    m = {
        "version": 1,
        "setup_cmd": "./setup.sh --clean",
        "hooks": {
            "guard": "CAYLEYPY_VERIF",
            "enable": "no source hooks: the harness wraps module attributes from its own process (reserved guard, unused)",
            "baseline_off_cmd": "cd /repo && /venv/bin/python -m pytest -ra -q -p no:cacheprovider --timeout=900 --continue-on-collection-errors",
            "source_commits": [],
            "add_only": True,
        },
        "engines": [{
            "name": "coq-model+correspondence",
            "path": "/verif/coq, /verif/harness",
            "serves_properties": [c["property_id"] for c in checks],
            "kind_free_text": "Gallina models + theorems (Coq 8.16.1, full .vo build); models evaluated by coqc/vm_compute on the inputs the "
                              "implementation ran on; fail-closed Python-ast translators regenerate coq/gen on every run; naive Python oracle for replays",
        }],
        "checks": checks,
        "notes": "See DESIGN.md. known_findings.json lists recorded genuine defects and fixed ones.",
        "not_applicable": na,
    }
    with open(os.path.join(VERIF, "MANIFEST.json"), "w") as f:
        json.dump(m, f, indent=1)


if __name__ == "__main__":
    main()
