"""Writes MANIFEST.json from the table below (kept in one place so it is always valid)."""
import json
import os

VERIF = os.path.dirname(os.path.dirname(os.path.abspath(__file__)))

CHECKS = {
    "C02": dict(
        text="Coq theorems about a Gallina model of string_encoder.py and the matrix action: decode(encode s)=s for every width 1..64, length and "
             "admissible state; the generated mask/shift/or routine equals the permutation on EVERY input word vector bit by bit (C02_emit_correct, "
             "unbounded in p, w, n, x), hence the action new[j]=old[p[j]] on encoded states; 1-D variant; gather action; exact modular matrix product "
             "for 2<=m<=2^31; least automatic width. Tie: translator T1 regenerates constants/_one_shifted/_mask_with_high_zeros/auto-width expression "
             "(equalities re-proved each run); T3 captures every routine text the library generates in the run, parses it with a whitelist grammar and "
             "Coq checks it equal to the model's emitted program and evaluates both on the same words; encode/decode/neighbours/apply_path/matrix "
             "actions compared on zoo graphs.",
        note="Trusted: Coq kernel + vm_compute, model Codec.v/Matrix.v, translators T1/T3, torch/numpy int64 operator semantics (W64.v), Python exec. "
             "Float log2 of the automatic width assumed exact below 2^52.",
        technique="Coq proof (bit-level, unbounded) + translation validation of generated routines + model/implementation correspondence",
        design="7 (C02)"),
    "C20": dict(
        text="Machine-checked Coq theorems about a Gallina model of permutation_utils.py: apply/compose/inverse group laws and "
             "is_permutation for every permutation of every length (unbounded, by induction); cycle construction and "
             "partition_to_permutation for all disjoint cycle lists / all shuffles; conjugacy-class enumeration exhaustively for "
             "n<=6 (bound in the statement, kernel computation). The model is tied to the code by evaluating it inside Coq on the "
             "same inputs as the implementation (exhaustive for small n, exact output equality, error classes included).",
        note="Trusted: Coq kernel + vm_compute, the hand-written model Perm.v (validated by the correspondence), CPython list semantics, "
             "harness generators. Class enumeration for general n is not proved (bounded statement).",
        technique="Coq proof (induction) + vm_compute-exhaustive bounded theorem + model/implementation correspondence",
        design="7 (C20)"),
}

ALL = ["C%02d" % i for i in range(1, 21)]


def main():
    checks = []
    for pid in ALL:
        if pid not in CHECKS:
            continue
        c = CHECKS[pid]
        checks.append({
            "property_id": pid,
            "quick_cmd": f"./check {pid} --tier quick",
            "thorough_cmd": f"./check {pid} --tier thorough",
            "evidence_file": f"/verif/evidence/{pid}.json",
            "replay_cmd_template": f"./check {pid} --replay {{path}}",
            "engine": "coq-model+correspondence",
            "level_claimed": {"category": "proof", "text": c["text"], "design_ref": "DESIGN.md section " + c["design"]},
            "level_note": c["note"],
            "technique": c["technique"],
        })
    na = [{"property_id": p, "reason": "check not built yet in this development (work in progress; see DESIGN.md section 10 build order)"}
          for p in ALL if p not in CHECKS]
    m = {
        "version": 1,
        "setup_cmd": "./setup.sh --clean",
        "hooks": {
            "guard": "CAYLEYPY_VERIF",
            "enable": "no source hooks: the harness wraps module attributes from its own process (reserved guard, unused)",
            "baseline_off_cmd": "cd /repo && /venv/bin/python -m pytest -ra -q -p no:cacheprovider --timeout=900 --continue-on-collection-errors",
            "source_commits": [],
            "add_only": True,
        },
        "engines": [{
            "name": "coq-model+correspondence",
            "path": "/verif/coq, /verif/harness",
            "serves_properties": [c["property_id"] for c in checks],
            "kind_free_text": "Gallina models + theorems (Coq 8.16.1, full .vo build); models evaluated by coqc/vm_compute on the inputs the "
                              "implementation ran on; fail-closed Python-ast translators regenerate coq/gen on every run; naive Python oracle for replays",
        }],
        "checks": checks,
        "notes": "See DESIGN.md. known_findings.json lists recorded genuine defects and fixed ones.",
        "not_applicable": na,
    }
    with open(os.path.join(VERIF, "MANIFEST.json"), "w") as f:
        json.dump(m, f, indent=1)


if __name__ == "__main__":
    main()
