"""C07 - random walks only visit real vertices along real edges with honest step counts."""
import graphs as G
from common import cz, czl, czll, cnl, cnll, clist, TieBroken


class TorchProxy:
    """Stands in for the torch module inside cayleypy.algo.random_walks: records every random draw."""

    def __init__(self, real, rec):
        self._real = real
        self._rec = rec

    def __getattr__(self, name):
        return getattr(self._real, name)

    def randint(self, *a, **k):
        r = self._real.randint(*a, **k)
        self._rec["randint"].append([int(v) for v in r.tolist()])
        return r

    def randperm(self, *a, **k):
        r = self._real.randperm(*a, **k)
        self._rec["randperm"].append([int(v) for v in r.tolist()])
        return r


def exact_reach_sets(gd, start, kmax):
    k = G.n_gens(gd)
    cur = {tuple(start)}
    out = [cur]
    for _ in range(kmax):
        cur = {G.act(gd, i, s) for s in cur for i in range(k)}
        out.append(cur)
    return out


def check_walk(gd, mode, width, length, start, x, y, depth):
    """The property C07 on one output. Returns None or a message."""
    k = G.n_gens(gd)
    if len(x) != len(y):
        return "x and y have different lengths"
    if not x or [tuple(s) for s in x[: min(width, len(x)) if mode != 'bfs' else 1]] != [tuple(start)] * (min(width, len(x)) if mode != "bfs" else 1):
        return "the output does not start with the start state"
    reach = exact_reach_sets(gd, start, max(y) if y else 0)
    for i, (s, d) in enumerate(zip(x, y)):
        if d < 0 or tuple(s) not in reach[d]:
            return f"x[{i}] is not the end of any walk of exactly y[{i}]={d} edges from the start state"
    if mode == "classic":
        if len(x) != width * length:
            return f"classic mode returned {len(x)} rows, expected width*length = {width * length}"
        if y != [i // width for i in range(width * length)]:
            return "classic mode: y does not count the steps 0..length-1"
        for i in range(width, len(x)):
            prev = tuple(x[i - width])
            if tuple(x[i]) not in {G.act(gd, g, prev) for g in range(k)}:
                return f"classic mode: x[{i}] is not a neighbour of x[{i - width}]"
    if mode == "nbt" and len(x) != width * length:
        return f"nbt mode returned {len(x)} rows, expected {width * length}"
    if mode == "bfs":
        if len({tuple(s) for s in x}) != len(x):
            return "bfs mode returned a state twice"
        layers, dist = G.ref_bfs(gd, [start])
        if width >= max(len(l) for l in layers) and length > len(layers) - 1:
            got = {tuple(s): d for s, d in zip(x, y)}
            if got != dist:
                return "bfs mode with a wide enough beam did not return all vertices with their true distances"
    return None


def run(ctx):
    import torch
    import translators
    import cayleypy.algo.random_walks as rw
    translators.gen_all(strict=True)
    rng = ctx.rng
    ctx.cov["trusted_base"] = ["Coq 8.16.1 kernel (vm_compute)", "model Walks.v/GraphImpl.v validated here; random draws enter as recorded oracle values (torch.randint, torch.randperm)",
                               "translator T1 (hash constants)", "harness generators; exact-k reachability oracle in pure Python"]
    ctx.cov["rule"] = ("case = (graph, configuration, mode, width, length, nbt history depth, start state, recorded draws); non-trivial when >= 2 steps are taken "
                       "(bfs mode: at least one thinning); distinct by canonical JSON")
    ctx.prove(extra=["AlgoRun"])
    if not hasattr(rw, "torch"):
        raise TieBroken("cayleypy.algo.random_walks no longer imports torch as a module attribute: draws cannot be observed")
    rec = {"randint": [], "randperm": []}
    real_torch = rw.torch
    rw.torch = TorchProxy(real_torch, rec)
    cases, metas = [], []
    try:
        for it_ in range(ctx.budget(150, 1500)):
            crowded = it_ % 5 == 4
            gd = G.gen_graph(rng, cap=30 if crowded else 400)
            layers, dist = G.ref_bfs(gd, [gd["central"]])
            cfgd = G.gen_config(rng, gd)
            graph = G.make_graph(gd, cfgd)
            mode = rng.choice(["classic", "bfs", "nbt", "bfs", "nbt"])
            width = rng.choice([1, 2, 3, 5, 8, max(len(l) for l in layers), max(len(l) for l in layers) + 1])
            length = rng.choice([1, 2, 3, 5, len(layers), len(layers) + 2, 14])
            depth = rng.choice([0, 0, 1, 2, 3]) if mode == "nbt" else 0
            if crowded:
                # many non-backtracking walkers with a long memory on a tiny graph: the fresh neighbour rows run out (0 < fresh < width, and fresh = 0)
                mode, width, length, depth = "nbt", rng.choice([4, 8, 16, 40]), rng.choice([8, 14, 20]), rng.choice([1, 2, 3, 5, 8])
                ctx.count("nbt_crowded")
            start = None if rng.random() < 0.5 else list(rng.choice(sorted(dist)))
            kw = dict(width=width, length=length, mode=mode)
            if start is not None:
                r = rng.random()
                # as a list, or as a NumPy array / tensor of any integer type that holds the symbols
                kw["start_state"] = start if r < 0.4 else G.in_container(G.pick_container(rng, start, 0.0), start)
            if mode == "nbt":
                kw["nbt_history_depth"] = depth
            rec["randint"].clear(); rec["randperm"].clear()
            torch.manual_seed(rng.randrange(2**31))
            case = {"graph": gd, "config": cfgd, "mode": mode, "width": width, "length": length, "depth": depth, "start": start}
            try:
                x, y = graph.random_walks(**kw)
            except Exception as ex:  # pylint: disable=broad-except
                ctx.violation("property_fails", f"random_walks raised {type(ex).__name__}: {str(ex)[:100]}", case, True)
                continue
            xs = G.flat_states(x)
            ys = [int(v) for v in y.tolist()]
            st = start if start is not None else list(gd["central"])
            msg = check_walk(gd, mode, width, length, st, xs, ys, depth)
            thinned = mode == "bfs" and len(rec["randperm"]) > 0
            ctx.case_seen(case, (length >= 3 and mode != "bfs") or thinned)
            ctx.count("mode_" + mode + ("_depth0" if mode == "nbt" and depth == 0 else ""))
            if thinned:
                ctx.count("bfs_thinnings", len(rec["randperm"]))
            if msg:
                ctx.violation("property_fails", msg, dict(case, draws=dict(randint=list(rec["randint"]), randperm=list(rec["randperm"]))), True)
            if mode == "classic":
                m = f"(WClassic {cnll(rec['randint'])})"
            elif mode == "bfs":
                m = f"(WBfs {cnll(rec['randperm'])})"
            else:
                m = f"(WNbt {depth}%nat {cnll(rec['randperm'])})"
            cases.append(f"(Build_walk_case {G.coq_gdesc(gd, graph)} {m} {width}%nat {length}%nat {czl(st)} {czll(xs)} {cnl(ys)})")
            metas.append(case)
    finally:
        rw.torch = real_torch
    # one VERY long output (more than 2^24 rows: above that, row numbers are not exact in float32): the two-vertex graph of one transposition; every walk
    # alternates between the two states, so the whole output is known: y[i] = i // width, x[i] = start if y[i] is even else the other state
    import gc
    from cayleypy import CayleyGraph, CayleyGraphDef
    big_w, big_l = 2 ** 22 + 3, 5                                   # 20 971 535 rows > 2^24 = 16 777 216
    gbig = CayleyGraph(CayleyGraphDef.create([[1, 0]]), device="cpu")
    try:
        xb, yb = gbig.random_walks(width=big_w, length=big_l, mode="classic")
        okb = int(xb.shape[0]) == big_w * big_l and int(yb.shape[0]) == big_w * big_l
        if okb:
            want_y = torch.arange(big_w * big_l, dtype=torch.int64) // big_w
            okb = bool(torch.equal(yb.to(torch.int64), want_y)) and bool(torch.equal(xb.reshape(-1, 2)[:, 0].to(torch.int64), want_y % 2))
            del want_y
        ctx.count("huge_classic_walk_rows", big_w * big_l)
        if not okb:
            ctx.violation("property_fails", f"classic walks with width {big_w} and length {big_l} ({big_w * big_l} rows) on the two-vertex graph: y is not the step count "
                          "i // width or x does not alternate between the two states", {"graph": {"kind": "perm", "gens": [[1, 0]], "central": [0, 1]}, "mode": "classic",
                                                                                         "width": big_w, "length": big_l, "claim": "huge_output"}, True)
        del xb, yb
    except MemoryError:
        ctx.count("huge_classic_walk_skipped_no_memory")
    gc.collect()
    ctx.sample(metas[0]); ctx.sample(metas[-1])
    bad = ctx.coq_failing("Base GraphImpl Hash Walks AlgoRun BfsRun", "", "walk_case", cases, "check_walk_case", "walks", shard=ctx.budget(25, 50))
    ctx.cov["disagreements_checked"] = len(cases)
    for i in bad[:3]:
        ctx.violation("correspondence", "random-walk model (with the recorded draws) differs from the implementation", metas[i], False)


def replay(ctx, obj):
    import torch
    case = obj.get("case", {})
    if obj.get("kind") == "property_fails" and "mode" in case:
        gd = case["graph"]
        graph = G.make_graph(gd, case["config"])
        kw = dict(width=case["width"], length=case["length"], mode=case["mode"])
        if case.get("start") is not None:
            kw["start_state"] = case["start"]
        if case["mode"] == "nbt":
            kw["nbt_history_depth"] = case["depth"]
        msg = None
        for seed in range(5):
            torch.manual_seed(seed)
            try:
                x, y = graph.random_walks(**kw)
            except Exception as ex:  # pylint: disable=broad-except
                return f"random_walks raised {type(ex).__name__}"
            msg = check_walk(gd, case["mode"], case["width"], case["length"], case.get("start") or gd["central"], G.flat_states(x), [int(v) for v in y.tolist()], case["depth"])
            if msg:
                return msg
        return None
    run(ctx)
    return "; ".join(v["what"] for v in ctx.violations[:3]) or None
