"""C15 - library graph families: every constructor of PermutationGroups / MatrixGroups returns the documented
generators; name lookup (prepare_graph / create_graph) returns the same definition as the constructor.

(a) correspondence  : exhaustive over a bounded parameter domain, model Families.v = implementation,
                      compared inside Coq (FamiliesRun.check_pcase / check_mcase);
(b) property oracle : pure Python, written from the docstrings, independent of the model;
(c) name dispatch   : translator T4 (t4_dispatch.py) + lookup == constructor, own name -> same definition;
(d) evidence.
"""
import itertools
import math
import random as pyrandom
import time

from common import cz, czl, cnl, cnll, clist, cstr, cbool, copt, TieBroken
import t4_dispatch

ERR = {"AssertionError": "AssertionErr", "ValueError": "ValueErr", "IndexError": "IndexErr", "KeyError": "KeyErr",
       "TypeError": "TypeErr", "RuntimeError": "RuntimeErr"}


def Z(v):
    return cz(v) + "%Z"


# ================================================================================================
# parameter domains (bounded, exhaustive).  Every entry: (python positional args, python kwargs, Coq call)
# ================================================================================================
def _n_only(coq):
    return lambda N: [((n,), {}, f"({coq} {Z(n)})") for n in range(-1, N + 1)]


def _dom_lrx(N):
    out = [((n,), {}, f"(CLrx {Z(n)} {Z(1)})") for n in range(1, N + 1)]                # default k = 1
    out += [((n, k), {}, f"(CLrx {Z(n)} {Z(k)})") for n in range(1, N + 1) for k in range(-1, n + 2)]
    return out


def _dom_top_spin(N):
    out = [((n,), {}, f"(CTopSpin {Z(n)} {Z(4)})") for n in range(1, N + 1)]            # default k = 4
    out += [((n, k), {}, f"(CTopSpin {Z(n)} {Z(k)})") for n in range(0, N + 1) for k in range(-1, n + 2)]
    return out


def _dom_nk(coq, klo, khi_off, nlo=0):
    return lambda N: [((n, k), {}, f"({coq} {Z(n)} {Z(k)})") for n in range(nlo, N + 1) for k in range(klo, n + khi_off + 1)]


def _dom_cubic(N):
    return [((n, s), {}, f"(CCubicPancake {Z(n)} {Z(s)})") for n in range(0, N + 1) for s in range(0, 9)]


def _dom_nbool(coq, default):
    def f(N):
        out = [((n,), {}, f"({coq} {Z(n)} {cbool(default)})") for n in range(1, N + 1)]
        out += [((n, b), {}, f"({coq} {Z(n)} {cbool(b)})") for n in range(0, N + 1) for b in (True, False)]
        return out
    return f


def _dom_koltsov(N):
    out = [((n,), {}, f"(CKoltsov3 {Z(n)} {Z(2)} {Z(1)} {Z(1)})") for n in range(0, N + 1)]       # defaults
    for n in range(0, N + 1):
        for t in (0, 1, 2, 3):
            for k in range(-1, n + 1):
                for d in range(-1, n + 1):
                    if t == 2 and d != 1:
                        continue            # d is not read for type 2 (one value is enough)
                    out.append(((n, t, k, d), {}, f"(CKoltsov3 {Z(n)} {Z(t)} {Z(k)} {Z(d)})"))
    return out


# family -> (Coq constructor / domain builder, quick bound, thorough bound)
PERM_FAMILIES = [
    ("all_transpositions", _n_only("CAllTranspositions"), 6, 9),
    ("transposons", _n_only("CTransposons"), 6, 8),
    ("block_interchange", _n_only("CBlockInterchange"), 5, 8),
    ("full_reversals", _n_only("CFullReversals"), 6, 9),
    ("signed_reversals", _n_only("CSignedReversals"), 5, 8),
    ("lrx", _dom_lrx, 6, 9),
    ("lx", _n_only("CLx"), 6, 10),
    ("top_spin", _dom_top_spin, 6, 9),
    ("coxeter", _n_only("CCoxeter"), 6, 10),
    ("cyclic_coxeter", _n_only("CCyclicCoxeter"), 6, 10),
    ("pancake", _n_only("CPancake"), 6, 10),
    ("cubic_pancake", _dom_cubic, 6, 9),
    ("burnt_pancake", _n_only("CBurntPancake"), 5, 9),
    ("three_cycles", _n_only("CThreeCycles"), 5, 8),
    ("three_cycles_0ij", _n_only("CThreeCycles0ij"), 6, 9),
    ("three_cycles_01i", _dom_nbool("CThreeCycles01i", True), 6, 10),
    ("derangements", _n_only("CDerangements"), 5, 7),
    ("involutive_derangements", _n_only("CInvolutiveDerangements"), 6, 8),
    ("stars", _n_only("CStars"), 6, 10),
    ("generalized_stars", lambda N: [((n,), {}, f"(CGeneralizedStars {Z(n)} {Z(1)})") for n in range(2, N + 1)]
     + _dom_nk("CGeneralizedStars", -1, 1)(N), 6, 9),
    ("rapaport_m1", _n_only("CRapaportM1"), 6, 10),
    ("rapaport_m2", _n_only("CRapaportM2"), 6, 10),
    ("all_cycles", _n_only("CAllCycles"), 5, 7),
    ("lsl_cycles", _dom_nbool("CLslCycles", True), 6, 10),
    ("wrapped_k_cycles", _dom_nk("CWrappedKCycles", 0, 1), 6, 9),
    ("larx", _n_only("CLarx"), 6, 10),
    ("increasing_k_cycles", _dom_nk("CIncreasingKCycles", -1, 1), 6, 8),
    ("sheveleva2", _dom_nk("CSheveleva2", -1, 0), 7, 10),
    ("koltsov3", _dom_koltsov, 5, 7),
    ("consecutive_k_cycles", _dom_nk("CConsecutiveKCycles", -1, 1), 6, 9),
    ("down_cycles", _n_only("CDownCycles"), 6, 9),
    ("prefix_cycles", _n_only("CPrefixCycles"), 6, 10),
]

MODULI_Q = [-1, 0, 1, 2, 3, 4, 5, 2**31, 2**31 + 1]
MODULI_T = [-2, -1, 0, 1, 2, 3, 4, 5, 6, 7, 9, 2**31 - 1, 2**31, 2**31 + 1]


def matrix_domain(ctx):
    mods = ctx.budget(MODULI_Q, MODULI_T)
    out = []
    nh = ctx.budget(5, 6)
    out.append(("heisenberg", (), {}, f"(CHeisenberg {Z(3)} {Z(0)} true)"))                               # all defaults
    for n in range(1, nh + 1):
        out.append(("heisenberg", (), {"n": n}, f"(CHeisenberg {Z(n)} {Z(0)} true)"))
        for m in mods:
            for b in (True, False):
                out.append(("heisenberg", (), {"n": n, "modulo": m, "add_inverses": b}, f"(CHeisenberg {Z(n)} {Z(m)} {cbool(b)})"))
    ns = ctx.budget(4, 5)
    for fam, coq in (("special_linear_fundamental_roots", "CSlFundRoots"), ("special_linear_root_weyl", "CSlRootWeyl")):
        for n in range(0, ns + 1):
            out.append((fam, (n,), {}, f"({coq} {Z(n)} {Z(0)})"))                                          # default modulo
            for m in mods:
                out.append((fam, (n, m), {}, f"({coq} {Z(n)} {Z(m)})"))
    return out


# ================================================================================================
# Coq literals of observed results
# ================================================================================================
def pdef_lit(d):
    return ("(mk_pdef " + cnll(d.generators_permutations) + " " + clist(d.generator_names, cstr) + " " + cstr(d.name)
            + " " + czl(d.central_state) + ")")


def mats_of(d):
    return [g.matrix.tolist() for g in d.generators_matrices]


def mdef_lit(d):
    mats = mats_of(d)
    mods = {g.modulo for g in d.generators_matrices}
    if len(mods) != 1:
        raise TieBroken("matrix definition with mixed moduli")
    return ("(mk_mdef " + clist(mats, lambda M: clist(M, lambda r: clist(r, cz))) + "%Z " + Z(mods.pop()) + " "
            + clist(d.generator_names, cstr) + " " + cstr(d.name) + " " + czl(d.central_state) + ")")


def observe(f, lit):
    """Runs f; returns (definition or None, Coq literal of type result _, exception class name or None)."""
    try:
        d = f()
    except Exception as ex:  # pylint: disable=broad-except
        nm = type(ex).__name__
        return None, "(Err " + ERR.get(nm, "RuntimeErr") + ")", nm
    return d, "(Ok " + lit(d) + ")", None


def def_fields(d):
    """Field-wise content of a definition (what the property compares)."""
    if d.is_permutation_group():
        gens = [list(map(int, g)) for g in d.generators_permutations]
    else:
        gens = [(g.matrix.tolist(), int(g.modulo)) for g in d.generators_matrices]
    return {"gens": gens, "names": list(d.generator_names), "name": d.name, "central": [int(v) for v in d.central_state]}


# ================================================================================================
# (b) the property oracle - written from the docstrings
# ================================================================================================
def act(p, x):
    """The library's convention (apply_permutation docstring / CayleyGraph): new[j] = old[p[j]]."""
    return tuple(x[p[j]] for j in range(len(p)))


def inverse(p):
    q = [0] * len(p)
    for i, v in enumerate(p):
        q[v] = i
    return q


def cycle_type(p):
    seen, out = set(), []
    for i in range(len(p)):
        if i in seen:
            continue
        j, c = i, 0
        while j not in seen:
            seen.add(j)
            j = p[j]
            c += 1
        out.append(c)
    return sorted(out, reverse=True)


def cycles_of(p):
    seen, out = set(), []
    for i in range(len(p)):
        if i in seen or p[i] == i:
            continue
        c, j = [], i
        while j not in seen:
            seen.add(j)
            c.append(j)
            j = p[j]
        out.append(c)
    return out


def swap(x, i, j):
    y = list(x)
    y[i], y[j] = y[j], y[i]
    return tuple(y)


def cyc_perm(n, c):
    """The cycle (c1 c2 ... ck) as a map: c_t -> c_{t+1} (docstring of permutation_from_cycles)."""
    p = list(range(n))
    for t, v in enumerate(c):
        p[v] = c[(t + 1) % len(c)]
    return p


def perm_group_order(gens, cap):
    """Order of the group generated (naive closure over tuples from the identity)."""
    n = len(gens[0])
    e = tuple(range(n))
    seen = {e}
    frontier = [e]
    while frontier:
        nxt = []
        for s in frontier:
            for p in gens:
                t = tuple(s[p[j]] for j in range(n))
                if t not in seen:
                    seen.add(t)
                    nxt.append(t)
        frontier = nxt
        if len(seen) > cap:
            return None
    return len(seen)


def mat_mul_mod(A, B, m):
    n = len(A)
    return tuple(tuple(sum(A[i][j] * B[j][k] for j in range(n)) % m for k in range(n)) for i in range(n))


def matrix_group_order(mats, m, cap):
    n = len(mats[0])
    e = tuple(tuple(1 if i == j else 0 for j in range(n)) for i in range(n))
    gs = [tuple(tuple(v % m for v in r) for r in M) for M in mats]
    seen = {e}
    frontier = [e]
    while frontier:
        nxt = []
        for s in frontier:
            for g in gs:
                t = mat_mul_mod(g, s, m)
                if t not in seen:
                    seen.add(t)
                    nxt.append(t)
        frontier = nxt
        if len(seen) > cap:
            return None
    return len(seen)


def factorize(m):
    out, p = {}, 2
    while p * p <= m:
        while m % p == 0:
            out[p] = out.get(p, 0) + 1
            m //= p
        p += 1
    if m > 1:
        out[m] = out.get(m, 0) + 1
    return out


def sl_order(n, m):
    """|SL(n, Z/m)| = prod over p^e || m of p^((e-1)(n^2-1)) * p^(n(n-1)/2) * prod_{i=2..n} (p^i - 1)."""
    r = 1
    for p, e in factorize(m).items():
        r *= p ** ((e - 1) * (n * n - 1)) * p ** (n * (n - 1) // 2) * math.prod(p ** i - 1 for i in range(2, n + 1))
    return r


def det_int(M):
    n = len(M)
    if n == 0:
        return 1
    if n == 1:
        return M[0][0]
    return sum((-1) ** j * M[0][j] * det_int([r[:j] + r[j + 1:] for r in M[1:]]) for j in range(n))


def subfactorial(n):
    return sum((-1) ** k * math.factorial(n) // math.factorial(k) for k in range(n + 1))


def signed_reverse(x, n, i, j):
    """x = bottoms x[0:n] + tops x[n:2n]; elements i..j reversed in order and turned over."""
    b, t = list(x[:n]), list(x[n:])
    nb, nt = b[:], t[:]
    for s in range(i, j + 1):
        nb[s] = t[i + j - s]
        nt[s] = b[i + j - s]
    return tuple(nb + nt)


def in_documented_range(fam, a):
    """The parameter range the docstring states (None: the docstring states none)."""
    g = lambda i, dflt=None: a[i] if len(a) > i else dflt  # noqa: E731
    n = g(0)
    table = {
        "all_transpositions": lambda: n >= 2, "transposons": lambda: n >= 2, "block_interchange": lambda: n >= 2,
        "full_reversals": lambda: n >= 2, "signed_reversals": lambda: n >= 1,
        "lrx": lambda: n >= 3 and 1 <= g(1, 1) < n, "lx": lambda: n >= 3, "top_spin": lambda: n >= g(1, 4) >= 2,
        "coxeter": lambda: n >= 2, "cyclic_coxeter": lambda: n >= 2, "pancake": lambda: n >= 2,
        "cubic_pancake": lambda: n >= 2 and 1 <= g(1) <= 7 and (n >= 3 or g(1) in (1, 3, 5)), "burnt_pancake": lambda: n >= 1,
        "three_cycles": lambda: n >= 3, "three_cycles_0ij": lambda: n >= 3, "three_cycles_01i": lambda: n >= 3,
        "all_cycles": lambda: n >= 2, "lsl_cycles": lambda: n >= 3, "wrapped_k_cycles": lambda: n >= 2 and 2 <= g(1) <= n,
        "larx": lambda: n >= 2, "increasing_k_cycles": lambda: n >= 1 and 1 <= g(1) <= n,
        "consecutive_k_cycles": lambda: n >= 1 and 1 <= g(1) <= n, "down_cycles": lambda: n >= 2, "prefix_cycles": lambda: n >= 2,
        "generalized_stars": lambda: n >= 3 and 1 <= g(1, 1) < n,
    }
    return table[fam]() if fam in table else None


# docstring wording that is self-inconsistent; the oracle adopts the reading under which the docstring agrees
# with its own first sentence, and says so in the evidence (nothing is checked against the other reading)
DOC_NOTES = {
    "signed_reversals": "docstring says both 'n(n+1)/2 substrings' and 'has n generators denoted R[1..1]..R[n..n]'; the list it "
                        "enumerates has n(n+1)/2 items; names are 0-based R[i..j] acting on indexes i..j,n+i..n+j (its last clause)",
    "cubic_pancake": "docstring: 'Ri is reverse of elements 0,1..i' cannot hold for Rn in S_n; read as: Ri reverses the first i elements "
                     "(the names used here differ by one from pancake(), where Ri reverses elements 0..i as documented)",
    "burnt_pancake": "docstring: 'Ri is reverse of elements 0..i,n..n+i' cannot hold for Rn on 2n points; read as: Ri turns over the first i pancakes",
    "heisenberg": "docstring: '4(n-2) generators when inverses are added': with modulo=2 every generator is its own inverse, "
                  "make_inverse_closed adds nothing and 2(n-2) generators are returned; read as: 4(n-2) when inverse generators are actually added",
}

# families whose docstring names the GENERATED group unambiguously (order asserted); everything else that says
# 'Cayley graph for S_n' names the ambient group (DESIGN.md C15) - the generated order is only recorded
ORDER_CHECKED = {"three_cycles_01i": "A_n: n!/2", "heisenberg": "Heisenberg group mod m: m^(2n-3) (modulo>0)",
                 "special_linear_fundamental_roots": "SL(n,Z/m) (modulo>0)", "special_linear_root_weyl": "SL(n,Z/m) (modulo>0)"}


def oracle_perm(fam, a, d, order_cap):
    """Checks one constructed permutation definition against its docstring. Returns (messages, info)."""
    msgs, info = [], {}
    gens = [list(map(int, g)) for g in d.generators_permutations]
    names = list(d.generator_names)
    n = a[0]
    size = 2 * n if fam in ("signed_reversals", "burnt_pancake") else n
    if d.state_size != size or any(sorted(g) != list(range(size)) for g in gens):
        msgs.append(f"a generator is not a permutation of the documented length {size}")
        return msgs, info
    if len(names) != len(gens):
        msgs.append("number of names differs from the number of generators")
    if list(d.central_state) != list(range(size)):
        msgs.append("central state is not the identity permutation")
    x = tuple(100 + 7 * i for i in range(size))
    acts = [act(p, x) for p in gens]
    idx = range(size)

    def want_list(exp, what):
        if acts != list(exp):
            msgs.append(f"generators do not act as documented ({what}); expected images of x in order {list(exp)[:4]}..., got {acts[:4]}...")

    def want_set(exp, what):
        exp = set(exp)
        if set(acts) != exp:
            msgs.append(f"generator set is not the documented one ({what}): {len(set(acts) - exp)} unexpected, {len(exp - set(acts))} missing")

    def want_count(c):
        info["count_checked"] = True
        if len(gens) != c:
            msgs.append(f"{len(gens)} generators, documented {c}")

    def want_names(exp):
        info["names_checked"] = True
        if names != list(exp):
            msgs.append(f"generator names {names[:5]} differ from the documented {list(exp)[:5]}")

    documented_closed = None
    shl = x[1:] + x[:1]
    shr = x[-1:] + x[:-1]
    if fam == "all_transpositions":
        want_count(n * (n - 1) // 2)
        want_set((swap(x, i, j) for i in idx for j in idx if i < j), "all transpositions")
    elif fam == "transposons":
        exp = set()
        for s in range(n):
            for e in range(s + 1, n + 1):
                seg, rest = x[s:e], x[:s] + x[e:]
                for pos in range(len(rest) + 1):
                    if pos != s:
                        exp.add(rest[:pos] + seg + rest[pos:])
        want_set(exp, "every substring moved to every other place")
    elif fam == "block_interchange":
        want_set((x[:s] + x[u:v] + x[t:u] + x[s:t] + x[v:] for s in range(n) for t in range(s + 1, n + 1)
                  for u in range(t, n + 1) for v in range(u + 1, n + 1)), "interchange of two substrings")
    elif fam == "full_reversals":
        want_count(n * (n - 1) // 2)
        want_set((x[:i] + x[i:j + 1][::-1] + x[j + 1:] for i in idx for j in idx if i < j), "reversal of a substring")
    elif fam == "signed_reversals":
        want_count(n * (n + 1) // 2)
        pairs = [(i, j) for i in range(n) for j in range(i, n)]
        want_set((signed_reverse(x, n, i, j) for i, j in pairs), "signed reversal of elements i..j")
        for nm, im in zip(names, acts):                                     # R[i..j] (0-based reading, see DOC_NOTES)
            try:
                i, j = [int(v) for v in nm[2:-1].split("..")]
                if im != signed_reverse(x, n, i, j):
                    msgs.append(f"{nm} is not the signed reversal of elements {i}..{j}")
            except (ValueError, IndexError):
                msgs.append(f"name {nm!r} is not of the form R[i..j]")
    elif fam == "lrx":
        k = a[1] if len(a) > 1 else 1
        want_count(3)
        want_names(["L", "R", "X"])
        want_list([shl, shr, swap(x, 0, k)], "shift left, shift right, swap of elements 0 and k")
    elif fam == "lx":
        want_count(2)
        want_names(["L", "X"])
        want_list([shl, swap(x, 0, 1)], "left shift, swap of the first two elements")
        documented_closed = False
    elif fam == "top_spin":
        k = a[1] if len(a) > 1 else 4
        want_count(3)
        want_list([shl, shr, x[:k][::-1] + x[k:]], "shift left, shift right, reversal of the first k elements")
    elif fam in ("coxeter", "cyclic_coxeter"):
        prs = [(i, i + 1) for i in range(n - 1)] + ([(0, n - 1)] if fam == "cyclic_coxeter" else [])
        want_count(len(prs))
        want_names([f"({i},{j})" for i, j in prs])
        want_list([swap(x, i, j) for i, j in prs], "adjacent transpositions")
    elif fam == "pancake":
        want_count(n - 1)
        want_names([f"R{i}" for i in range(1, n)])
        want_list([x[:i + 1][::-1] + x[i + 1:] for i in range(1, n)], "Ri reverses elements 0..i")
    elif fam == "cubic_pancake":
        s = a[1]
        tab = {1: [n, n - 1, 2], 2: [n, n - 1, 3], 3: [n, n - 1, n - 2], 4: [n, n - 1, n - 3], 5: [n, n - 2, 2], 6: [n, n - 2, 3],
               7: [n, n - 2, n - 3]}[s]
        want_count(3)
        if sorted(names) != sorted(f"R{k}" for k in tab):
            msgs.append(f"names {names} are not the documented set {{{', '.join('R%d' % k for k in tab)}}}")
        info["names_checked"] = True
        for nm, im in zip(names, acts):
            k = int(nm[1:])
            if not 0 <= k <= n or im != x[:k][::-1] + x[k:]:
                msgs.append(f"{nm} is not the reversal of the first {k} elements")
    elif fam == "burnt_pancake":
        want_count(n)
        want_names([f"R{i}" for i in range(1, n + 1)])
        want_list([signed_reverse(x, n, 0, i - 1) for i in range(1, n + 1)], "Ri turns over the first i pancakes")
    elif fam == "three_cycles":
        want_set((act(cyc_perm(n, c), x) for c in itertools.permutations(range(n), 3) if c[0] == min(c)), "all 3-cycles")
    elif fam == "three_cycles_0ij":
        want_set((act(cyc_perm(n, (0, i, j)), x) for i in range(1, n) for j in range(1, n) if i != j), "3-cycles (0 i j)")
    elif fam == "three_cycles_01i":
        add = a[1] if len(a) > 1 else True
        base = [cyc_perm(n, (0, 1, i)) for i in range(2, n)]
        want_count((2 if add else 1) * (n - 2))
        want_set([act(p, x) for p in base] + ([act(inverse(p), x) for p in base] if add else []), "cycles (0 1 i), 2<=i<n (and inverses)")
        documented_closed = True if add else None
    elif fam == "derangements":
        want_set((act(p, x) for p in itertools.permutations(range(n)) if all(p[i] != i for i in range(n))), "all derangements")
        if len(gens) != subfactorial(n):
            msgs.append(f"{len(gens)} derangements, there are {subfactorial(n)}")
    elif fam == "involutive_derangements":
        want_set((act(p, x) for p in itertools.permutations(range(n)) if all(p[i] != i and p[p[i]] == i for i in range(n))),
                 "all involutions without fixed points")
    elif fam == "stars":
        want_list([swap(x, 0, i) for i in range(1, n)], "star transpositions (0 i)")
    elif fam == "generalized_stars":
        k = a[1] if len(a) > 1 else 1
        want_count(k * (n - k))
        want_set((swap(x, i, j) for i in range(k) for j in range(k, n)), "(i <-> j), i<k<=j")
    elif fam == "rapaport_m1":
        if any(act(p, act(p, x)) != x for p in gens):
            msgs.append("an M1 generator is not an involution")
        for nm, p in zip(names, gens):                          # the two series named in the source comments
            _, off, m = nm.split("_")
            if p != cyc_prod(n, [(int(off) + 2 * t, int(off) + 2 * t + 1) for t in range(int(m))]):
                msgs.append(f"{nm} is not the product of the first {m} transpositions ({off},{int(off) + 1})...")
    elif fam == "rapaport_m2":
        want_count(3)
        want_list([swap(x, 0, 1), act(cyc_prod(n, [(i, i + 1) for i in range(0, n - 1, 2)]), x),
                   act(cyc_prod(n, [(i, i + 1) for i in range(1, n - 1, 2)]), x)], "(0,1); (0,1)(2,3)...; (1,2)(3,4)...")
    elif fam == "all_cycles":
        want_set((act(p, x) for p in itertools.permutations(range(n)) if len(cycles_of(p)) == 1), "all cycles of length 2..n")
    elif fam == "lsl_cycles":
        add = a[1] if len(a) > 1 else True
        want_count(4 if add else 2)
        if acts[0] not in (shl, shr):
            msgs.append("L is not the full cyclic shift")
        if acts[1] not in (x[:1] + x[2:] + x[1:2], x[:1] + x[-1:] + x[1:-1]):
            msgs.append("S is not the cyclic shift of positions 1..n-1 keeping position 0")
        if add and (gens[2] != inverse(gens[0]) or gens[3] != inverse(gens[1])):
            msgs.append("the added generators are not the inverses of L and S")
        documented_closed = True if add else None
    elif fam == "wrapped_k_cycles":
        k = a[1]
        want_list([act(cyc_perm(n, [(s + j) % n for j in range(k)]), x) for s in range(n)], "consecutive k-cycles with wrap-around")
    elif fam == "larx":
        want_count(2)
        if acts[0] != swap(x, 0, 1):
            msgs.append("first generator is not the transposition of 0 and 1")
        if acts[1] not in (x[:1] + x[2:] + x[1:2], x[:1] + x[-1:] + x[1:-1], shl, shr):
            msgs.append("second generator is not a cyclic shift")
    elif fam == "increasing_k_cycles":
        k = a[1]
        want_count(math.comb(n, k))
        want_set((act(cyc_perm(n, c), x) for c in itertools.combinations(range(n), k)), "increasing k-cycles")
    elif fam == "sheveleva2":
        k = a[1]
        want_count(2)
        want_names(["A", "S"])
        if act(gens[0], act(gens[0], x)) != x:
            msgs.append("A is not an involution")
        ct = cycle_type(gens[1])
        if ct.count(4) != 1 or any(c not in (1, 2, 4) for c in ct):
            msgs.append(f"S has cycle type {ct}: not a product of transpositions and one 4-cycle")
        elif sorted([c for c in cycles_of(gens[1]) if len(c) == 4][0]) != [k - 1, k, k + 1, k + 2]:
            msgs.append("the 4-cycle of S is not on k-1..k+2")
    elif fam == "koltsov3":
        t = a[1] if len(a) > 1 else 2
        k = a[2] if len(a) > 2 else 1
        dd = a[3] if len(a) > 3 else 1
        want_count(3)
        want_names(["I", "K", "S"])
        if any(act(p, act(p, x)) != x for p in gens):
            msgs.append("a Koltsov3 generator is not an involution")
        s_exp = cyc_prod(n, [(k, k + dd)]) if t == 1 else cyc_prod(n, [(k, k + 3), (k + 1, k + 2)])
        want_list([act(cyc_prod(n, [(i, i + 1) for i in range(0, n - 1, 2)]), x),
                   act(cyc_prod(n, [(i, i + 1) for i in range(1, n - 1, 2)]), x), act(s_exp, x)], "I, K, S")
        documented_closed = True
    elif fam == "consecutive_k_cycles":
        k = a[1]
        want_count(n - k + 1)
        want_list([act(cyc_perm(n, list(range(i, i + k))), x) for i in range(n - k + 1)], "(i, i+1, ..., i+k-1), i=0..n-k")
    elif fam == "down_cycles":
        want_count(n * (n - 1) // 2)
        want_set((act(cyc_perm(n, list(range(i, j + 1))), x) for i in range(n) for j in range(i + 1, n)), "(i, i+1, ..., j), i<j")
    elif fam == "prefix_cycles":
        want_count(n - 1)
        want_list([act(cyc_perm(n, list(range(j))), x) for j in range(2, n + 1)], "(0 1 ... j-1), j=2..n")
    else:
        raise TieBroken(f"no oracle for family {fam}")
    # inverse-closedness: the flag is the truth; the truth is what the docstring says where it says something
    have = {tuple(g) for g in gens}
    truth = all(tuple(inverse(g)) in have for g in gens)
    info["closed"] = truth
    if bool(d.generators_inverse_closed) != truth:
        msgs.append(f"generators_inverse_closed = {d.generators_inverse_closed}, truth is {truth}")
    if documented_closed is not None:
        info["closed_documented"] = documented_closed
        if truth != documented_closed:
            msgs.append(f"generators are {'not ' if not truth else ''}inverse-closed, documented {'closed' if documented_closed else 'not closed'}")
    # order of the generated group
    if math.factorial(size) <= order_cap and len(gens) * math.factorial(size) <= 40 * order_cap:
        order = perm_group_order(gens, order_cap + 1)
        info["order"] = order
        if fam == "three_cycles_01i" and order != math.factorial(n) // 2:
            msgs.append(f"generates a group of order {order}, documented A_{n} of order {math.factorial(n) // 2}")
    return msgs, info


def cyc_prod(n, pairs):
    p = list(range(n))
    for i, j in pairs:
        if i != j:
            p[i], p[j] = p[j], p[i]
    return p


def oracle_conjugacy(n, classes, d):
    msgs = []
    gens = [list(map(int, g)) for g in d.generators_permutations]
    if any(sorted(g) != list(range(n)) for g in gens):
        return ["a generator is not a permutation of length n"]
    pos = 0
    for cl, ns in classes:
        ct = sorted(list(cl) + [1] * (n - sum(cl)), reverse=True)
        if ns is None and n > 8:
            # too many permutations to enumerate: the class has n! / prod(k^m_k * m_k!) elements; they must be distinct and of the right cycle type
            import math as _math
            from collections import Counter as _Counter
            size = _math.factorial(n)
            for k_, m_ in _Counter(ct).items():
                size //= (k_ ** m_) * _math.factorial(m_)
            blk = gens[pos:pos + size]
            if len(blk) != size or len({tuple(p) for p in blk}) != size or any(cycle_type(p) != ct for p in blk):
                msgs.append(f"class {cl}: not exactly the {size} distinct permutations with cycle lengths {ct} ({len(blk)} listed, {len({tuple(p) for p in blk})} distinct)")
            pos += size
        elif ns is None:
            exp = sorted(p for p in itertools.permutations(range(n)) if cycle_type(p) == ct)
            blk = gens[pos:pos + len(exp)]
            if sorted(map(tuple, blk)) != exp:
                msgs.append(f"class {cl}: the generators are not exactly the permutations with cycle lengths {ct}")
            pos += len(exp)
        else:
            blk = gens[pos:pos + max(ns, 0)]
            if len(blk) != max(ns, 0) or any(cycle_type(p) != ct for p in blk):
                msgs.append(f"class {cl}: the {ns} sampled generators do not all have cycle lengths {ct}")
            pos += max(ns, 0)
    if pos != len(gens):
        msgs.append(f"{len(gens)} generators, the classes account for {pos}")
    have = {tuple(g) for g in gens}
    truth = all(tuple(inverse(g)) in have for g in gens)
    if bool(d.generators_inverse_closed) != truth:
        msgs.append(f"generators_inverse_closed = {d.generators_inverse_closed}, truth is {truth}")
    return msgs


def oracle_matrix(fam, n, modulo, add, d, order_cap):
    msgs, info = [], {}
    mats = mats_of(d)
    if any(len(M) != n or any(len(r) != n for r in M) for M in mats):
        return [f"a generator is not an {n}x{n} matrix"], info
    if any(int(g.modulo) != modulo for g in d.generators_matrices):
        msgs.append("a generator does not carry the requested modulo")
    if modulo > 0 and any(not 0 <= v < modulo for M in mats for r in M for v in r):
        msgs.append("a matrix entry is outside [0, modulo)")
    eye = [[1 if i == j else 0 for j in range(n)] for i in range(n)]
    if list(d.central_state) != [v for r in eye for v in r]:
        msgs.append("central element is not the identity matrix")
    if len(d.generator_names) != len(mats):
        msgs.append("number of names differs from the number of generators")
    red = (lambda M: [[v % modulo for v in r] for r in M]) if modulo > 0 else (lambda M: M)

    def mul(A, B):
        return red([[sum(A[i][j] * B[j][k] for j in range(n)) for k in range(n)] for i in range(n)])

    def E(i, j, c=1):
        M = [r[:] for r in eye]
        M[i][j] += c
        return red(M)
    truth = all(any(mul(A, B) == red(eye) and mul(B, A) == red(eye) for B in mats) for A in mats)
    info["closed"] = truth
    if bool(d.generators_inverse_closed) != truth:
        msgs.append(f"generators_inverse_closed = {d.generators_inverse_closed}, truth is {truth}")
    if fam == "heisenberg":
        base = [E(0, i) for i in range(1, n - 1)] + [E(i, n - 1) for i in range(1, n - 1)]
        info["count_checked"] = True
        if mats[:len(base)] != base:
            msgs.append("the first 2(n-2) generators are not the documented x_i = I+E(0,i), y_i = I+E(i,n-1)")
        if any(M[i][j] != red(eye)[i][j] for M in mats for i in range(n) for j in range(n) if i != 0 and j != n - 1):
            msgs.append("a generator differs from the identity outside the top row / right column")
        if add:
            if not truth:
                msgs.append("add_inverses=True but the generators are not inverse-closed")
            exp = 2 * (n - 2) if modulo == 2 else 4 * (n - 2)          # see DOC_NOTES['heisenberg']
            if len(mats) != exp:
                msgs.append(f"{len(mats)} generators, documented {exp}")
            if modulo != 2 and any(mul(mats[i], mats[len(base) + i]) != red(eye) for i in range(len(base))):
                msgs.append("an added generator is not the inverse of its generator")
        elif len(mats) != 2 * (n - 2):
            msgs.append(f"{len(mats)} generators, documented {2 * (n - 2)}")
        if modulo > 0 and modulo ** (2 * n - 3) <= order_cap:
            order = matrix_group_order(mats, modulo, order_cap + 1)
            info["order"] = order
            if order != modulo ** (2 * n - 3):
                msgs.append(f"generates {order} matrices, the Heisenberg group mod {modulo} has {modulo ** (2 * n - 3)}")
    else:
        dets = [det_int(M) for M in mats]
        if any((dt - 1) % modulo != 0 if modulo > 0 else dt != 1 for dt in dets):
            msgs.append(f"a generator does not have determinant 1: {dets}")
        if not truth:
            msgs.append("the SL generator set is not inverse-closed (it contains e, e^-1, ...)")
        if fam == "special_linear_fundamental_roots":
            for k in range(n - 1):
                if E(k, k + 1) not in mats or E(k + 1, k) not in mats:
                    msgs.append(f"fundamental root e_{k + 1} or its negative is missing")
            if any(M not in [E(k, k + 1, c) for k in range(n - 1) for c in (1, -1)] + [E(k + 1, k, c) for k in range(n - 1) for c in (1, -1)]
                   for M in mats):
                msgs.append("a generator is not a fundamental root element, a negative root element or an inverse of one")
        else:
            if E(0, 1) not in mats or E(0, 1, -1) not in mats:
                msgs.append("root element e_12 or its inverse is missing")
            ws = [M for M in mats if M not in (E(0, 1), E(0, 1, -1))]
            for W in ws:
                signed = [[v - modulo if modulo > 2 and v == modulo - 1 else v for v in r] for r in W]
                supp = [[j for j in range(n) if signed[i][j] != 0] for i in range(n)]
                if any(len(s) != 1 for s in supp) or any(abs(signed[i][supp[i][0]]) != 1 for i in range(n)) \
                        or sorted(s[0] for s in supp) != list(range(n)) or cycle_type([s[0] for s in supp]) != [n]:
                    msgs.append("w is not a signed permutation matrix of an n-cycle (a lift of a Coxeter element)")
        if modulo > 0 and sl_order(n, modulo) <= order_cap:
            order = matrix_group_order(mats, modulo, order_cap + 1)
            info["order"] = order
            if order != sl_order(n, modulo):
                msgs.append(f"generates {order} matrices, SL({n}, Z/{modulo}) has {sl_order(n, modulo)}")
    return msgs, info


# ================================================================================================
def call_family(fam, args, kwargs):
    from cayleypy import PermutationGroups, MatrixGroups
    cls = MatrixGroups if hasattr(MatrixGroups, fam) else PermutationGroups
    return getattr(cls, fam)(*args, **kwargs)


def replay_case(case):
    """Re-runs the property oracle on one stored case. Returns None or a message."""
    kind = case.get("oracle")
    fam = case.get("family")
    if kind == "perm":
        a = tuple(case["args"])
        try:
            d = call_family(fam, a, {})
        except Exception as ex:  # pylint: disable=broad-except
            if in_documented_range(fam, a):
                return f"{fam}{a} raises {type(ex).__name__} inside its documented parameter range"
            return None
        msgs, _ = oracle_perm(fam, a, d, 50000)
        return "; ".join(msgs) or None
    if kind == "matrix":
        kw = dict(case["kwargs"])
        a = tuple(case["args"])
        try:
            d = call_family(fam, a, kw)
        except Exception as ex:  # pylint: disable=broad-except
            return f"{fam} raises {type(ex).__name__} on documented parameters {a} {kw}" if case.get("documented") else None
        n, m, add = case["n"], case["modulo"], case["add_inverses"]
        msgs, _ = oracle_matrix(fam, n, m, add, d, 50000)
        return "; ".join(msgs) or None
    if kind == "conjugacy":
        classes = [(tuple(c), ns) for c, ns in case["classes"]]
        from cayleypy import PermutationGroups
        d = PermutationGroups.conjugacy_classes(case["n"], dict(classes))
        return "; ".join(oracle_conjugacy(case["n"], classes, d)) or None
    if kind == "lookup":
        return check_lookup_case(case)
    return None


def same_def(d1, d2):
    return def_fields(d1) == def_fields(d2) and d1.generators_type == d2.generators_type


def check_lookup_case(case):
    """name lookup == constructor call (field-wise). Returns None or a message."""
    from cayleypy import PermutationGroups, prepare_graph, create_graph
    from cayleypy.puzzles.puzzles import Puzzles
    import cayleypy.graphs_lib as gl
    name, n, kwargs = case["name"], case["n"], dict(case.get("kwargs") or {})
    if "classes" in kwargs:
        kwargs["classes"] = {tuple(k): v for k, v in kwargs["classes"]}
    cls = {"PermutationGroups": PermutationGroups, "Puzzles": Puzzles}[case["cls"]]
    args = []

    def direct_call():
        """The constructor call the branch stands for, with its arguments evaluated here (not by prepare_graph)."""
        for a in case["args"]:
            if a[0] == "n":
                args.append(n)
            elif a[0] == "const":
                args.append(a[1])
            elif a[0] == "int_suffix":
                args.append(int(name[a[1]:]))
            elif a[0] == "int_kwarg":
                args.append(int(kwargs[a[1]]))
            elif a[0] == "kwarg":
                args.append(kwargs[a[1]])
            elif a[0] == "star":
                (_, fn, fargs), = [p for p in case["pre"] if p[0] == a[1]]
                args.extend(getattr(gl, fn)(*[n for _ in fargs]))
            else:
                raise TieBroken("unknown parsed argument " + repr(a))
        return getattr(cls, case["ctor"])(*args)

    def run(f):
        try:
            return f(), None
        except TieBroken:
            raise
        except Exception as ex:  # pylint: disable=broad-except
            return None, type(ex).__name__
    direct, e1 = run(direct_call)
    looked, e2 = run(lambda: prepare_graph(name, n=n, **kwargs))
    if e1 != e2:
        return f"prepare_graph({name!r}, n={n}) raises {e2}, {case['cls']}.{case['ctor']}{tuple(args)} raises {e1}"
    if direct is not None and not same_def(direct, looked):
        return f"prepare_graph({name!r}, n={n}, {kwargs}) differs from {case['cls']}.{case['ctor']}{tuple(args)}"
    if direct is not None and case.get("create_graph"):
        g, e3 = run(lambda: create_graph(name=name, n=n, device="cpu", **kwargs))
        if e3 is not None or not same_def(g.definition, direct):
            return f"create_graph(name={name!r}, n={n}) does not carry the definition of {case['ctor']}{tuple(args)} ({e3})"
        g2, e4 = run(lambda: create_graph(name=name, n=n, device="cpu", make_inverse_closed=True, **kwargs))
        if e4 is not None or not same_def(g2.definition, direct.make_inverse_closed()):
            return f"create_graph(name={name!r}, n={n}, make_inverse_closed=True) is not the inverse closure of the definition ({e4})"
    return None


# the constructor a lookup name is expected to reach: the name itself, the name without its trailing '-', or
# one of the two documented aliases
ALIASES = {"01i": "three_cycles_01i", "conjugacy_class": "conjugacy_classes",
           "cube_2/2/2_6gensQTM": "rubik_cube", "cube_2/2/2_9gensHTM": "rubik_cube", "cube_3/3/3_12gensQTM": "rubik_cube",
           "cube_3/3/3_18gensHTM": "rubik_cube"}


def run(ctx):
    from cayleypy import PermutationGroups, MatrixGroups, prepare_graph
    import cayleypy.cayley_graph_def as cgd
    import cayleypy.permutation_utils as pu
    import cayleypy.graphs_lib as gl
    import numpy as np
    rng = ctx.rng
    t_start = time.time()
    ctx.cov["trusted_base"] = [
        "Coq 8.16.1 kernel (vm_compute used, native_compute not used)", "coqc/make build",
        "models Perm.v (C20), Def.v/Matrix.v (C10) reused by Families.v",
        "harness/p15.py (domains, literal printing, docstring oracle), harness/t4_dispatch.py (T4, Python ast, fail-closed)",
        "np.linalg.inv is an oracle: on the elementary matrices the matrix families invert it must return I-E (monitor on every call)",
        "random.shuffle / np.random.shuffle are oracles: recorded outcomes are fed to the model",
    ]
    ctx.cov["rule"] = ("case = (family, parameter tuple) or (lookup name, n, kwargs); non-trivial when the call returns a definition with "
                       "at least one non-identity generator or exercises an error branch; distinct by canonical JSON")
    ctx.assumptions += [
        "Python int/list/range/itertools.permutations/combinations behave as zrange/perms/combs of Families.v and Perm.v (validated by the exhaustive equality of this run)",
        "docstrings saying 'Cayley graph for S_n' name the ambient group (DESIGN.md C15); generated orders are asserted only for: "
        + "; ".join(f"{k} ({v})" for k, v in ORDER_CHECKED.items()),
        "self-inconsistent docstring wording is read as recorded under coverage.docstring_notes",
    ]
    ctx.cov["docstring_notes"] = DOC_NOTES
    ctx.cov["orders_asserted_for"] = ORDER_CHECKED
    ctx.prove(extra=["FamiliesRun"])

    # the constructors the library has must be exactly the ones modelled (a new family breaks the tie)
    modelled = {f for f, _, _, _ in PERM_FAMILIES} | {"conjugacy_classes", "rand_generators"}
    have = {k for k, v in vars(PermutationGroups).items() if isinstance(v, staticmethod)}
    if have != modelled:
        raise TieBroken(f"PermutationGroups constructors changed: not modelled {sorted(have - modelled)}, vanished {sorted(modelled - have)}")
    mhave = {k for k, v in vars(MatrixGroups).items() if isinstance(v, staticmethod)}
    if mhave != {"heisenberg", "special_linear_fundamental_roots", "special_linear_root_weyl"}:
        raise TieBroken(f"MatrixGroups constructors changed: {sorted(mhave)}")

    order_cap = ctx.budget(6000, 50000)
    full = False
    cases, metas = [], []
    orders = {}
    viol_seen = {}

    def report(fam, claim, msg, case):
        """One violation per (family, claim): the first failing input is the replay, later ones are listed with it."""
        key = (fam, claim)
        if key in viol_seen:
            viol_seen[key]["further_failing_inputs"].append(msg[:200])
            return
        case = dict(case, claim=claim, further_failing_inputs=[])
        viol_seen[key] = case
        ctx.violation("property_fails", f"{fam}: {msg}", case, True)

    # ---------------- (a)+(b) permutation families -------------------------------------------------
    t0 = time.time()
    for fam, dom, nq, nt in PERM_FAMILIES:
        N = ctx.budget(nq, nt)
        f = getattr(PermutationGroups, fam)
        for args, kwargs, coq in dom(N):
            d, lit, exn = observe(lambda: f(*args, **kwargs), pdef_lit)
            flag = bool(d.generators_inverse_closed) if d is not None else False
            cases.append(f"({coq}, {lit}, {cbool(flag)})")
            case = {"oracle": "perm", "family": fam, "args": list(args)}
            metas.append(case)
            nontrivial = exn is not None or any(list(g) != sorted(g) for g in d.generators_permutations)
            ctx.case_seen(case, nontrivial)
            ctx.count(f"{fam}:" + (exn or "ok"))
            if d is None:
                if in_documented_range(fam, args):
                    report(fam, "documented_range", f"{fam}{args} raises {exn} inside its documented parameter range", case)
                continue
            msgs, info = oracle_perm(fam, args, d, order_cap)
            for m in msgs:
                report(fam, "docstring", f"{fam}{args}: {m}", case)
            if info.get("order") is not None:
                size = d.state_size
                tag = {math.factorial(size): "S_n", math.factorial(size) // 2: "A_n"}.get(info["order"], "")
                orders.setdefault(fam, []).append([list(args), info["order"], tag])
            ctx.count("oracle_checked")
            if info.get("count_checked"):
                ctx.count("count_formula_checked")
            if info.get("names_checked"):
                ctx.count("names_checked")
            if "closed_documented" in info:
                ctx.count("inverse_closed_documented_checked")
    ctx.sample(metas[7]); ctx.sample(metas[len(metas) // 2])
    ctx.cov["search"]["generated_group_orders"] = {k: v[-4:] for k, v in orders.items()}
    ctx.cov["search"]["order_asserted_cases"] = sum(len(v) for k, v in orders.items() if k in ORDER_CHECKED)
    t_perm = time.time() - t0

    # ---------------- conjugacy_classes (deterministic part exhaustively, sampled part with the shuffle oracle)
    def partitions(n, m=None):
        m = m or n
        if n == 0:
            yield []
            return
        for k in range(min(n, m), 0, -1):
            for rest in partitions(n - k, k):
                yield [k] + rest
    conj_inputs = []
    NC = ctx.budget(5, 6)
    for n in range(1, NC + 1):
        for tot in range(1, n + 1):
            for part in partitions(tot):
                if 1 in part and tot < n:
                    continue
                sh = list(part); rng.shuffle(sh)
                conj_inputs.append((n, [(tuple(sh), None)]))
    for _ in range(ctx.budget(25, 150)):
        n = rng.randint(2, ctx.budget(5, 6))
        classes = {}
        for _ in range(rng.randint(1, 3)):
            tot = rng.randint(1, n)
            part = rng.choice(list(partitions(tot)))
            rng.shuffle(part)
            classes[tuple(part)] = rng.choice([None, None, 0, 1, 2, 3, -1])
        conj_inputs.append((n, list(classes.items())))
    # more than 8 points (hash order of small integers in a Python set changes at 8): small classes of S_9, S_10
    conj_inputs += [(9, [((2,), None)]), (9, [((3,), None)]), (10, [((2,), None)]), (9, [((2,), None), ((3,), 0)])]
    conj_inputs += [(0, [((1,), None)]), (3, [((2, 2), None)]), (3, [((0, 2), None)]), (4, [((-1, 2), None)]), (3, []),
                    (3, [((), None)]), (2, [((), 2)]), (4, [((2,), None), ((5,), None)])]
    orig_shuffle = pu.random.shuffle
    for n, classes in conj_inputs:
        recorded = []

        def rec_shuffle(lst, _rec=recorded):
            orig_shuffle(lst)
            _rec.append(list(lst))
        pu.random.shuffle = rec_shuffle
        try:
            pyrandom.seed(rng.randint(0, 10**9))
            d, lit, exn = observe(lambda: PermutationGroups.conjugacy_classes(n, dict(classes)), pdef_lit)
        finally:
            pu.random.shuffle = orig_shuffle
        flag = bool(d.generators_inverse_closed) if d is not None else False
        cl_lit = clist(classes, lambda e: "(" + czl(e[0]) + ", " + copt(e[1], Z) + ")")
        cases.append(f"(CConjugacyClasses {Z(n)} {cl_lit} {cnll(recorded)}, {lit}, {cbool(flag)})")
        case = {"oracle": "conjugacy", "family": "conjugacy_classes", "n": n, "classes": [[list(c), ns] for c, ns in classes]}
        metas.append(case)
        ctx.case_seen(case, True)
        ctx.count("conjugacy_classes:" + (exn or "ok"))
        if d is not None:
            for m in oracle_conjugacy(n, classes, d):
                report("conjugacy_classes", "docstring", f"conjugacy_classes({n}, {dict(classes)}): {m}", case)
    ctx.sample(metas[-10])

    # ---------------- rand_generators (np.random.shuffle as oracle) --------------------------------
    class RecRandom:
        def __init__(self, real, rec):
            self._real, self._rec = real, rec

        def shuffle(self, arr):
            self._real.shuffle(arr)
            self._rec.append([int(v) for v in arr])

        def __getattr__(self, k):
            return getattr(self._real, k)

    class NpProxy:
        def __init__(self, real, rec):
            self._real = real
            self.random = RecRandom(real.random, rec)

        def __getattr__(self, k):
            return getattr(self._real, k)
    if not hasattr(gl, "np"):
        raise TieBroken("graphs_lib no longer reaches numpy as 'np' (cannot record np.random.shuffle)")
    for n in range(0, ctx.budget(3, 4) + 1):
        for k in range(0, min(math.factorial(max(n, 0)), ctx.budget(6, 24)) + 2):
            recorded = []
            real_np = gl.np
            gl.np = NpProxy(real_np, recorded)
            try:
                np.random.seed(rng.randint(0, 2**31 - 1))
                d, lit, exn = observe(lambda: PermutationGroups.rand_generators(n, k), pdef_lit)
            finally:
                gl.np = real_np
            flag = bool(d.generators_inverse_closed) if d is not None else False
            cases.append(f"(CRandGenerators {Z(n)} {Z(k)} {clist(recorded, czl)}, {lit}, {cbool(flag)})")
            case = {"oracle": "rand", "family": "rand_generators", "n": n, "k": k}
            metas.append(case)
            ctx.case_seen(dict(case, draws=recorded), True)
            ctx.count("rand_generators:" + (exn or "ok"))
            if d is not None:
                gens = d.generators_permutations
                if len(gens) != k or len({tuple(g) for g in gens}) != k or any(sorted(g) != list(range(n)) for g in gens):
                    report("rand_generators", "docstring", f"rand_generators({n},{k}) did not return k distinct permutations of length n", case)
                if not recorded:
                    raise TieBroken("rand_generators did not draw through np.random.shuffle (oracle not observable)")

    t1 = time.time()
    bad = ctx.coq_failing("Base Perm Def Families FamiliesRun", "", "pcall * result pdef * bool", cases, "check_pcase", "perm",
                          shard=ctx.budget(40, 60), timeout=1500)
    ctx.cov["disagreements_checked"] += len(cases)
    ctx.cov["correspondence"]["permutation_family_cases"] = len(cases)
    ctx.cov["correspondence"]["permutation_domain"] = {f: f"bound {ctx.budget(q, t)}" for f, _, q, t in PERM_FAMILIES}
    for i in bad[:5]:
        ctx.violation("correspondence", "family model (generators / names / name / central state / error class / inverse-closed flag) "
                      "differs from the implementation: " + str(metas[i].get("family")), metas[i], False)
    t_coq_perm = time.time() - t1

    # ---------------- (a)+(b) matrix families ------------------------------------------------------
    inv_calls = [0]
    orig_inv = np.linalg.inv

    def mon_inv(a):
        r = orig_inv(a)
        inv_calls[0] += 1
        ai = np.array(a, dtype=np.int64)
        want = 2 * np.eye(ai.shape[0], dtype=np.int64) - ai
        if not np.array_equal(np.array(np.rint(r), dtype=np.int64), want):
            raise TieBroken(f"np.linalg.inv on {ai.tolist()} did not round to 2I-M (the oracle value the model assumes)")
        return r
    if not hasattr(cgd.np.linalg, "inv"):
        raise TieBroken("np.linalg.inv not reachable from cayley_graph_def")
    mcases, mmetas = [], []
    morders = {}
    cgd.np.linalg.inv = mon_inv
    try:
        for fam, args, kwargs, coq in matrix_domain(ctx):
            f = getattr(MatrixGroups, fam)
            d, lit, exn = observe(lambda: f(*args, **kwargs), mdef_lit)
            flag = bool(d.generators_inverse_closed) if d is not None else False
            mcases.append(f"({coq}, {lit}, {cbool(flag)})")
            if fam == "heisenberg":
                n, modulo, add = kwargs.get("n", 3), kwargs.get("modulo", 0), kwargs.get("add_inverses", True)
            else:
                n, modulo, add = args[0], (args[1] if len(args) > 1 else 0), True
            documented = n >= (3 if fam == "heisenberg" else 2) and (modulo == 0 or 2 <= modulo <= 2**31)
            case = {"oracle": "matrix", "family": fam, "args": list(args), "kwargs": kwargs, "n": n, "modulo": modulo,
                    "add_inverses": add, "documented": documented}
            mmetas.append(case)
            ctx.case_seen(case, True)
            ctx.count(f"{fam}:" + (exn or "ok"))
            if d is None:
                if documented:
                    report(fam, "documented_range", f"{fam} raises {exn} on documented parameters n={n}, modulo={modulo}", case)
                continue
            msgs, info = oracle_matrix(fam, n, modulo, add, d, order_cap)
            for m in msgs:
                report(fam, "docstring", f"{fam}(n={n}, modulo={modulo}, add_inverses={add}): {m}", case)
            if info.get("order") is not None:
                morders.setdefault(fam, []).append([n, modulo, info["order"]])
            ctx.count("oracle_checked")
    finally:
        cgd.np.linalg.inv = orig_inv
    ctx.sample(mmetas[len(mmetas) // 3])
    ctx.cov["search"]["matrix_group_orders_asserted"] = {k: v for k, v in morders.items()}
    ctx.cov["search"]["order_asserted_cases"] += sum(len(v) for v in morders.values())
    ctx.cov["correspondence"]["np_linalg_inv_monitored_calls"] = inv_calls[0]
    bad = ctx.coq_failing("Base Perm Matrix Def Families FamiliesRun", "", "mcall * result mdef * bool", mcases, "check_mcase", "matrix",
                          shard=30, timeout=1500)
    ctx.cov["disagreements_checked"] += len(mcases)
    ctx.cov["correspondence"]["matrix_family_cases"] = len(mcases)
    for i in bad[:5]:
        ctx.violation("correspondence", "matrix family model differs from the implementation: " + mmetas[i]["family"], mmetas[i], False)

    # ---------------- (c) name dispatch ------------------------------------------------------------
    t2 = time.time()
    table = t4_dispatch.t4_dispatch()
    ctx.cov["correspondence"]["dispatch_table"] = [[e["kind"], e["literal"], e["cls"] + "." + e["ctor"], e["args_src"]] for e in table]
    nlook = 0
    for e in table:
        lit = e["literal"]
        expected = ALIASES.get(lit, lit[:-1] if e["kind"] == "prefix" and lit.endswith("-") else lit)
        if e["ctor"] != expected:
            ctx.violation("property_fails", f"lookup name {lit!r} is wired to {e['cls']}.{e['ctor']}, not to {expected}",
                          {"oracle": "dispatch_static", "literal": lit, "ctor": e["ctor"]}, True)
    NL = ctx.budget(6, 8)
    lookups = []
    for i, e in enumerate(table):
        base = {"oracle": "lookup", "cls": e["cls"], "ctor": e["ctor"], "args": [list(a) for a in e["args"]], "pre": [list(p) for p in e["pre"]]}
        if e["cls"] == "Puzzles":
            ns = [0] if not e["pre"] else list(range(2, ctx.budget(5, 12)))
            for n in ns:
                lookups.append(dict(base, name=e["literal"], n=n, kwargs={}, create_graph=False))
            continue
        if e["cls"] != "PermutationGroups":
            raise TieBroken(f"prepare_graph reaches an unknown class {e['cls']}")
        kws = [{}]
        if any(a[0] in ("int_kwarg",) for a in e["args"]):
            kws = [{"k": k} for k in range(0, NL + 2)] + [{"k": "2"}, {}]
        if any(a[0] == "kwarg" and a[1] == "classes" for a in e["args"]):
            kws = [{"classes": [[[2], None]]}, {"classes": [[[3], None], [[2, 2], None]]}, {}]
        if e["ctor"] == "rand_generators":
            continue                     # random: lookup cannot be compared field-wise (only that it dispatches; covered statically)
        if e["kind"] == "eq":
            for n in range(0, NL + 1):
                for kw in kws:
                    if "k" in kw and isinstance(kw["k"], int) and kw["k"] > n + 1:
                        continue
                    lookups.append(dict(base, name=lit_of(e), n=n, kwargs=kw, create_graph=(n in (3, 4, 5) and len(lookups) % 3 == 0)))
        else:
            for n in range(0, NL + 3):
                lookups.append(dict(base, name=e["literal"] + str(n), n=0, kwargs={}, create_graph=(n in (4, 5))))
            for tail in ("", "x", "5(k=2)", "-3", " 4", "04"):
                lookups.append(dict(base, name=e["literal"] + tail, n=0, kwargs={}, create_graph=False))
    for c in lookups:
        if t4_dispatch.first_match(table, c["name"]) is None or \
                table[t4_dispatch.first_match(table, c["name"])]["ctor"] != c["ctor"]:
            ctx.violation("property_fails", f"name {c['name']!r} is shadowed by an earlier branch of prepare_graph", c, True)
            continue
        msg = check_lookup_case(c)
        nlook += 1
        ctx.case_seen({"lookup": c["name"], "n": c["n"], "kw": c["kwargs"]}, True)
        ctx.count("lookup:" + c["cls"])
        if msg:
            report("lookup", "lookup", msg, c)
    ctx.sample(lookups[len(lookups) // 2])
    # unknown names are refused
    for nm in ("", "lx_", "LX", "pancake-4", "coxeter-4", "Lrx-4", "cube", "top_spin-5-4"):
        try:
            prepare_graph(nm, n=4)
            ctx.violation("property_fails", f"prepare_graph accepts the undocumented name {nm!r}", {"oracle": "lookup_unknown", "name": nm}, True)
        except ValueError:
            ctx.count("lookup:unknown_refused")
    # a definition's own name, when accepted, maps back to that definition
    nown = nacc = 0
    for fam, dom, nq, nt in PERM_FAMILIES:
        f = getattr(PermutationGroups, fam)
        for args, kwargs, _ in dom(min(ctx.budget(nq, nt), 7)):
            try:
                d = f(*args, **kwargs)
            except Exception:  # pylint: disable=broad-except
                continue
            nown += 1
            for kw in ({}, {"n": args[0]}):
                try:
                    back = prepare_graph(d.name, **kw)
                except Exception:  # pylint: disable=broad-except
                    continue            # not accepted by the lookup
                nacc += 1
                ctx.count("own_name_accepted:" + fam)
                if not same_def(back, d):
                    report(fam, "own_name", f"{fam}{args}.name = {d.name!r} is accepted by prepare_graph but maps to a different definition "
                           f"(name {back.name!r}, {len(back.generators)} generators)",
                           {"oracle": "own_name", "family": fam, "args": list(args), "name": d.name})
    for e in table:
        if e["cls"] == "Puzzles" and not e["pre"]:
            from cayleypy.puzzles.puzzles import Puzzles
            d = getattr(Puzzles, e["ctor"])(*[a[1] for a in e["args"]])
            nown += 1
            try:
                back = prepare_graph(d.name)
            except Exception:  # pylint: disable=broad-except
                continue
            nacc += 1
            ctx.count("own_name_accepted:Puzzles." + e["ctor"])
            if not same_def(back, d):
                report("puzzles", "own_name", f"Puzzles.{e['ctor']} has name {d.name!r}, which prepare_graph maps to a different definition",
                       {"oracle": "own_name", "family": "Puzzles." + e["ctor"], "name": d.name})
    ctx.cov["correspondence"]["lookup_cases"] = nlook
    ctx.cov["correspondence"]["own_name_definitions"] = nown
    ctx.cov["correspondence"]["own_name_accepted_by_lookup"] = nacc
    ctx.cov["search"]["full_budget"] = full
    ctx.cov["search"]["timing_s"] = {"perm_python": round(t_perm, 1), "perm_coq": round(t_coq_perm, 1), "dispatch": round(time.time() - t2, 1),
                                     "total": round(time.time() - t_start, 1)}


def lit_of(e):
    return e["literal"]


def replay(ctx, obj):
    case = obj.get("case", {})
    if obj.get("kind") == "property_fails" and case.get("oracle") in ("perm", "matrix", "conjugacy", "lookup"):
        return replay_case(case)
    if obj.get("kind") == "property_fails" and case.get("oracle") == "own_name":
        from cayleypy import PermutationGroups, prepare_graph
        if case["family"].startswith("Puzzles."):
            from cayleypy.puzzles.puzzles import Puzzles
            return None if same_def(prepare_graph(case["name"]), getattr(Puzzles, case["family"][8:])()) else "own name maps elsewhere"
        d = getattr(PermutationGroups, case["family"])(*case["args"])
        try:
            back = prepare_graph(d.name)
        except Exception:  # pylint: disable=broad-except
            return None
        return None if same_def(back, d) else f"{d.name!r} is accepted by prepare_graph but maps to a different definition"
    run(ctx)
    if ctx.violations:
        return "still failing: " + "; ".join(v["what"] for v in ctx.violations[:3])
    return None
