"""C08 - the explicit graph exported from a BFS equals the true Schreier graph."""
import graphs as G
import bfsrun
import p01
from common import cz, czl, czll, cnl, cnll, clist, cstr, TieBroken


def true_edges(gd, verts):
    k = G.n_gens(gd)
    return {(v, G.act(gd, i, v)) for v in verts for i in range(k)}


def check_export(gd, res, layers, dist, completed_expected):
    """The property C08 on one BfsResult (with edges). Returns None or a message."""
    import numpy as np
    names = res.vertex_names
    states = [tuple(int(v) for v in row) for row in res.all_states.reshape((res.all_states.shape[0], -1)).tolist()]
    n = len(states)
    reported = set().union(*layers[: len(res.layer_sizes)])
    if len(set(states)) != n or set(states) != reported:
        return "exported vertex rows are not exactly the reported vertices, each once"
    if len(names) != n or len(set(names)) != n:
        return "vertex names are not one distinct name per vertex"
    for s, nm in zip(states, names):
        if gd["kind"] == "perm":
            want = ("" if max(s) <= 9 else ",").join(str(v) for v in s)
            if nm != want:
                return f"vertex name {nm!r} does not denote its row {s}"
    el = [(int(a), int(b)) for a, b in res.edges_list.tolist()]
    got = {(states[a], states[b]) for a, b in el}
    if res.bfs_completed:
        want = true_edges(gd, reported)
        if got != want:
            return f"edge list has {len(got)} distinct pairs, the true graph has {len(want)} ({len(got - want)} spurious, {len(want - got)} missing)"
    else:
        inner = set().union(*layers[: len(res.layer_sizes) - 1])
        must = true_edges(gd, inner)
        if not must <= got:
            return "an out-edge of a vertex of a non-final layer is missing"
        extra = got - must
        if any((b, a) not in must for a, b in extra):
            return "an additional entry is not the reversal of a real edge"
    dense = res.adjacency_matrix()
    sup = {(int(a), int(b)) for a, b in zip(*np.nonzero(dense))}
    sp = res.adjacency_matrix_sparse()
    sup2 = {(int(a), int(b)) for a, b in zip(sp.row, sp.col)}
    if sup != set(el) or sup2 != set(el):
        return "dense / sparse adjacency matrices do not have exactly the entries of the edge list"
    k = G.n_gens(gd)
    for a, b in sorted(set(el))[:60]:
        if (states[a], states[b]) in true_edges(gd, [states[a]]):
            nm = res.get_edge_name(a, b)
            ids = [i for i, x in enumerate(res.graph.generator_names) if x == nm]
            if not any(G.act(gd, i, states[a]) == states[b] for i in ids):
                return f"edge label {nm!r} names no generator mapping the source to the target"
    if res.bfs_completed:
        sym = (dense == dense.T).all()
        undirected = all((b, a) in got for a, b in got)
        if bool(sym) != undirected:
            return "adjacency matrix symmetry does not match undirectedness"
    # the labelled networkx export, also for an interrupted search when every listed edge (the added reversals included) is a real edge,
    # i.e. on inverse-closed generator sets; asked for AFTER named_undirected_edges on every other run (a query must not disturb the next)
    if res.bfs_completed or G.is_inverse_closed_ref(gd):
        if len(el) % 2 == 0:
            und = res.named_undirected_edges()
            if und != {tuple(sorted([names[a], names[b]])) for a, b in el}:
                return "named_undirected_edges differs from the edge list"
            if [(int(a), int(b)) for a, b in res.edges_list.tolist()] != el:
                return "edges_list changed after named_undirected_edges was called"
        nx = res.to_networkx_graph(directed=True)
        nxe = {(u, v) for u, v in nx.edges()}
        if nxe != {(names[a], names[b]) for a, b in el} or set(nx.nodes()) != set(names):
            return "networkx export differs from the edge list"
        index = {nm: i for i, nm in enumerate(names)}
        for u, v, lab in list(nx.edges(data="label"))[:400]:
            a, b = index[u], index[v]
            ids = [i for i, x in enumerate(res.graph.generator_names) if x == lab]
            if not any(G.act(gd, i, states[a]) == states[b] for i in ids):
                return f"networkx edge label {lab!r} on ({u!r}, {v!r}) names no generator mapping the source to the target"
        und = res.named_undirected_edges()
        if und != {tuple(sorted([names[a], names[b]])) for a, b in el}:
            return "named_undirected_edges differs from the edge list"
        dense2 = res.adjacency_matrix()
        if {(int(a), int(b)) for a, b in zip(*np.nonzero(dense2))} != set(el):
            return "adjacency matrix changed after other exports were requested"
        # an UNDIRECTED networkx export of a graph whose generator set is not inverse-closed must be refused; if one is returned anyway, every adjacency in
        # it must be a true edge in both directions
        if not res.graph.generators_inverse_closed:
            try:
                ug = res.to_networkx_graph(directed=False)
            except (AssertionError, ValueError):
                ug = None
            if ug is not None:
                for u, v in ug.edges():
                    a, b = index[u], index[v]
                    if (a, b) not in set(el) or (b, a) not in set(el):
                        return f"to_networkx_graph(directed=False) on a directed graph was not refused and connects {u!r} and {v!r} although no generator maps one to the other in both directions"
        # the matrix handed out belongs to the caller: symmetrising it or clearing its diagonal in place must not change what the result exports next
        dense2[:] = 0
        dense3 = res.adjacency_matrix()
        if {(int(a), int(b)) for a, b in zip(*np.nonzero(dense3))} != set(el):
            return "adjacency_matrix() returns a different matrix after the caller edited the matrix it got from an earlier call"
    return None


def run(ctx):
    import torch
    import translators
    translators.gen_all(strict=True)
    rng = ctx.rng
    ctx.cov["trusted_base"] = p01.TB + ["model Export.v (renumbering, names, edge names) validated here; numpy/scipy/networkx containers compared as sets of triples"]
    ctx.cov["rule"] = ("case = (graph, configuration, early-stop setting); non-trivial when there are >= 4 vertices and an edge between different vertices; distinct by canonical JSON")
    ctx.assumptions += ["NoColl on the orbit"]
    ctx.prove(extra=["BfsRun", "Export", "ExportMatrices"])
    bfs_cases, bfs_metas, ex_cases, ex_metas = [], [], [], []
    mx_cases, mx_metas = [], []
    for it_ in range(ctx.budget(70, 600)):
        deep = it_ % 9 == 8
        # every 9th graph (offset 4): one-word codes that use all 64 bits - vertex numbering must compare the int64 hashes exactly (not through float64)
        gd = (G.gen_deep_directed(rng, 400, min_layers=12) if deep else G.gen_extreme_codes(rng, 300) if it_ % 9 == 4 else
              G.gen_graph(rng, cap=ctx.budget(200, 1200)))
        layers, dist = G.ref_bfs(gd, [gd["central"]])
        starts = None
        if rng.random() < 0.3:
            # several start states, in arbitrary order, possibly repeated: the numbering of layer 0 must still match all_states / vertex_names
            starts = G.gen_starts(rng, gd, dist)
            if len(starts) == 1:
                starts = starts + [list(rng.choice(sorted(dist)))]
            rng.shuffle(starts)
            layers, dist = G.ref_bfs(gd, starts)
        cfgd = G.gen_config(rng, gd)
        if it_ % 9 == 4 and not deep:
            cfgd["bit_encoding_width"] = "auto"
        graph = G.make_graph(gd, cfgd)
        kw = {"return_all_edges": True, "return_all_hashes": True, "max_layer_size_to_store": None}
        early = rng.random() < 0.4 and len(layers) >= 3
        if early:
            kw["max_diameter"] = rng.randint(1, len(layers) - 2)
        if deep:
            early = False
            kw.pop("max_diameter", None)
        obs, res = bfsrun.observe(graph, starts, kw, None)
        case = {"graph": gd, "config": cfgd, "bfs": kw, "starts": starts}
        # the explicit graph of a result that went through a file (save / load): same vertex numbering, names and edges
        if res is not None and gd["kind"] == "perm" and (deep or rng.random() < 0.15):
            res = bfsrun.reload_result(res)
            case["reloaded"] = True
            ctx.count("exported_after_save_load" + ("_11plus_layers" if len(res.layer_sizes) >= 11 else ""))
        if starts is not None:
            ctx.count("multi_start_runs")
        ctx.case_seen(case, len(dist) >= 4 and len(layers) >= 2)
        ctx.count("early_stopped" if early else "completed")
        ctx.count("kind_" + gd["kind"]); ctx.count("directed" if not graph.definition.generators_inverse_closed else "undirected")
        if res is None:
            ctx.violation("property_fails", f"bfs with return_all_edges raised {obs.get('exc')}", case, True)
            continue
        msg = check_export(gd, res, layers, dist, not early)
        if msg:
            persists = True
            for s in (11, 222):
                g2 = G.make_graph(gd, dict(cfgd, random_seed=s))
                _, r2 = bfsrun.observe(g2, starts, kw, None)
                if r2 is not None and case.get("reloaded"):
                    r2 = bfsrun.reload_result(r2)
                if r2 is not None and check_export(gd, r2, layers, dist, not early) is None:
                    persists = False
            if persists:
                ctx.violation("property_fails", msg, case, True)
        bfs_cases.append(bfsrun.coq_case(gd, graph, starts, kw, None, obs)); bfs_metas.append(case)
        if gd["kind"] == "perm":
            el = [(int(a), int(b)) for a, b in res.edges_list.tolist()]
            en = []
            states = [[int(v) for v in row] for row in res.all_states.tolist()]
            ok = True
            for a, b in el:
                try:
                    en.append(res.get_edge_name(a, b))
                except AssertionError:
                    ok = False
                    break
            if ok:
                ex_cases.append("(Build_export_case " + " ".join([
                    cnll(gd["gens"]), clist(res.graph.generator_names, cstr), czll(obs["hashes"]), cnl(obs["sizes"]),
                    clist(obs["edges"], lambda p: f"({cz(p[0])}, {cz(p[1])})") + "%Z", czll(states),
                    clist(el, lambda p: f"({p[0]}, {p[1]})") + "%nat", clist(res.vertex_names, cstr), clist(en, cstr)]) + ")")
                ex_metas.append(case)
                # the matrices and the undirected name pairs, as the implementation returned them, against the model ExportMatrices.v
                nv = len(states)
                if nv <= 80:
                    dense = [[int(v) for v in row] for row in res.adjacency_matrix().tolist()]
                    sp = res.adjacency_matrix_sparse()
                    coo = [(int(a), int(b), int(v)) for a, b, v in zip(sp.row.tolist(), sp.col.tolist(), sp.data.tolist())]
                    und = sorted(tuple(p_) for p_ in res.named_undirected_edges())
                    mx_cases.append(f"({nv}%nat, " + clist(el, lambda p: f"({p[0]}, {p[1]})") + "%nat, " + clist(res.vertex_names, cstr) + ", " + czll(dense) + ", "
                                    + clist(coo, lambda t: f"({t[0]}%nat, {t[1]}%nat, {cz(t[2])})") + ", " + clist(und, lambda p_: f"({cstr(p_[0])}, {cstr(p_[1])})") + ")")
                    mx_metas.append(case)
    ctx.sample(bfs_metas[0])
    bad = ctx.coq_failing("Base Bfs BfsRun GraphImpl Hash Tensor", "", "bfs_case", bfs_cases, "check_case", "bfsedges", shard=ctx.budget(10, 20))
    for i in bad[:3]:
        ctx.violation("correspondence", "BFS model and implementation differ on a run with edges", bfs_metas[i], False)
    bad = ctx.coq_failing("Base Export", "", "export_case", ex_cases, "check_export", "export", shard=ctx.budget(10, 20))
    for i in bad[:3]:
        ctx.violation("correspondence", "export model (renumbering / vertex names / edge names) differs from the implementation", ex_metas[i], False)
    bad = ctx.coq_failing("Base Export ExportMatrices", "", "nat * list (nat * nat) * list string * list (list Z) * list (nat * nat * Z) * list (string * string)", mx_cases,
                          "fun c => match c with (n, el, names, dense, coo, und) => check_dense n el dense && check_sparse el coo && check_named_undirected names el und end",
                          "matrices", shard=ctx.budget(10, 20))
    for i in bad[:3]:
        ctx.violation("correspondence", "adjacency-matrix / undirected-name-pair model differs from the implementation", mx_metas[i], False)
    ctx.count("matrix_exports_compared_with_model", len(mx_cases))
    ctx.cov["disagreements_checked"] = len(bfs_cases) + len(ex_cases) + len(mx_cases)


def replay(ctx, obj):
    case = obj.get("case", {})
    if obj.get("kind") == "property_fails" and "bfs" in case:
        gd = case["graph"]
        layers, dist = G.ref_bfs(gd, case.get("starts") or [gd["central"]])
        msg = None
        for s in (case["config"].get("random_seed"), 11, 222):
            g2 = G.make_graph(gd, dict(case["config"], random_seed=s))
            _, r2 = bfsrun.observe(g2, case.get("starts"), case["bfs"], None)
            if r2 is None:
                msg = "bfs raised"
                continue
            if case.get("reloaded"):
                r2 = bfsrun.reload_result(r2)
            msg = check_export(gd, r2, layers, dist, "max_diameter" not in case["bfs"])
            if msg is None:
                return None
        return msg
    run(ctx)
    return "; ".join(v["what"] for v in ctx.violations[:3]) or None
