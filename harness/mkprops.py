"""Generates coq/props/Cxx.v from proved lemmas: each property theorem restates the lemma's closed type
(as printed by Check, fully qualified) and is closed by `exact`. Usage: mkprops.py Cxx"""
import os
import re
import subprocess
import sys

COQ = os.path.join(os.path.dirname(os.path.dirname(os.path.abspath(__file__))), "coq")

SPECS = {
    "C11": {
        "title": "C11 - All BFS engines compute the same growth function.",
        "doc": "Main BFS: C01. Interactive engine: ibfs_growth (any graph, any start list). Unthinned BFS-mode walk: walks_bfs_exhaustive.\n"
               "    NumPy and bit-mask engines: tied by correspondence (models NumpyBfs.v, Bitmask.v); their theorems are added as they are proved.",
        "imports": "Base Tensor Graph GraphProofs GraphImpl BfsStep Interactive InteractiveProofs Walks WalksProofs",
        "thms": [
            ("C11_ibfs_growth", "ibfs_growth", "the step-by-step interactive BFS reports exactly the sizes of the true layers, from any start list"),
            ("C11_ibfs_layers", "ibfs_layers", "and its current layer is the true layer"),
            ("C11_walks_bfs_exhaustive", "walks_bfs_exhaustive", "an unthinned BFS-mode random walk returns every vertex with its true distance"),
        ],
    },
    "C07": {
        "title": "C07 - Random walks only visit real vertices along real edges with honest step counts.",
        "doc": "For ALL values of the random draws (oracle arguments: generator choices, torch.randperm). reach [start] k t = t is the end of a walk of exactly k edges from start.\n"
               "    The nbt theorem needs a well-formed permutation oracle (entries in range) and, at history depth 0, at least one generator (every definition has one).",
        "imports": "Base Tensor Graph GraphProofs GraphImpl BfsStep Walks WalksProofs",
        "thms": [
            ("C07_walks_classic_spec", "walks_classic_spec", "classic mode: width*length rows, y counts the steps 0..length-1, starts with the start state, consecutive states joined by an edge, honest step counts"),
            ("C07_walks_nbt_spec", "walks_nbt_spec", "nbt mode, EVERY history depth including the default 0: starts with the start state, every x[i] is the end of a walk of exactly y[i] edges"),
            ("C07_walks_bfs_spec", "walks_bfs_spec", "bfs mode: starts with the start state, all returned states distinct, honest step counts"),
            ("C07_walks_bfs_exhaustive", "walks_bfs_exhaustive", "bfs mode, width >= largest layer and length > eccentricity: exactly all vertices with their true distances"),
        ],
    },
    "C06": {
        "title": "C06 - Beam search never reports a path that does not exist, and is exact when unpruned.",
        "doc": "For EVERY selection oracle (the unstable argsort), score function, beam width and step budget. reach [start] k c = a walk of exactly k edges from start to c exists.\n"
               "    The ball theorem needs an inverse map (inverse-closed generators): on non-inverse-closed graphs the statement is false (known finding F15).",
        "imports": "Base Tensor Graph GraphProofs GraphImpl Def Paths BfsStep PathsProofs Beam BeamProofs",
        "thms": [
            ("C06_simple_sound_noball", "simple_sound_noball", "simple mode: success means a real walk of exactly the reported length; a returned path replays to the central state and has that length"),
            ("C06_simple_sound_ball", "simple_sound_ball", "the same with a pre-computed BFS ball, on inverse-closed graphs"),
            ("C06_advanced_sound", "advanced_sound", "advanced mode, any history depth: success means a real walk of exactly the reported length"),
            ("C06_simple_noball_ge_dist", "simple_noball_ge_dist", "hence the reported length is never below the true distance"),
            ("C06_simple_total_noball", "simple_total_noball", "no assertion can fire without a ball (the only model error is an inconsistent oracle recording)"),
            ("C06_simple_unpruned_exact", "simple_unpruned_exact", "unpruned (beam wider than the orbit) with budget >= distance: success with exactly the shortest distance"),
            ("C06_advanced_unpruned_exact", "advanced_unpruned_exact", "the same in advanced mode for EVERY history depth (stale ring-buffer rows only ban states at smaller distance)"),
        ],
    },
    "C18": {
        "title": "C18 - A saved BFS result loads back equal and stays usable for path queries.",
        "doc": "Model SaveLoad.v: the HDF5 file is an abstract map from dataset names to arrays/strings; save/load use the library's key scheme.",
        "imports": "Base SaveLoad SaveLoadProofs",
        "thms": [
            ("C18_load_save", "load_save", "every well-formed result (any names, central state, subset of stored layers, hashes or none, edges or none) loads back IDENTICAL"),
            ("C18_load_save_eq", "load_save_eq", "and compares equal both ways"),
            ("C18_strip_parse_key", "strip_parse_key", "the k.strip('layer__') trick parses the layer id back (digits are not in the stripped set)"),
            ("C18_result_eq_sound", "result_eq_sound", "equal results agree on every field"),
            ("C18_result_eq_distinguishes", "result_eq_distinguishes", "results differing in any scalar/list field compare unequal"),
        ],
    },
    "C08": {
        "title": "C08 - The explicit graph exported from a BFS equals the true Schreier graph.",
        "doc": "Statements about the BFS model with return_all_edges: L i = the true layers (distance classes); edges are pairs of HASHES, which NoColl identifies with states;\n"
               "    the renumbering / naming layer (Export.v) is tied to the implementation by the correspondence check.",
        "imports": "Base Tensor Graph GraphProofs GraphImpl Bfs BfsStep BfsProofs BfsEdges",
        "thms": [
            ("C08_edges_completed", "bfs_edges_completed", "completed run: the edge list is exactly {(v, g v) | v in the orbit, g a generator}"),
            ("C08_edges_interrupted_exact", "bfs_edges_interrupted_exact", "interrupted run: exactly the out-edges of the non-final layers plus the reversals of the last expansion"),
            ("C08_layers_hashes_aligned", "bfs_layers_hashes_aligned", "states and hashes of every stored layer are aligned, so vertex k's hash is the hash of row k"),
            ("C08_edges_some", "bfs_edges_some", "with edges requested an edge list is always returned"),
        ],
    },
    "C05": {
        "title": "C05 - Meet-in-the-middle search returns shortest paths within its stated radius.",
        "doc": "G/Ginv: a graph instance and its inverted copy; U: the states a run touches; ball_ok G c lh: per-layer hash lists of the true layers from c;\n"
               "    dstar G A B d: d is the least length of a walk from a member of A to a member of B. NoColl = hash injective on U.",
        "imports": "Base Tensor Graph GraphProofs GraphImpl Def Paths BfsStep PathsProofs Mitm MitmProofs Interactive InteractiveProofs InteractiveBetween",
        "thms": [
            ("C05_mitm_to_sound", "mitm_to_sound", "a returned path is valid, its length is the true distance, and that distance is at most 2D"),
            ("C05_mitm_to_complete", "mitm_to_complete", "whenever the true distance is at most 2D a path is returned"),
            ("C05_mitm_to_none", "mitm_to_none", "nothing is returned when every distance exceeds 2D (or the target is unreachable)"),
            ("C05_mitm_to_exact", "mitm_to_exact", "distance d <= 2D: the result is a valid path of exactly d edges"),
            ("C05_between_sound", "between_sound", "set-to-set: the path starts in the start set, ends in the destination set, has globally minimal length, within twice the depth limit"),
            ("C05_between_complete", "between_complete", "set-to-set: a path is returned whenever the minimum is at most twice the depth limit (length 0 when the sets intersect)"),
            ("C05_between_none", "between_none", "set-to-set: nothing otherwise"),
            ("C05_ibfs_layers", "ibfs_layers", "the step-by-step BFS computes the true layers from ANY start list (unsorted, duplicates, empty)"),
        ],
    },
    "C10": {
        "title": "C10 - Inverted and inverse-closed definitions are exact group-theoretic inverses.",
        "doc": "Model: Def.v (inverse map with dict semantics, inverted generators, inverse closure, MatrixGenerator.inv with the float inverse as an oracle candidate).\n"
               "    MatrixMC.v bridges to MathComp's mulmx1C: in a commutative ring a right inverse of a square matrix is a left inverse.",
        "imports": "Base W64 Perm PermProofs Matrix Def DefProofs MatrixMC",
        "thms": [
            ("C10_inverse_perm_undoes", "inverse_undoes", "the inverse permutation undoes the permutation on every sequence, both ways"),
            ("C10_inverted_perms_undo", "inverted_perms_undo", "generator i of the inverted definition undoes generator i (permutations)"),
            ("C10_perm_inverse_map_correct", "perm_inverse_map_correct", "the inverse map sends i to a position holding the inverse of generator i"),
            ("C10_perm_inverse_map_none", "perm_inverse_map_none", "the map is None (flag false) exactly when some generator has no inverse in the list"),
            ("C10_inverse_map_undoes", "inverse_map_undoes", "generator i followed by generator map[i] is the identity"),
            ("C10_mic_perms_spec", "mic_perms_spec", "make_inverse_closed keeps generators, names, order; appends exactly the missing inverses; the result is inverse closed; a closed input is returned unchanged"),
            ("C10_mic_perms_idempotent", "mic_perms_idempotent", "make_inverse_closed is idempotent"),
            ("C10_mat_inv_two_sided_mod0", "mat_inv_two_sided_mod0", "MatrixGenerator.inv (modulo 0), for ANY oracle candidate: success means a TWO-sided inverse in int64 arithmetic"),
            ("C10_mat_inv_two_sided_modular", "mat_inv_two_sided_modular", "the same modulo m"),
            ("C10_mat_inv_undoes_mod0", "mat_inv_undoes_mod0", "the inverted matrix generator undoes the generator on every state (modulo 0)"),
            ("C10_mat_inv_undoes_modular", "mat_inv_undoes_modular", "the same modulo m, on reduced states"),
            ("C10_mat_inv_rejects", "mat_inv_rejects", "a candidate that is not a right inverse is rejected with the library's assertion"),
        ],
    },
    "C12": {
        "title": "C12 - Automatic path finding returns only valid paths, shortest within its BFS radius.",
        "doc": "find_path_one (PathRun.v) is the model of cayleypy.find_path for graphs without a pre-trained model: inverse-closed graphs use MITM from the start state\n"
               "    and revert the path; directed graphs run MITM in the inverted graph and reverse the generator sequence. balls_ok: the cached ball is well formed.",
        "imports": "Base Tensor Graph GraphProofs GraphImpl Def Paths BfsStep PathsProofs Mitm MitmProofs PathRun MitmFind",
        "thms": [
            ("C12_find_path_valid", "find_path_valid", "any returned sequence replays from the start state to the central state (both branches); it is shortest and within twice the ball depth"),
            ("C12_find_path_shortest", "find_path_shortest", "distance within twice the depth of the internal BFS: a path of exactly that length is returned"),
            ("C12_find_path_none", "find_path_none", "nothing is returned only when no path of that length exists"),
        ],
    },
    "C04": {
        "title": "C04 - Paths restored from a BFS result are valid and shortest.",
        "doc": "G/Ginv: a graph instance and its inverted copy (same hasher); U: the states a run touches; ball_ok G c lh: lh are the strictly sorted\n"
               "    per-layer hash lists of the true BFS layers from the central state c (what C09_bfs_prefix delivers); NoColl = hash injective on U.",
        "imports": "Base Tensor Graph GraphProofs GraphImpl Def Paths BfsStep PathsProofs",
        "thms": [
            ("C04_restore_path_correct", "restore_path_correct", "the backward walk over layer hashes yields a real path of the right length; its internal assertion cannot fire"),
            ("C04_find_path_to_sound", "find_path_to_sound", "a returned path replays from the central state to the query and its length is the true distance"),
            ("C04_find_path_to_complete", "find_path_to_complete", "'no path' exactly when the state is in none of the layers 0..D; never an error on a well-formed ball"),
            ("C04_find_path_to_shortest", "find_path_to_shortest", "no replayable path is shorter"),
            ("C04_find_path_from_sound", "find_path_from_sound", "inverse-closed generators: the reverted path leads from the state to the central state, length = distance"),
            ("C04_revert_path_valid", "revert_path_valid", "reverting a path A->B gives a valid path B->A of the same length"),
        ],
    },
}


def closed_type(imports, lemma, prefix=""):
    """The closed type of `lemma` as Coq prints it in the context `prefix` (the props file so far: open scopes depend on the import order) + imports."""
    prefix = re.sub(r"^Print Assumptions .*$", "", prefix, flags=re.M)
    src = prefix + f"\nFrom V Require Import {imports}.\nSet Printing Width 100.\nSet Printing Depth 100000.\nCheck @{lemma}.\n"
    work = os.path.join(os.path.dirname(COQ), ".work", "mkprops")
    os.makedirs(work, exist_ok=True)
    path = os.path.join(work, "mkprops_tmp.v")
    open(path, "w").write(src)
    out = subprocess.run(["coqc", "-Q", COQ, "V", path], capture_output=True, text=True, check=True, cwd=work).stdout
    out = out[out.rindex("\n" + lemma.split(".")[-1]) + 1:] if ("\n" + lemma.split(".")[-1]) in out else out
    m = re.match(r"\s*\S+\s*\n?\s*:\s*(.*)", out, re.S)
    return m.group(1).strip()


def main():
    pid = sys.argv[1]
    spec = SPECS[pid]
    out = [f"(** {spec['title']} Statements only: every proof is [exact] of a lemma proved elsewhere.",
           f"    {spec['doc']}", "    (Statements are the lemmas' closed types as printed by Coq, hence the qualified names.) *)",
           f"From V Require Import {spec['imports']}.", ""]
    for name, lemma, doc in spec["thms"]:
        ty = closed_type(spec["imports"], lemma)
        out.append(f"(* {doc} *)")
        out.append(f"Theorem {name} :\n  " + ty.replace("\n", "\n  ") + ".")
        out.append(f"Proof. exact @{lemma}. Qed.")
        out.append(f"Print Assumptions {name}.\n")
    open(os.path.join(COQ, "props", pid + ".v"), "w").write("\n".join(out))


if __name__ == "__main__":
    main()
