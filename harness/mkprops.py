"""Generates coq/props/Cxx.v from proved lemmas: each property theorem restates the lemma's closed type
(as printed by Check, fully qualified) and is closed by `exact`. Usage: mkprops.py Cxx"""
import os
import re
import subprocess
import sys

COQ = os.path.join(os.path.dirname(os.path.dirname(os.path.abspath(__file__))), "coq")

SPECS = {
    "C04": {
        "title": "C04 - Paths restored from a BFS result are valid and shortest.",
        "doc": "G/Ginv: a graph instance and its inverted copy (same hasher); U: the states a run touches; ball_ok G c lh: lh are the strictly sorted\n"
               "    per-layer hash lists of the true BFS layers from the central state c (what C09_bfs_prefix delivers); NoColl = hash injective on U.",
        "imports": "Base Tensor Graph GraphProofs GraphImpl Def Paths BfsStep PathsProofs",
        "thms": [
            ("C04_restore_path_correct", "restore_path_correct", "the backward walk over layer hashes yields a real path of the right length; its internal assertion cannot fire"),
            ("C04_find_path_to_sound", "find_path_to_sound", "a returned path replays from the central state to the query and its length is the true distance"),
            ("C04_find_path_to_complete", "find_path_to_complete", "'no path' exactly when the state is in none of the layers 0..D; never an error on a well-formed ball"),
            ("C04_find_path_to_shortest", "find_path_to_shortest", "no replayable path is shorter"),
            ("C04_find_path_from_sound", "find_path_from_sound", "inverse-closed generators: the reverted path leads from the state to the central state, length = distance"),
            ("C04_revert_path_valid", "revert_path_valid", "reverting a path A->B gives a valid path B->A of the same length"),
        ],
    },
}


def closed_type(imports, lemma):
    src = f"From V Require Import {imports}.\nSet Printing Width 100.\nSet Printing Depth 100000.\nCheck {lemma}.\n"
    work = os.path.join(os.path.dirname(COQ), ".work", "mkprops")
    os.makedirs(work, exist_ok=True)
    path = os.path.join(work, "mkprops_tmp.v")
    open(path, "w").write(src)
    out = subprocess.run(["coqc", "-Q", COQ, "V", path], capture_output=True, text=True, check=True, cwd=work).stdout
    m = re.match(r"\s*\S+\s*\n?\s*:\s*(.*)", out, re.S)
    return m.group(1).strip()


def main():
    pid = sys.argv[1]
    spec = SPECS[pid]
    out = [f"(** {spec['title']} Statements only: every proof is [exact] of a lemma proved elsewhere.",
           f"    {spec['doc']}", "    (Statements are the lemmas' closed types as printed by Coq, hence the qualified names.) *)",
           f"From V Require Import {spec['imports']}.", ""]
    for name, lemma, doc in spec["thms"]:
        ty = closed_type(spec["imports"], lemma)
        out.append(f"(* {doc} *)")
        out.append(f"Theorem {name} :\n  " + ty.replace("\n", "\n  ") + ".")
        out.append(f"Proof. exact {lemma}. Qed.")
        out.append(f"Print Assumptions {name}.\n")
    open(os.path.join(COQ, "props", pid + ".v"), "w").write("\n".join(out))


if __name__ == "__main__":
    main()
