"""C05 - meet-in-the-middle search returns shortest paths within its stated radius."""
import graphs as G
import pathrun as P
import bfsrun
from common import cz, czl, czll, cnl, clist, TieBroken
import p04


def check_mitm_to(gd, dist, D, q, r, central):
    d = dist.get(tuple(q))
    reachable = d is not None and d <= 2 * D
    if isinstance(r, tuple):
        return f"MeetInTheMiddle.find_path_to raised {r[2]}"
    if r is None:
        return f"no path returned although the true distance {d} <= 2*{D}" if reachable else None
    if not reachable:
        return f"a path was returned although the true distance is {d} > 2*{D}"
    if G.run_path(gd, central, r) != tuple(q):
        return f"path {r} replayed from the central state does not end at the target"
    if len(r) != d:
        return f"path length {len(r)} != true distance {d}"
    return None


def check_mitm_from(gd, dist, D, q, r, central):
    d = dist.get(tuple(q))
    reachable = d is not None and d <= 2 * D
    if isinstance(r, tuple):
        return f"MeetInTheMiddle.find_path_from raised {r[2]}"
    if r is None:
        return f"no path returned although the true distance {d} <= 2*{D}" if reachable else None
    if not reachable:
        return f"a path was returned although the true distance is {d} > 2*{D}"
    if G.run_path(gd, q, r) != tuple(central):
        return f"path {r} replayed from the start state does not end at the central state"
    if len(r) != d:
        return f"path length {len(r)} != true distance {d}"
    return None


def check_between(gd, A, B, maxd, r):
    """r: None | ('err',..) | (start_state list, edges list)."""
    layers, dist = G.ref_bfs(gd, A)
    ds = [dist[tuple(b)] for b in B if tuple(b) in dist]
    dstar = min(ds) if ds else None
    reachable = dstar is not None and dstar <= 2 * maxd
    if isinstance(r, tuple) and r and r[0] == "err":
        return f"find_path_between raised {r[2]}"
    if r is None:
        return f"no path returned although the minimal distance {dstar} <= 2*{maxd}" if reachable else None
    start, edges = r
    if not reachable:
        return f"a path was returned although the minimal distance is {dstar} > 2*{maxd}"
    if tuple(start) not in {tuple(a) for a in A}:
        return "the returned start state is not a member of the start set"
    end = G.run_path(gd, start, edges)
    if end not in {tuple(b) for b in B}:
        return "the returned path does not end in the destination set"
    if len(edges) != dstar:
        return f"path length {len(edges)} != minimal distance {dstar} over all pairs"
    return None


def observe_between(graph, A, B, maxd):
    from cayleypy.algo import MeetInTheMiddle
    try:
        r = MeetInTheMiddle.find_path_between(graph, [list(a) for a in A], [list(b) for b in B], max_diameter=maxd)
    except Exception as ex:  # pylint: disable=broad-except
        name = P.ERR.get(type(ex).__name__, "RuntimeErr")
        return ("err", name, repr(ex)[:200]), f"(Err {name})"
    if r is None:
        return None, "(Ok None)"
    start = [int(v) for v in r.start_state.reshape(-1).tolist()]
    edges = [int(e) for e in r.edges]
    return (start, edges), f"(Ok (Some ({czl(start)}, {cnl(edges)})))"


def run(ctx):
    import translators
    from cayleypy.algo import MeetInTheMiddle
    translators.gen_all(strict=True)
    rng = ctx.rng
    ctx.cov["trusted_base"] = p04.TB
    ctx.cov["rule"] = ("case = (graph, configuration, ball depth, target) or (graph, start set, destination set, depth limit); non-trivial when the true distance is >= 2 "
                       "or the answer is 'no path'; distinct by canonical JSON")
    ctx.assumptions += ["NoColl on all states a run touches"]
    ctx.prove(extra=["PathRun"])
    coq_cases, metas = [], []
    bt_cases, bt_metas = [], []
    with bfsrun.Monitors() as mon:
        for gi in range(ctx.budget(50, 400)):
            gd = G.gen_colliding_coset(rng, 800) if gi % 6 == 4 else G.gen_repeated_closed(rng, 300) if gi % 6 == 1 else P.gen_invertible_graph(rng, ctx.budget(300, 2500))
            cfgd = G.gen_config(rng, gd)
            layers, dist = G.ref_bfs(gd, [gd["central"]])
            ecc = len(layers) - 1
            D = rng.choice([0, 1, 1, 2, max(1, ecc // 2), rng.randint(0, ecc + 1)])
            stress = gi % 3 == 2
            if stress:
                # the backward search under stress: hashes that are not the identity (un-encoded or multi-word states), tiny batches on the
                # object the inverted copy is derived from, a ball of half the eccentricity and many targets in (D, 2D]
                if gd["kind"] == "perm" and rng.random() < 0.7:
                    cfgd["bit_encoding_width"] = None
                cfgd["batch_size"] = rng.choice([1, 2, 3])
                D = max(1, ecc // 2)
            graph = G.make_graph(gd, cfgd)
            # the bit-level model of the encoded action costs ~ (bits per state) per state and step: very wide codes of long states get shallower balls
            # (thorough tier: two model-evaluation shards ran for more than an hour each on such cases)
            bits_ = len(gd["central"]) * (int(graph.string_encoder.w) if graph.string_encoder is not None else 1)
            if bits_ > 512 and D > max(2, 20000 // bits_):
                D = max(2, 20000 // bits_)
                ctx.count("ball_depth_capped_for_wide_codes")
            ball = graph.bfs(max_diameter=D, return_all_hashes=True)
            Deff = len(ball.layer_sizes) - 1
            qs = P.query_states(rng, gd, layers, dist, Deff, ctx.budget(4, 7))
            if stress:
                ring = [s for s in sorted(dist) if Deff < dist[s] <= 2 * Deff]
                rng.shuffle(ring)
                qs = list(qs) + [list(s) for s in ring[: ctx.budget(8, 14)]]
                ctx.count("stress_graphs")
            ic = bool(graph.definition.generators_inverse_closed)
            qlits = []
            for q in qs:
                cont = G.pick_container(rng, list(q), 0.7)
                ctx.count("query_container_" + cont)
                r, lit = P.res_path_lit(lambda: MeetInTheMiddle.find_path_to(graph, G.in_container(cont, list(q)), ball))
                qlits.append(f"(QMitmTo {czl(q)}, {lit})")
                case = {"graph": gd, "config": cfgd, "depth": D, "query": q, "container": cont, "finder": "mitm_to"}
                d = dist.get(tuple(q))
                ctx.case_seen(case, d is None or d >= 2)
                ctx.count("mitm_" + ("outside_orbit" if d is None else "within_D" if d <= Deff else "within_2D" if d <= 2 * Deff else "beyond_2D"))
                msg = check_mitm_to(gd, dist, Deff, q, r, tuple(gd["central"]))
                if msg:
                    ctx.violation("property_fails", msg, case, True)
                if ic:
                    r, lit = P.res_path_lit(lambda: MeetInTheMiddle.find_path_from(graph, G.in_container(cont, list(q)), ball))
                    qlits.append(f"(QMitmFrom {czl(q)}, {lit})")
                    case = dict(case, finder="mitm_from")
                    ctx.case_seen(case, d is None or d >= 2)
                    msg = check_mitm_from(gd, dist, Deff, q, r, tuple(gd["central"]))
                    if msg:
                        ctx.violation("property_fails", msg, case, True)
            # the same search on a DERIVED copy (the inverted graph of this object, a modified copy with another central state): a copy is a graph like any
            # other - its recorded central-state hash is the hash its (shared) hasher gives, so a ball computed on it is accepted by it
            if gd["kind"] == "perm" and len(coq_cases) % 3 == 1:
                gd_i = dict(gd, gens=[G.inverse_perm(p_) for p_ in gd["gens"]])
                other = list(rng.choice(sorted(dist)))
                for cname, gcopy, gd_c in (("with_inverted_generators", graph.with_inverted_generators, gd_i),
                                           ("modified_copy", graph.modified_copy(graph.definition.with_central_state(other)), dict(gd, central=other))):
                    _, dist_c = G.ref_bfs(gd_c, [gd_c["central"]])
                    ball_c = gcopy.bfs(max_diameter=D, return_all_hashes=True)
                    Dc = len(ball_c.layer_sizes) - 1
                    for q in [list(rng.choice(sorted(dist_c))) for _ in range(3)]:
                        r, _ = P.res_path_lit(lambda: MeetInTheMiddle.find_path_to(gcopy, list(q), ball_c))
                        ctx.count("mitm_on_derived_copy")
                        msg = check_mitm_to(gd_c, dist_c, Dc, q, r, tuple(gd_c["central"]))
                        if msg:
                            ctx.violation("property_fails", f"on the {cname} of the graph: " + msg,
                                          {"graph": gd_c, "config": cfgd, "depth": D, "query": q, "finder": "mitm_to", "derived": cname}, True)
                            break
            coq_cases.append(f"(Build_path_case {G.coq_gdesc(gd, graph)} {P.inv_mats_lit(graph)} {graph.batch_size} {D}%N {clist(qlits)})")
            metas.append({"graph": gd, "config": cfgd, "depth": D, "queries": qs})
            ctx.count("directed" if not ic else "undirected")
            # ---- set-to-set search on the same graph ----
            verts = sorted(dist)
            for _ in range(ctx.budget(2, 4)):
                A = [list(rng.choice(verts)) for _ in range(rng.randint(1, 5))]
                r0 = rng.random()
                far = [s for s in verts if dist[s] == ecc]
                if r0 < 0.25:
                    B = [list(rng.choice(verts)) for _ in range(rng.randint(1, 5))] + [list(rng.choice(A))]   # overlap
                elif r0 < 0.45:
                    B = [list(rng.choice(far)) for _ in range(rng.randint(1, 3))]
                else:
                    B = [list(rng.choice(verts)) for _ in range(rng.randint(1, 5))]
                if rng.random() < 0.3:
                    A.append(list(A[0])); B.append(list(B[-1]))                                            # duplicates
                if rng.random() < 0.1:
                    o = P.outside_state(rng, gd, dist)
                    if o is not None:
                        B = [o]
                rng.shuffle(A); rng.shuffle(B)
                maxd = rng.choice([0, 1, 2, 3, ecc, ecc + 1])
                # the bit-level model of the encoded action costs ~ (bits per state) per state and step: very wide codes of long states get shallower searches
                bits = len(gd["central"]) * (graph.string_encoder.w if graph.string_encoder is not None else 1)
                if maxd > max(3, 20000 // bits):
                    maxd = max(3, 20000 // bits)
                    ctx.count("between_depth_capped_for_wide_codes")
                r, lit = observe_between(graph, A, B, maxd)
                case = {"graph": gd, "config": cfgd, "starts": A, "dests": B, "max_diameter": maxd, "finder": "between"}
                msg = check_between(gd, A, B, maxd, r)
                ctx.case_seen(case, r is None or (not isinstance(r[0], str) and len(r[1]) >= 2))
                ctx.count("between_" + ("none" if r is None else "err" if isinstance(r[0], str) else "len%d" % min(len(r[1]), 4)))
                if msg:
                    ctx.violation("property_fails", msg, case, True)
                bt_cases.append(f"(Build_between_case {G.coq_gdesc(gd, graph)} {P.inv_mats_lit(graph)} {czll(A)} {czll(B)} {maxd}%N {lit})")
                bt_metas.append(case)
    ctx.sample(metas[0]); ctx.sample(bt_metas[0]); ctx.sample(bt_metas[-1])
    ctx.cov["correspondence"]["isin_calls_monitored"] = mon.calls
    for site, ln in mon.unsorted[:3]:
        ctx.violation("monitor", f"isin_via_searchsorted called with an unsorted haystack at {site}", {"site": site, "len": ln}, False)
    bad = ctx.coq_failing("Base Bfs BfsRun GraphImpl Hash Tensor PathRun", "", "path_case", coq_cases, "check_path_case", "mitm", shard=ctx.budget(8, 20))
    for i in bad[:3]:
        ctx.violation("correspondence", "MITM model (find_path_to/from) differs from the implementation", metas[i], False)
    bad = ctx.coq_failing("Base Bfs BfsRun GraphImpl Hash Tensor PathRun", "", "between_case", bt_cases, "check_between_case", "between", shard=ctx.budget(10, 25))
    for i in bad[:3]:
        ctx.violation("correspondence", "find_path_between model differs from the implementation", bt_metas[i], False)
    ctx.cov["disagreements_checked"] = sum(len(m["queries"]) for m in metas) + len(bt_cases)


def replay(ctx, obj):
    from cayleypy.algo import MeetInTheMiddle
    case = obj.get("case", {})
    f = case.get("finder")
    if obj.get("kind") == "property_fails" and f in ("mitm_to", "mitm_from", "between"):
        gd, cfgd = case["graph"], case["config"]
        msg = None
        for s in (cfgd.get("random_seed"), 11, 222):
            graph = G.make_graph(gd, dict(cfgd, random_seed=s))
            if f == "between":
                r, _ = observe_between(graph, case["starts"], case["dests"], case["max_diameter"])
                msg = check_between(gd, case["starts"], case["dests"], case["max_diameter"], r)
            else:
                layers, dist = G.ref_bfs(gd, [gd["central"]])
                ball = graph.bfs(max_diameter=case["depth"], return_all_hashes=True)
                Deff = len(ball.layer_sizes) - 1
                q = case["query"]
                if f == "mitm_to":
                    r, _ = P.res_path_lit(lambda: MeetInTheMiddle.find_path_to(graph, G.in_container(case.get("container"), list(q)), ball))
                    msg = check_mitm_to(gd, dist, Deff, q, r, tuple(gd["central"]))
                else:
                    r, _ = P.res_path_lit(lambda: MeetInTheMiddle.find_path_from(graph, G.in_container(case.get("container"), list(q)), ball))
                    msg = check_mitm_from(gd, dist, Deff, q, r, tuple(gd["central"]))
            if msg is None:
                return None
        return msg
    run(ctx)
    return "; ".join(v["what"] for v in ctx.violations[:3]) or None
