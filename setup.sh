#!/bin/bash
# Builds the whole Coq development from files on disk (offline). Full .vo build, no -vos.
set -e
cd "$(dirname "$0")"
export PYTHONPATH=${VERIF_REPO:-/repo} PYTHONHASHSEED=0 CUDA_VISIBLE_DEVICES="" PYTHONDONTWRITEBYTECODE=1
mkdir -p .work evidence replays coq/gen
/venv/bin/python -u harness/main.py --gen
cd coq
shopt -s nullglob
FILES="$(echo *.v gen/*.v props/*.v)"
coq_makefile -f _CoqProject $FILES -o Makefile > /dev/null
if [ "$1" = "--makefile-only" ]; then exit 0; fi
if [ "$1" = "--clean" ]; then make clean > /dev/null 2>&1 || true; fi
# keep going past a file that does not compile (work in progress is never claimed); what MANIFEST claims must build
timeout 7200 make -k -j16 || true
CLAIMED=$(/venv/bin/python -c "import json; print(' '.join('props/%s.vo' % c['property_id'] for c in json.load(open('../MANIFEST.json'))['checks']))")
timeout 3600 make -j16 $CLAIMED
cd ..
/venv/bin/python -u harness/main.py --scan
echo "setup ok"
