#!/bin/bash
# Builds the whole Coq development from files on disk (offline). Full .vo build, no -vos.
set -e
cd "$(dirname "$0")"
export PYTHONPATH=/repo PYTHONHASHSEED=0 CUDA_VISIBLE_DEVICES="" PYTHONDONTWRITEBYTECODE=1
mkdir -p .work evidence replays coq/gen
/venv/bin/python -u harness/main.py --gen
cd coq
shopt -s nullglob
FILES="$(echo *.v gen/*.v props/*.v)"
coq_makefile -f _CoqProject $FILES -o Makefile > /dev/null
if [ "$1" = "--makefile-only" ]; then exit 0; fi
if [ "$1" = "--clean" ]; then make clean > /dev/null 2>&1 || true; fi
timeout 7200 make -j16
cd ..
/venv/bin/python -u harness/main.py --scan
echo "setup ok"
